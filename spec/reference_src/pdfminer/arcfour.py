"""Python implementation of Arcfour encryption algorithm.
See https://en.wikipedia.org/wiki/RC4
This code is in the public domain.

"""

from typing import Sequence


class Arcfour:
    def __init__(self, key: Sequence[int]) -> None:
        # because Py3 range is not indexable
        s = [i for i in range(256)]
        j = 0
        klen = len(key)
        for i in range(256):
            j = (j + s[i] + key[i % klen]) % 256
            (s[i], s[j]) = (s[j], s[i])
        self.s = s
        (self.i, self.j) = (0, 0)

    def process(self, data: bytes) -> bytes:
        (i, j) = (self.i, self.j)
        s = self.s
        r = b""
        for c in iter(data):
            i = (i + 1) % 256
            j = (j + s[i]) % 256
            (s[i], s[j]) = (s[j], s[i])
            k = s[(s[i] + s[j]) % 256]
            r += bytes((c ^ k,))
        (self.i, self.j) = (i, j)
        return r

    encrypt = decrypt = process

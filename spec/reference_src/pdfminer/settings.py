STRICT = False

"""Functions that can be used for the most common use-cases for pdfminer.six"""

import logging
import sys
from io import StringIO
from typing import Any, BinaryIO, Container, Iterator, Optional, cast

from pdfminer.converter import (
    HOCRConverter,
    HTMLConverter,
    PDFPageAggregator,
    TextConverter,
    XMLConverter,
)
from pdfminer.image import ImageWriter
from pdfminer.layout import LAParams, LTPage
from pdfminer.pdfdevice import PDFDevice, TagExtractor
from pdfminer.pdfexceptions import PDFValueError
from pdfminer.pdfinterp import PDFPageInterpreter, PDFResourceManager
from pdfminer.pdfpage import PDFPage
from pdfminer.utils import AnyIO, FileOrName, open_filename


def extract_text_to_fp(
    inf: BinaryIO,
    outfp: AnyIO,
    output_type: str = "text",
    codec: str = "utf-8",
    laparams: Optional[LAParams] = None,
    maxpages: int = 0,
    page_numbers: Optional[Container[int]] = None,
    password: str = "",
    scale: float = 1.0,
    rotation: int = 0,
    layoutmode: str = "normal",
    output_dir: Optional[str] = None,
    strip_control: bool = False,
    debug: bool = False,
    disable_caching: bool = False,
    **kwargs: Any,
) -> None:
    """Parses text from inf-file and writes to outfp file-like object.

    Takes loads of optional arguments but the defaults are somewhat sane.
    Beware laparams: Including an empty LAParams is not the same as passing
    None!

    :param inf: a file-like object to read PDF structure from, such as a
        file handler (using the builtin `open()` function) or a `BytesIO`.
    :param outfp: a file-like object to write the text to.
    :param output_type: May be 'text', 'xml', 'html', 'hocr', 'tag'.
        Only 'text' works properly.
    :param codec: Text decoding codec
    :param laparams: An LAParams object from pdfminer.layout. Default is None
        but may not layout correctly.
    :param maxpages: How many pages to stop parsing after
    :param page_numbers: zero-indexed page numbers to operate on.
    :param password: For encrypted PDFs, the password to decrypt.
    :param scale: Scale factor
    :param rotation: Rotation factor
    :param layoutmode: Default is 'normal', see
        pdfminer.converter.HTMLConverter
    :param output_dir: If given, creates an ImageWriter for extracted images.
    :param strip_control: Does what it says on the tin
    :param debug: Output more logging data
    :param disable_caching: Does what it says on the tin
    :param other:
    :return: nothing, acting as it does on two streams. Use StringIO to get
        strings.
    """
    if debug:
        logging.getLogger().setLevel(logging.DEBUG)

    imagewriter = None
    if output_dir:
        imagewriter = ImageWriter(output_dir)

    rsrcmgr = PDFResourceManager(caching=not disable_caching)
    device: Optional[PDFDevice] = None

    if output_type != "text" and outfp == sys.stdout:
        outfp = sys.stdout.buffer

    if output_type == "text":
        device = TextConverter(
            rsrcmgr,
            outfp,
            codec=codec,
            laparams=laparams,
            imagewriter=imagewriter,
        )

    elif output_type == "xml":
        device = XMLConverter(
            rsrcmgr,
            outfp,
            codec=codec,
            laparams=laparams,
            imagewriter=imagewriter,
            stripcontrol=strip_control,
        )

    elif output_type == "html":
        device = HTMLConverter(
            rsrcmgr,
            outfp,
            codec=codec,
            scale=scale,
            layoutmode=layoutmode,
            laparams=laparams,
            imagewriter=imagewriter,
        )

    elif output_type == "hocr":
        device = HOCRConverter(
            rsrcmgr,
            outfp,
            codec=codec,
            laparams=laparams,
            stripcontrol=strip_control,
        )

    elif output_type == "tag":
        # Binary I/O is required, but we have no good way to test it here.
        device = TagExtractor(rsrcmgr, cast(BinaryIO, outfp), codec=codec)

    else:
        msg = f"Output type can be text, html, xml or tag but is {output_type}"
        raise PDFValueError(msg)

    assert device is not None
    interpreter = PDFPageInterpreter(rsrcmgr, device)
    for page in PDFPage.get_pages(
        inf,
        page_numbers,
        maxpages=maxpages,
        password=password,
        caching=not disable_caching,
    ):
        page.rotate = (page.rotate + rotation) % 360
        interpreter.process_page(page)

    device.close()


def extract_text(
    pdf_file: FileOrName,
    password: str = "",
    page_numbers: Optional[Container[int]] = None,
    maxpages: int = 0,
    caching: bool = True,
    codec: str = "utf-8",
    laparams: Optional[LAParams] = None,
) -> str:
    """Parse and return the text contained in a PDF file.

    :param pdf_file: Either a file path or a file-like object for the PDF file
        to be worked on.
    :param password: For encrypted PDFs, the password to decrypt.
    :param page_numbers: List of zero-indexed page numbers to extract.
    :param maxpages: The maximum number of pages to parse
    :param caching: If resources should be cached
    :param codec: Text decoding codec
    :param laparams: An LAParams object from pdfminer.layout. If None, uses
        some default settings that often work well.
    :return: a string containing all of the text extracted.
    """
    if laparams is None:
        laparams = LAParams()

    with open_filename(pdf_file, "rb") as fp, StringIO() as output_string:
        fp = cast(BinaryIO, fp)  # we opened in binary mode
        rsrcmgr = PDFResourceManager(caching=caching)
        device = TextConverter(rsrcmgr, output_string, codec=codec, laparams=laparams)
        interpreter = PDFPageInterpreter(rsrcmgr, device)

        for page in PDFPage.get_pages(
            fp,
            page_numbers,
            maxpages=maxpages,
            password=password,
            caching=caching,
        ):
            interpreter.process_page(page)

        return output_string.getvalue()


def extract_pages(
    pdf_file: FileOrName,
    password: str = "",
    page_numbers: Optional[Container[int]] = None,
    maxpages: int = 0,
    caching: bool = True,
    laparams: Optional[LAParams] = None,
) -> Iterator[LTPage]:
    """Extract and yield LTPage objects

    :param pdf_file: Either a file path or a file-like object for the PDF file
        to be worked on.
    :param password: For encrypted PDFs, the password to decrypt.
    :param page_numbers: List of zero-indexed page numbers to extract.
    :param maxpages: The maximum number of pages to parse
    :param caching: If resources should be cached
    :param laparams: An LAParams object from pdfminer.layout. If None, uses
        some default settings that often work well.
    :return: LTPage objects
    """
    if laparams is None:
        laparams = LAParams()

    with open_filename(pdf_file, "rb") as fp:
        fp = cast(BinaryIO, fp)  # we opened in binary mode
        resource_manager = PDFResourceManager(caching=caching)
        device = PDFPageAggregator(resource_manager, laparams=laparams)
        interpreter = PDFPageInterpreter(resource_manager, device)
        for page in PDFPage.get_pages(
            fp,
            page_numbers,
            maxpages=maxpages,
            password=password,
            caching=caching,
        ):
            interpreter.process_page(page)
            layout = device.get_result()
            yield layout

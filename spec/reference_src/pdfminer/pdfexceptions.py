from pdfminer.psexceptions import PSException


class PDFException(PSException):
    pass


class PDFTypeError(PDFException, TypeError):
    pass


class PDFValueError(PDFException, ValueError):
    pass


class PDFObjectNotFound(PDFException):
    pass


class PDFNotImplementedError(PDFException, NotImplementedError):
    pass


class PDFKeyError(PDFException, KeyError):
    pass


class PDFEOFError(PDFException, EOFError):
    pass


class PDFIOError(PDFException, IOError):
    pass

import collections
from typing import Dict

from pdfminer.psparser import LIT

LITERAL_DEVICE_GRAY = LIT("DeviceGray")
LITERAL_DEVICE_RGB = LIT("DeviceRGB")
LITERAL_DEVICE_CMYK = LIT("DeviceCMYK")
# Abbreviations for inline images
LITERAL_INLINE_DEVICE_GRAY = LIT("G")
LITERAL_INLINE_DEVICE_RGB = LIT("RGB")
LITERAL_INLINE_DEVICE_CMYK = LIT("CMYK")


class PDFColorSpace:
    def __init__(self, name: str, ncomponents: int) -> None:
        self.name = name
        self.ncomponents = ncomponents

    def __repr__(self) -> str:
        return "<PDFColorSpace: %s, ncomponents=%d>" % (self.name, self.ncomponents)


PREDEFINED_COLORSPACE: Dict[str, PDFColorSpace] = collections.OrderedDict()

for name, n in [
    ("DeviceGray", 1),  # default value first
    ("CalRGB", 3),
    ("CalGray", 1),
    ("Lab", 3),
    ("DeviceRGB", 3),
    ("DeviceCMYK", 4),
    ("Separation", 1),
    ("Indexed", 1),
    ("Pattern", 1),
]:
    PREDEFINED_COLORSPACE[name] = PDFColorSpace(name, n)

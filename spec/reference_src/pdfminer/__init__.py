from importlib.metadata import PackageNotFoundError, version

try:
    __version__ = version("pdfminer.six")
except PackageNotFoundError:
    # package is not installed, return default
    __version__ = "0.0"

if __name__ == "__main__":
    print(__version__)

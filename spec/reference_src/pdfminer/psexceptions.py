class PSException(Exception):
    pass


class PSEOF(PSException):
    pass


class PSSyntaxError(PSException):
    pass


class PSTypeError(PSException):
    pass


class PSValueError(PSException):
    pass

#!/bin/sh
# Offline setup: nothing to build; verify the engine imports and the repo parses.
cd "$(dirname "$0")" || exit 1
if [ -x /venv/bin/python ]; then PY=/venv/bin/python; else PY=python3; fi
mkdir -p evidence
PYTHONDONTWRITEBYTECODE=1 exec "$PY" -c "
from sa.model import Model
m = Model()
print('setup ok: parsed', len(m.modules), 'modules,', len(m.funcs), 'functions from', m.root)
"

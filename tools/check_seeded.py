#!/usr/bin/env python3
"""Regression over the stored seeded changes: apply each /verif/seeded/<name>/patch.diff to a scratch worktree of /repo's HEAD
(never to /repo), run the quick check of the property it breaks with VERIF_REPO pointing there, and expect a VIOLATION.
usage: check_seeded.py [--jobs N] [name-prefix ...]"""
import json, os, subprocess, sys, tempfile, shutil
from concurrent.futures import ThreadPoolExecutor

VERIF = os.path.dirname(os.path.dirname(os.path.abspath(__file__)))
BASE = "/tmp/seedwt/regress"


def sh(cmd, cwd=None, env=None):
    p = subprocess.run(cmd, shell=True, cwd=cwd, env=env, stdout=subprocess.PIPE, stderr=subprocess.STDOUT, text=True)
    return p.returncode, p.stdout


def one(name):
    d = os.path.join(VERIF, "seeded", name)
    meta = json.load(open(os.path.join(d, "meta.json")))
    prop = meta.get("breaks_property") or name[:3]
    wt = os.path.join(BASE, name)
    sh(f"rm -rf {wt} && mkdir -p {wt} && git -C /repo archive HEAD pdfminer docs | tar -x -C {wt}")
    rc, out = sh(f"patch -p1 -s -f < {d}/patch.diff", cwd=wt)
    if rc != 0:
        shutil.rmtree(wt, ignore_errors=True)
        return name, prop, "PATCH-DOES-NOT-APPLY", out.strip().splitlines()[-1:] 
    ev = tempfile.mkdtemp(prefix="ev_")
    env = dict(os.environ, VERIF_REPO=wt, VERIF_EVIDENCE_DIR=ev)
    rc, out = sh(f"{VERIF}/check {prop}", env=env)
    rules = sorted({l.split()[1] for l in out.splitlines() if l.strip().startswith("VIOLATION-DETAIL")})
    shutil.rmtree(wt, ignore_errors=True); shutil.rmtree(ev, ignore_errors=True)
    return name, prop, ("caught" if rc == 1 and rules else f"NOT-CAUGHT rc={rc}"), rules


def main():
    args = [a for a in sys.argv[1:] if not a.startswith("--")]
    jobs = 12
    names = sorted(n for n in os.listdir(os.path.join(VERIF, "seeded")) if os.path.isdir(os.path.join(VERIF, "seeded", n)) and (not args or any(n.startswith(a) for a in args)))
    os.makedirs(BASE, exist_ok=True)
    bad = 0
    with ThreadPoolExecutor(jobs) as ex:
        for name, prop, status, rules in ex.map(one, names):
            print(f"{name:55s} {prop} {status} {','.join(rules)}")
            bad += status != "caught"
    shutil.rmtree(BASE, ignore_errors=True)
    print(f"{len(names)} seeded changes, {bad} not caught")
    sys.exit(1 if bad else 0)


main()

#!/usr/bin/env python3
"""Re-base stored patches (seeded/ and benign/) after a repair in /repo: a patch that no longer applies to HEAD is applied to
the commit it was made for (OLD), merged three-way with HEAD file by file (git merge-file), and rewritten as a diff against
HEAD.  usage: rebase_patches.py <old-commit> [--write]     Patches with merge conflicts are listed and left alone."""
import difflib, glob, os, subprocess, sys, tempfile, shutil

VERIF = os.path.dirname(os.path.dirname(os.path.abspath(__file__)))
REPO = "/repo"
old = sys.argv[1]
write = "--write" in sys.argv


def sh(cmd, cwd=None):
    p = subprocess.run(cmd, shell=True, cwd=cwd, stdout=subprocess.PIPE, stderr=subprocess.STDOUT, text=True)
    return p.returncode, p.stdout


tmp = tempfile.mkdtemp(prefix="rebase_", dir="/tmp")
wt_old, wt_new = os.path.join(tmp, "old"), os.path.join(tmp, "new")
sh(f"git -C {REPO} worktree add --detach {wt_old} {old}")
sh(f"git -C {REPO} worktree add --detach {wt_new} HEAD")
res = {"ok": 0, "rebased": [], "conflict": [], "broken": []}
try:
    for pf in sorted(glob.glob(os.path.join(VERIF, "seeded", "*", "patch.diff")) + glob.glob(os.path.join(VERIF, "benign", "*", "patch.diff"))):
        sh("git checkout -q -- . && git clean -fdq", cwd=wt_new)
        rc, _ = sh(f"patch -p1 -s -f --dry-run < {pf}", cwd=wt_new)
        if rc == 0:
            res["ok"] += 1
            continue
        sh("git checkout -q -- . && git clean -fdq", cwd=wt_old)
        rc, out = sh(f"patch -p1 -s -f < {pf}", cwd=wt_old)
        if rc != 0:
            res["broken"].append(pf)
            continue
        rc, out = sh("git status --porcelain", cwd=wt_old)
        files = [l[3:] for l in out.splitlines() if l[:2].strip() in ("M", "A", "??") and not l.endswith((".orig", ".rej"))]
        diff_parts, conflict = [], False
        for rel in files:
            mut = os.path.join(wt_old, rel)
            cur = os.path.join(wt_new, rel)
            base = os.path.join(tmp, "base.py")
            rc, txt = sh(f"git -C {REPO} show {old}:{rel}")
            if rc != 0:  # new file
                new_txt = open(mut).read()
                cur_txt = ""
            else:
                open(base, "w").write(txt)
                p = subprocess.run(["git", "merge-file", "-p", cur, base, mut], stdout=subprocess.PIPE, stderr=subprocess.PIPE, text=True)
                if p.returncode != 0:
                    conflict = True
                    break
                new_txt = p.stdout
                cur_txt = open(cur).read()
            d = list(difflib.unified_diff(cur_txt.splitlines(True), new_txt.splitlines(True), f"a/{rel}", f"b/{rel}", n=3))
            if d:
                diff_parts.append(f"diff --git a/{rel} b/{rel}\n" + "".join(x if x.endswith("\n") else x + "\n\\ No newline at end of file\n" for x in d))
        if conflict:
            res["conflict"].append(pf)
            continue
        new_patch = "".join(diff_parts)
        # verify
        tp = os.path.join(tmp, "new.diff")
        open(tp, "w").write(new_patch)
        sh("git checkout -q -- . && git clean -fdq", cwd=wt_new)
        rc, out = sh(f"patch -p1 -s -f --dry-run < {tp}", cwd=wt_new)
        if rc != 0 or not new_patch:
            res["conflict"].append(pf)
            continue
        res["rebased"].append(pf)
        if write:
            shutil.copy(tp, pf)
finally:
    sh(f"git -C {REPO} worktree remove --force {wt_old}")
    sh(f"git -C {REPO} worktree remove --force {wt_new}")
    shutil.rmtree(tmp, ignore_errors=True)
print("apply as they are:", res["ok"])
for k in ("rebased", "conflict", "broken"):
    print(k, len(res[k]))
    for p in res[k]:
        print("   ", os.path.relpath(p, VERIF))

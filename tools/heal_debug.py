#!/usr/bin/env python3
"""Debugging aid for sa/equiv.py: heal_debug.py <patch> [func-substring]  -> which changed functions are proven
equivalent to their reviewed form, and for the others a diff of the two normal forms."""
import ast, copy, difflib, os, sys
sys.path.insert(0, os.path.dirname(os.path.dirname(os.path.abspath(__file__))))
from sa import equiv
from sa.model import Model
from sa.selftest.seeded import apply_hunks, parse_patch

base = Model(heal=False)
files = parse_patch(open(sys.argv[1], encoding="utf-8", errors="replace").read())
only = sys.argv[2] if len(sys.argv) > 2 else ""


def nf_tree(fn, ctx):
    g = copy.deepcopy(fn)
    equiv._Strip().visit(g)
    equiv.separate_scopes(g)
    equiv.Inliner(ctx, g).run()
    equiv.separate_scopes(g)
    norm = equiv.Normaliser(bound_names=equiv._param_names(g), list_locals=equiv._list_locals(g))
    prev = None
    for _ in range(8):
        g = equiv._Expr().visit(g)
        equiv.hoist_nested_defs(g)
        g.body = equiv.strip_tail(norm.block(g.body), ast.Return)
        for sub in ast.walk(g):
            if isinstance(sub, equiv.FuncNode):
                equiv.split_webs(sub)
        equiv.find_idiom(g)
        equiv.forward_substitute(g)
        equiv.coalesce_copies(g)
        equiv._StripMsg().visit(g)
        cur = equiv.dump(g.body)
        if cur == prev:
            break
        prev = cur
    g = equiv._Expr().visit(g)
    equiv.alpha_rename(g)
    if not g.body:
        g.body = [ast.Pass()]
    return g


for rel, hunks in files.items():
    src = apply_hunks(base.read_text(rel), hunks)
    tree = ast.parse(src)
    ren = equiv.detect_renames(rel, src, tree)
    if ren:
        print(rel, "renames:", ren)
        equiv._rename_everywhere(tree, ren)
    ref = equiv.reference_module(rel)
    if ref is None:
        print(rel, "no reference")
        continue
    cur_tree, ref_tree = copy.deepcopy(tree), copy.deepcopy(ref[1])
    cf, rf = equiv.function_table(cur_tree), equiv.function_table(ref_tree)
    cc, rc = equiv.const_table(cur_tree), equiv.const_table(ref_tree)
    ch = {k: cf[k][0] for k in cf if k not in rf}
    rh = {k: rf[k][0] for k in rf if k not in cf}
    print(rel, "new:", sorted(ch), "gone:", sorted(rh))
    for key in cf:
        if key not in rf or equiv.dump(cf[key][0]) == equiv.dump(rf[key][0]) or only not in key:
            continue
        a = nf_tree(cf[key][0], equiv.Ctx(ch, {k: v for k, v in cc.items() if k not in rc}, cf[key][2], set()))
        b = nf_tree(rf[key][0], equiv.Ctx(rh, {k: v for k, v in rc.items() if k not in cc}, rf[key][2], set()))
        if equiv.dump(a.body) == equiv.dump(b.body):
            print("  HEALED", key)
        else:
            print("  DIFFERENT", key)
            try:
                ua, ub = ast.unparse(ast.fix_missing_locations(b)).splitlines(), ast.unparse(ast.fix_missing_locations(a)).splitlines()
            except Exception as e:
                print("   unparse failed", e)
                continue
            for l in difflib.unified_diff(ua, ub, "reviewed", "current", lineterm="", n=2):
                print("     " + l)

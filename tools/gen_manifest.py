#!/usr/bin/env python3
"""Regenerates /verif/MANIFEST.json from the table below (keeps it schema-valid)."""
import json, os

HERE = os.path.dirname(os.path.dirname(os.path.abspath(__file__)))
ALL = [f"C{n:02d}" for n in range(1, 21)]

# property -> (technique, level text, level note, design ref)
CLAIMED = {
    "C01": (
        "table folding of regex byte classes vs ISO 32000-1 Tables 1-3, finite-domain evaluation of the _parse_main dispatch, scanner-FSM extraction with reference automaton, buffer-read classification, typestate initialisation dataflow, pairing of assembly keywords; sibling agreement of the value keywords handled by the two object readers; key-dependence check of the interning table; EOL-normalisation table check of the string scanner; comparison of every scanner transition's branch condition with a reviewed reference",
        "Decides the structural necessary conditions of 'every conformant spelling reads back': lexical classes, escapes, dispatch, automaton shape, initialisation of scanner fields, balanced array/dict/proc assembly, and - completely - that no scanner reads ahead of the current byte or branches on the buffer length (buffer/offset independence). It does not decide the value computed for each token (number grammar, #xx, nesting depth): that part is value-level and is not claimed. Also decides that PDFStreamParser (object streams) converts the same keywords into values as PDFParser (null, R). Also decides that names are interned under the name as given, and whether a raw end-of-line inside a literal string is normalised (today it is not: known finding C01-R9). The branch conditions of all scanner states except the main dispatch are compared with a reviewed reference table. Round 6: hex-string digits are paired over the whole white-space-stripped token and HEX_PAIR has the reviewed regex syntax tree (C01-R10).",
        "Trusts CPython ast/re, the transcription of Tables 1-3 in spec/pdf_lexical.json and the reference automaton confirmed by reading. Known finding C01-R4 (odd hex digit) is pinned by the existing test-suite and therefore recorded, not repaired.",
        "DESIGN.md §5 C01",
    ),
    "C02": (
        "CFG dominance / must-pass checks on read_xref_from and getobj, sibling-agreement dependence check on the two cross-reference-stream readers, raise-class check on the classic loader's failure exits, binding checks; write-set inventory of the object caches; refill-before-read typestate of the line reader; sibling agreement of the entry-type decoding; PSEOF-handler coverage of the loaders' tokenizer calls; binding checks of the classic-table, body-scan and object-stream readers",
        "Decides structural necessary conditions of xref resolution: newest-first collection (append dominates the descent into XRefStm then Prev), first hit wins in getobj and in the trailer loop, both readers of a cross-reference stream index entries with a counter carried across /Index ranges, every failure exit of the classic loader raises PDFNoValidXRef and its handler engages the body scan (fallback flag set before loading; stream data extended only in fallback mode), object-stream member index and entry-field slicing. Equality of answers across physical forms, EOL styles and buffer sizes is value/history level and not decided. Also decides that the object caches are written only by the lookup that owns them, under the key looked up (an entry registered elsewhere would bypass the newest-first walk). Also decides that the line reader refills its buffer before every look at it and that both xref-stream readers default the entry type to 1. Also decides that end of input inside a loader is routed to the body scan, and the entry bindings of the classic table, the body scan and object-stream parsing. Round 6: every get_pos signals absence with a KeyError subclass, the signal getobj's fall-through catches (C02-R11); a malformed classic-table line raises PDFNoValidXRef rather than being skipped (C02-R12). Round 7: the /Index default is the two-argument get (C02-R13).",
        "Trusts CPython ast and the reading of ISO 32000-1 7.5.4-7.5.8 encoded in the rule.",
        "DESIGN.md §5 C02",
    ),
    "C03": (
        "table folding of filter-name literals vs ISO 32000-1 Tables 6/94, dispatch-chain extraction, parameter binding against callee signatures, ceiling-division normal forms for row-buffer units, polynomial/comparison normal form of the Paeth function, CFG dominance on the payload read; write-set of the payload variable; constant/case-split checks of the RunLength, ASCIIHex and ASCII85 decoders",
        "Decides structural necessary conditions of stream decoding: names/abbreviations and the decoder each reaches, pairing and order of filters and parameters with the predictor after its filter, predictor dispatch/defaults/bindings, byte units of the PNG row buffers, the Paeth function and per-type operands, payload delimited by /Length after the stream line. Round-trip equality of the LZW/RunLength/ASCII85/Flate decoders is value level and not decided. Also decides that the payload is modified only by fallback-mode appends, and the case split and constants of the byte-oriented decoders. Round 6: the declared /Predictor value takes no part in PNG row decoding (each row's filter is its tag byte). Round 7: every path through a filter stage reaches the predictor test (must-pass).",
        "Trusts spec/pdf_filters.json (transcribed from ISO 32000-1 and PNG 1.2).",
        "DESIGN.md §5 C03",
    ),
    "C04": (
        "table folding (inheritable attributes), CFG dominance of the visited-set guard, must-pass-through of the page-limit test with a polynomially normalised threshold, polynomial identities for the page CTM of each Rotate branch, dispatch checks of box defaults; binding check of parse_rect",
        "Decides structural necessary conditions of page-tree handling: exactly the Table 30 attributes are inherited from the nearest ancestor, Kids in list order with the merged dictionary passed down, visited guard dominating every yield/descent (termination on cycles), the maxpages test on every path of the selection loop with the right threshold, Rotate mod 360, page CTM = clockwise rotation mapping the MediaBox onto an origin box (exact polynomial identities), box defaults. Page order for malformed trees and label pairing are not decided. Also decides the order and conversion of parse_rect.",
        "Trusts CPython ast and the polynomial normaliser.",
        "DESIGN.md §5 C04",
    ),
    "C05": (
        "arity/dispatch table check vs ISO 32000-1 Annex A, must-call ordering on handler CFGs, polynomial normal forms of the positioning kernels and pen-advance bindings, copy-completeness of state objects, pairing/restore checks on the form-XObject branch; truth-test lint on safe_float/safe_int results; width-table guard shared with C07; write-set of the stream switch (fillfp); operand-stack discipline of pop; refill-sequence check of the content parser; fresh-state write-set of render_contents; per-interpreter colour-space table",
        "Decides the structural necessary conditions of the text model: each text/graphics-state operator exists with the spec'd operand count and is only invoked with all operands; ', \", TD, Tj decompose as 9.4.2-9.4.3 prescribe; Td/TD/T*/Tm/BT/cm compute the spec formulas (polynomial identities); q/Q and TJ snapshots copy every state field; nested form execution uses a fresh interpreter, own/copied resources, balanced figure bracket and re-issues the caller's CTM; scale factors and parameter bindings of the pen advance are the spec's. Numeric glyph positions for arbitrary programs and font metrics are not decided. Also decides that converted operands are rejected only when None (0 is a value) and that an explicit zero width in a width table wins over the default. Also decides that switching to the next content stream keeps the lexical state and that pop(n) always consumes what it returns. Also decides that every content starts from a fresh state and that the buffer position of the content parser is taken from the open stream. Round 6: the composite operators ' and \" touch the text state only through Tw/Tc/T*/TJ (C05-R13); state-copy completeness accepts the setattr-loop spelling. Round 7: the recorded Tc-before-glyph finding is keyed by its guard; any other guard is reported.",
        "Trusts the transcription of Annex A in spec/pdf_operators.json. Known finding C05-R6 (character spacing added before instead of after a glyph) is recorded, not repaired.",
        "DESIGN.md §5 C05",
    ),
    "C16": (
        "arity table check, paint-flag table with delegation resolution, post-dominance of the path reset, symbolic evaluation of path construction (`re` normal form), write-set checks of colour/line-state operators, parameter binding from paint_path through LTLine/LTRect into LTCurve fields, saved-state completeness; truth-test lint on converted operands; per-interpreter copy of the colour-space table; push/pop pairing of q/Q; positional dependence of safe_* results (shared with C13)",
        "Decides the structural necessary conditions of path painting: arities, (stroke, fill, even-odd) flags per operator, close-first for s/b/b*, current path cleared on all paths by every painting operator and n, `re` expansion, which graphics-state fields each colour/line operator writes, that every shape constructor receives line width, flags, both colours, path and dash of the state in force (followed down to the stored fields), the classification sets, that shape decisions read device-space points only, and which state q/Q saves. Transformed coordinates as numbers are not decided. Also decides that `0 w` style operands are not rejected by truth tests and that the colour-space table is a per-interpreter copy. Also decides that q pushes on every path and Q pops whenever the stack is non-empty. Also decides that safe_rgb/safe_cmyk/safe_matrix return the converted operands in the order given. Round 6: PDFGraphicState.copy() is complete (C16-R11, shared with C05-R4).",
        "Trusts spec/pdf_operators.json. Known findings C16-R6 (current colour spaces not part of the q/Q snapshot) are recorded.",
        "DESIGN.md §5 C16",
    ),
    "C06": (
        "ordering/precedence extraction, table folding of the Latin encoding table through the glyph list against Python's cp1252/mac_roman codecs (independent oracle), overlay-algorithm and copy-before-store checks, anchored-regex guard check, dispatch table of font subtypes, binding checks of width lookups; bfrange/bfchar expansion checks of the ToUnicode parser (shared with C07); in-place-write inventory of the font encoding tables; base-initialiser ordering; per-iteration reset of the font cache key (CFG must-pass); integer-range check of the surrogate guard; binding checks of the Type 1 header parser",
        "Decides structural necessary conditions for simple fonts: ToUnicode precedes the encoding and a missing mapping becomes (cid:N); WinAnsi/MacRoman columns equal the platform codecs except the documented deviations and every glyph name resolves; Differences overlay semantics on a copy; glyph-name hex parts validated over their whole length; subtype dispatch; Widths/FirstChar/MissingWidth/FontMatrix bindings. The AGL algorithm as a string function, the standard-14 metric tables (no oracle on this machine) and Type 1 header parsing are not decided. Also decides the inclusive expansion of ToUnicode bfrange entries. Also decides that fonts never write into their (possibly shared) encoding table and that fields set by a base initialiser are set by subclasses only after calling it. Also decides that the font cache key is reset for every font, that exactly D800..DFFF are refused, and the dup/put bindings of the Type 1 header parser. Round 6: the Type 1 built-in encoding is read under exactly {'Encoding' not in spec, 'FontFile' in descriptor} (C06-R13, guard conjunct sets).",
        "Trusts Python's cp1252 and mac_roman codecs and the documented deviations of ISO 32000-1 Annex D.",
        "DESIGN.md §5 C06",
    ),
    "C07": (
        "dispatch/format extraction for the identity CMaps, size-agreement check of struct.unpack, begin/end pairing and chunk-size extraction in the CMap parser, dependence/inclusive-bound checks on every range expansion, binding checks of DW2/W2; alias analysis of the Type0 descendant dictionary (shared with C12-R5); typestate of the CMap.decode cursor; memo dependence (shared with C12); mask normal form of TrueType glyph ids; dispatch check of ToUnicode targets and CMap-name selection",
        "Decides only the structural part, which is a minority of this property: identity CMap segmentation (width, byte order, writing mode, whole codes only), begin/end handling of the ToUnicode parser, index dependence and inclusive bounds of bfrange/cidrange/W/W2 expansions, DW2/W2 bindings. CJK code segmentation and Unicode values come from pickled data files, and agreement with platform codecs is value level: not decided. Also decides that the descendant dictionary handed to the CID font is the font's own copy. Also decides that every byte moves the code-table cursor (descend / emit and restart / restart on an unassigned byte). Also decides the 16-bit wrap of TrueType format-4 glyph ids and how ToUnicode targets and CMap names are interpreted. Round 6: W/W2 range loops run under no further condition than the integer tests (C07-R12).",
        "Thin by design (DESIGN §6): most of the behaviour is data, not code.",
        "DESIGN.md §5 C07",
    ),
    "C08": (
        "def-use flow of the partitions in LTLayoutContainer.analyze, typestate abstract interpretation of group_objects over all feasible paths of its loop body (three-valued branch evaluation), min/max normal form of the expanding add with a who-may-bypass inventory, must-pass-through of the line break, sort-key normal forms, ordering of numbering; second typestate pass over (halign, valign, kind of current line) for orientation purity; Plane membership write-sets (shared with C20); conservation (pairing) check of the hierarchical grouping loop; identity-semantics inventory of the item classes; path-sensitive analysis of the empty lines; division-by-extent scan; unconditional growth of bounding boxes (CFG must-pass)",
        "Decides structural necessary conditions of content conservation: every partition reaches the final child list, every glyph is added to exactly one line exactly once and every line is yielded exactly once on all paths of the grouping loop, bounding boxes grow by min/max and only LTAnno bypasses that, every line gets its break and every line/box is analysed, lines are sorted top-to-bottom (right-to-left), boxes are numbered on both ordering paths, container text is the in-order concatenation. Termination of the heap loop of group_textboxes and that group_textlines never drops a non-empty line are arithmetic/history-level and not decided. Also decides that a glyph joins a horizontal (vertical) line only when horizontally (vertically) aligned with its predecessor, and that Plane.add/remove register/unregister on every path. Also decides that a merge removes both members and adds exactly their group on every path, that no layout class defines __eq__/__hash__, and that empty lines are analysed on every path. Also decides that the layout code never divides by a glyph extent and that add() grows the box on every path.",
        "Trusts CPython ast; the typestate abstraction tracks only `line` (none/some) and the add/yield events.",
        "DESIGN.md §5 C08",
    ),
    "C09": (
        "normalised predicate extraction (comparison direction, commutative operands, polynomial difference) compared with the documented definitions, mirror-image (x<->y) sibling agreement of the horizontal/vertical variants, polynomial normal form of the ordering keys, dimension (homogeneity) analysis of every comparison / sum / min / max / sort key in the layout code; truth-test lint on the optional boxes_flow parameter; strict-overlap predicate of Plane.find (shared with C20)",
        "Decides that the grouping predicates are the documented ones (strictness, min vs max, which operand), that vertical variants mirror the horizontal ones, that ordering keys are top-to-bottom/left-to-right, and that every decision in the layout code compares quantities of equal degree in length with dimensionless parameters - which, with exact scaling by powers of two, is the argument for scale invariance. The grouping outcome on concrete arrangements (closure of the neighbour relation, reading order of real documents) is not decided. Also decides that boxes_flow is compared with None by identity wherever it selects a branch (0 is a documented value). Also decides that the neighbour search is strict on all four sides. Round 6: every iteration of group_textlines reaches find_neighbors (must-pass, C09-R7).",
        "Assumes exact float scaling by powers of two, coordinates below the INF sentinels, and that Plane.gridsize only affects bucketing (C20).",
        "DESIGN.md §5 C09",
    ),
    "C10": (
        "who-may-call inventory of decryption sites with branch placement, CFG ordering checks, must-pass-through of PKCS#7 removal, table check of algorithm constants / round counts / slice lengths / update order / registry against ISO 32000 7.6, canonical comparison of the unsigned conversion; normal form of the recursive decipher walk; normal form of RC4; table check of the SASLprep mapping step",
        "Decides structural necessary conditions of decryption: it is applied at exactly the reviewed sites (direct objects only, streams once before filters, xref data before any handler exists), AES object data is unpadded while key unwrapping is not, the algorithm constants and orders are the standard's, a failed authentication can only end in PDFPasswordIncorrect, and /P 0 converts to 0. That the derived keys decrypt real files (cryptographic equality) and that every wrong password is rejected are not decided. Also decides that decipher_all visits every list element and dictionary value. Also decides the RC4 key schedule / output loop and the SASLprep mapping and prohibited tables. Round 6: password bytes are a strict encoding, no lossy errors mode (C10-R9).",
        "Trusts spec/std_security.json (transcribed from ISO 32000-1 7.6 and ISO 32000-2 7.6.4.3) and the cryptography package.",
        "DESIGN.md §5 C10",
    ),
    "C11": (
        "backward provenance (taint) analysis from every interpolation in XMLConverter writes, with escaper/numeric-format cleansing and a reviewed safe-expression table; sibling agreement of codec use; class-hierarchy-aware dispatch-order check; tag-balance check of literal output per branch; structural order checks on TextConverter; table folding of the strip_control character class against the XML 1.0 Char production; attribute-name -> item-field binding table for every XML element; converter-selection and sink-classification bindings",
        "Decides structural necessary conditions: no document-controlled value reaches the XML output unescaped, every converter encodes with its codec on a binary sink, isinstance dispatch does not shadow subclasses and covers every item class, literal XML written per branch is balanced, the text converter renders children in order with one newline per text box and one form feed per page. It does not decide that the output characters equal the tree's text for every document, nor XML-1.0-forbidden control characters when stripcontrol is off. Also decides that strip_control removes exactly the C0 controls XML 1.0 forbids. Also decides that each XML attribute is filled from the item field of the same meaning. Also decides which converter serves which output type with which options, and how sinks are classified as binary or text.",
        "Trusts the source/sanitizer tables in rules/c15.py (make_prov) and the reviewed safe-expression table in rules/c11.py.",
        "DESIGN.md §5 C11",
    ),
    "C15": (
        "complete inventory of file-system call sites against a reviewed table, call-graph reachability for developer-only sites, backward provenance (taint) from every path argument with basename / realpath-prefix confinement recognised by CFG dominance, dominance of the unique-name loop over write-mode opens and a CFG must-pass check that every assignment of the returned name is followed by the existence test; constant check of the CMAP_PATH default",
        "Decides, relative to its source and sanitizer tables, that processing a document performs no file-system access other than the reviewed sites, that no document-controlled string reaches a path argument unconfined, and that image export never opens an existing file for writing. The claim is complete for the package's source (every call site is enumerated on each run). The confinement guard is accepted only when both compared paths are symlink-resolved (realpath). The CMAP_PATH fallback must be a fixed absolute directory. Round 6: the realpath containment test must be about the very path handed to the sink and the directory that path was joined to.",
        "Trusts the FS-call table, the source/sanitizer tables and the call-graph resolution (fan-out over-approximates callers). Pickle loading of resource files inside the resource directory is trusted.",
        "DESIGN.md §5 C15",
    ),
    "C12": (
        "effect analysis: complete inventory of module/class-level mutable state and of every function-level write to it (item stores, mutator calls, class/module attribute stores, global statements) against a reviewed allow-list; CFG dominance of copy-before-store on shared tables; constructor-site enumeration for mutators of shareable CMap objects; mutable-default scan; cache-path sibling agreement; flow-insensitive alias analysis of the target of every item store / mutator call against the document's parsed dictionaries and lists; dependence analysis of memo-table stores (value depends on the key only); cache write-set inventory (shared with C02); key-expression check of the font cache",
        "Decides purity as absence of channels: no function writes process-wide state except two reviewed memo tables and the interning tables, shared encoding/colour-space tables are copied before any store, CMap mutators only run on freshly constructed maps, entry points construct their managers per call, caches store exactly what the uncached path returns under the caching flag, and no function writes into a dictionary or list that aliases a parsed (cached) document object. It does not decide bit-for-bit equality of outputs across histories. Also decides that the value stored in a process-wide memo table depends on the key alone and that object caches are only written by their owning lookup. Also decides that the font cache is keyed by object numbers only. Round 6: per-page interpreter state is created fresh (C12-R9, shared with C05-R11); the interned-name tables only grow (C12-R10). Round 7: decode() runs under `self.data is None` only (C12-R11).",
        "Assumes deterministic dict order/float arithmetic and immutable resource files; aliasing through function arguments is tracked by annotation kinds and, for nested helpers, their call sites only.",
        "DESIGN.md §5 C12",
    ),
    "C13": (
        "call-graph reachability from the three entry points (typed receivers, name fan-out, function-valued fields, class/module aliases, factory tables, getattr reflection, address-taken references, rapid-type-analysis of implicitly invoked methods, property getters); raise-class inventory; exception-flow analysis (partial-operation table driven by an intra-procedural kind analysis of document values, handlers subtracting by the class hierarchy, summaries to a fixpoint, strict-mode branches pruned); recursion analysis (SCCs of the resolved call graph minus edges discharged by a dominating visited-set guard or a structural-descent witness); amplification scan of loop bounds and allocation sizes; return-dependence check of the casting.safe_* converters; dominance of the key-length validation over every use; seek / CBC / finalize / pop(n) in the partial-operation table",
        "Decides, over everything reachable from extract_text / extract_pages / extract_text_to_fp, which internal exception classes may escape (by origin construct), which call cycles and reference-following loops lack a guard, and which loop bounds/allocation sizes are bare document integers. Today's tree has 89 such origins, each a genuine defect recorded in known_findings.jsonl (clusters confirmed with failing inputs); any new origin - a removed try, a narrowed except, int_value(x) replaced by x, a removed isinstance, a removed visited set, a new walker over Kids/Next/Prev - is a violation. A numeric work bound is not decided, and completeness is relative to the partial-operation and document-value tables. Also decides that safe_* return only converted values and that the RC4 key length is validated before any key of that length is cut. Negative seeks, short AES initialisation vectors, finalize() on partial blocks and operand-stack slices by unchecked values are origins too. Round 6: a length test only narrows an index when the relation is the right one (index < len on the way in, index >= len on the way out); the token list of an object stream is typed as a document list. Round 7: choplist yields full groups only (C13-R7).",
        "Trusts the tables in sa/doctaint.py and sa/rules/c13_ops.py (which accessors yield document values, which operations are partial), parameter annotations Dict/Mapping/PDFStream as established types, and the call-graph resolution. The exception family is PSException subclasses plus AssertionError (the repository's fuzz contract).",
        "DESIGN.md §5 C13",
    ),
    "C14": (
        "finite abstraction of the scanner automaton analysed completely (path enumeration of loop-free scanners with symbolic index arithmetic; zero-advance subgraph acyclicity), exception-flow analysis over the resolved call graph with a verified safe-table, buffer-read classification, write-set checks",
        "The tokenizer's twelve scanner methods are abstracted to a finite automaton whose every transition is classified by the advance of the returned index; acyclicity of the zero-advance subgraph plus the driver-loop obligations give termination and non-decreasing positions for every byte string; the exception-flow analysis shows only PSEOF escapes; read classification shows tokens cannot depend on the buffer size. This is a complete analysis of the abstraction, not a sample of inputs. Round 7: no scanner state change inside a try whose handler swallows the exception (C14-R6).",
        "Assumes re.search/match terminate and agree with re._parser's width computation, the file object is finite, and the abstraction's reading of Python semantics (ast) is right. Scope is psparser.PSBaseParser (subclass overrides of fillbuf are outside C14).",
        "DESIGN.md §5 C14",
    ),
    "C17": (
        "table comparison of PDFDocEncoding against ISO 32000-1 Annex D.2 (256 entries), dispatch extraction of label styles with folded interned names, yield-order extraction of the outline traversal, order checks of number-tree flattening and name-tree lookup; table/case checks of the numeral formatters; effect check of get_page_labels",
        "Decides structural necessary conditions: the PDFDocEncoding table is Annex D.2 entry by entry with the BOM test first; label styles and defaults; outline order (entry, children one level deeper, then siblings); number-tree pairing/Kids order/sort; name-tree Limits guard before Names and Kids; destination fallbacks. The roman/alpha numeral functions, label range arithmetic and behaviour on arbitrary tree shapes are value level and not decided. Also decides the roman/alphabetic numeral tables and digit cases, and that every call of get_page_labels builds a fresh generator.",
        "Trusts the rule-coded transcription of Annex D.2 in rules/c17.py.",
        "DESIGN.md §5 C17",
    ),
    "C18": (
        "dispatch extraction of the export chain with emptiness-guard check, unit checks of BMP row sizes and header layout, order/strip-length extraction of the inline-image scanner; unique-name must-pass rule shared with C15; channel-order normal form of 24-bit BMP rows; predictor dispatch (shared with C03); regex-anchor and restart checks of the inline-data scanner; row-padding check of the BMP writer; PNG filter arithmetic (shared with C03); refill-sequence of the content parser; image-item bindings",
        "Decides structural necessary conditions: export format dispatch never indexes an empty filter list; row byte counts for 1-bit/gray/RGB, 4-byte aligned line size, header fields, bottom-up rows; unique export names (shared with C15-R3); inline images: BI/ID context, data start one byte after ID, terminator + white space, exactly len(terminator)+1 bytes stripped, EI re-pushed. Pixel equality of the exported files is value level and not decided. Also decides that exported files never reuse an existing name (path-sensitive) and that 24-bit rows are re-ordered to B,G,R. Also decides that /Predictor 10..15 all go through PNG row decoding, that exactly one end-of-line is stripped before the inline terminator, that a failed partial terminator match restarts on the current byte, and that BMP rows are written padded. Also decides the PNG filter arithmetic for predicted image data, the buffer position used by the inline-image reader, and the bindings of LTImage / render_image / the image branch of Do. Round 6: no exported payload uses get_rawdata/.rawdata (C18-R13). Round 7: predictor must-pass shared from C03 (C18-R7).",
        "Trusts the reading of the BMP format encoded in the rule.",
        "DESIGN.md §5 C18",
    ),
    "C19": (
        "reconstruction of the MODE/WHITE/BLACK code sets from the BitParser.add calls and entry-by-entry comparison with ITU-T T.4/T.6, plus transcription-independent identities (prefix-freeness, Kraft sums exactly 255/256, shared extended make-up codes); mode-dispatch, parameter-binding and bit-order sibling checks; guard analysis of reference-line look-behind subscripts and sibling/dual agreement of the changing-element searches; must-pass accumulation of run lengths in horizontal mode; row-reset normal form and paint-condition check; normal form of horizontal-mode painting",
        "Decides that the code tables are the standard's (any changed, dropped, duplicated or permuted code word is detected), that every mode class is dispatched, that Columns/EncodedByteAlign/BlackIs1 reach the decoder and only K=-1 is decoded, and that reader and writer share the MSB-first bit order. Of the reference-line logic it decides only structural necessary conditions (no look-behind at a negative index, the b1 searches of vertical and pass mode agree, the b2 search is the colour-dual, offset before clamp, pass keeps the colour); that decoded rows equal the encoded bitmap is value level and not decided. Also decides that every code word of a horizontal run is added to the run length (make-up codes accumulate) and that codes below 64 terminate the run. Also decides that each row starts from a fresh all-white buffer and that vertical mode paints runs of either colour. Also decides the painting of the two horizontal runs. Round 6: the run-length scanners reject exactly `n is None` (a terminating code 0 is valid, C19-R8).",
        "spec/ccitt_codes.json was generated from the repository at the pinned commit and validated by the Kraft/prefix identities and spot checks against T.4; the identities are an oracle independent of that file.",
        "DESIGN.md §5 C19",
    ),
    "C20": (
        "polynomial normal forms (term rewriting) + CFG must-pass / write-set checks on utils.Plane; early-return branches compared with the general formula by substitution; clamp normal form of _getrange; write-set of Plane._seq",
        "The six affine laws and the point-transform convention are decided as polynomial identities over the source of the helpers (exact for rational arithmetic, every input); apply_matrix_rect is decided with min/max uninterpreted. For Plane the check decides the structural part only: write sets of add/remove, shared cell range, dedup and live filter, the strict overlap predicate, rounding, reachability and undo-completeness. It does not decide the index's behaviour on arbitrary histories. Also decides special-case shortcuts of the matrix helpers against the general formula and the axis/side of each clamp in Plane._getrange. Also decides that the insertion-order list is only appended to.",
        "Trusts CPython's ast, the polynomial normaliser (sa/norm.py) and that float arithmetic approximates the exact laws; known findings C20-R6/R7 are listed in known_findings.jsonl.",
        "DESIGN.md §5 C20",
    ),
}
PENDING_REASON = "check not built yet in this round (rules designed in DESIGN.md §5); will be claimed once its static rules run clean"


def main():
    checks = []
    for pid in ALL:
        if pid not in CLAIMED:
            continue
        tech, text, note, ref = CLAIMED[pid]
        checks.append({
            "property_id": pid,
            "quick_cmd": f"./check {pid} --tier quick",
            "thorough_cmd": f"./check {pid} --tier thorough",
            "evidence_file": f"/verif/evidence/{pid}.json",
            "replay_cmd_template": f"./check {pid} --replay {{path}}",
            "engine": "sa",
            "level_claimed": {"category": "other", "text": text, "design_ref": ref},
            "level_note": note,
            "technique": "static analysis: " + tech,
        })
    na_path = os.path.join(HERE, "tools", "not_applicable.json")
    na_reasons = json.load(open(na_path)) if os.path.exists(na_path) else {}
    na = [{"property_id": p, "reason": na_reasons.get(p, PENDING_REASON)} for p in ALL if p not in CLAIMED]
    man = {
        "version": 1,
        "setup_cmd": "./setup.sh",
        "hooks": {
            "guard": "PDFMINER_SIX_VERIF",
            "enable": "no hooks: the checks parse /repo's source (ast) and never import or run it; the guard variable is read by nothing",
            "baseline_off_cmd": "cd /repo && /venv/bin/python -m pytest -ra -q -p no:cacheprovider --timeout=900 --continue-on-collection-errors",
            "source_commits": [],
            "add_only": True,
        },
        "engines": [{
            "name": "sa",
            "path": "/verif/sa",
            "serves_properties": [c["property_id"] for c in checks],
            "kind_free_text": "repository-specific static analysis in Python (ast, own CFG/dominators, call graph, exception-flow, taint, polynomial normal forms, table folding); nothing of pdfminer is imported or executed",
        }],
        "checks": checks,
        "not_applicable": na,
        "notes": "All checks are static: they parse /repo's current working tree on every run. Exit 0 = held, 1 = VIOLATION line, 2 = ANALYSIS-ERROR (vanished anchor / vacuous rule). Known findings: /verif/known_findings.jsonl. Thorough tier = quick rules + seeded-variant self-test of the rules on scratch copies (source-level, nothing executed).",
    }
    with open(os.path.join(HERE, "MANIFEST.json"), "w") as f:
        json.dump(man, f, indent=1)
    print("claimed:", [c["property_id"] for c in checks], "n/a:", len(na))


if __name__ == "__main__":
    main()

#!/usr/bin/env python3
"""Regenerates /verif/MANIFEST.json from the table below (keeps it schema-valid)."""
import json, os

HERE = os.path.dirname(os.path.dirname(os.path.abspath(__file__)))
ALL = [f"C{n:02d}" for n in range(1, 21)]

# property -> (technique, level text, level note, design ref)
CLAIMED = {
    "C20": (
        "polynomial normal forms (term rewriting) + CFG must-pass / write-set checks on utils.Plane",
        "The six affine laws and the point-transform convention are decided as polynomial identities over the source of the helpers (exact for rational arithmetic, every input); apply_matrix_rect is decided with min/max uninterpreted. For Plane the check decides the structural part only: write sets of add/remove, shared cell range, dedup and live filter, the strict overlap predicate, rounding, reachability and undo-completeness. It does not decide the index's behaviour on arbitrary histories.",
        "Trusts CPython's ast, the polynomial normaliser (sa/norm.py) and that float arithmetic approximates the exact laws; known findings C20-R6/R7 are listed in known_findings.jsonl.",
        "DESIGN.md §5 C20",
    ),
}
PENDING_REASON = "check not built yet in this round (rules designed in DESIGN.md §5); will be claimed once its static rules run clean"


def main():
    checks = []
    for pid in ALL:
        if pid not in CLAIMED:
            continue
        tech, text, note, ref = CLAIMED[pid]
        checks.append({
            "property_id": pid,
            "quick_cmd": f"./check {pid} --tier quick",
            "thorough_cmd": f"./check {pid} --tier thorough",
            "evidence_file": f"/verif/evidence/{pid}.json",
            "replay_cmd_template": f"./check {pid} --replay {{path}}",
            "engine": "sa",
            "level_claimed": {"category": "other", "text": text, "design_ref": ref},
            "level_note": note,
            "technique": "static analysis: " + tech,
        })
    na_path = os.path.join(HERE, "tools", "not_applicable.json")
    na_reasons = json.load(open(na_path)) if os.path.exists(na_path) else {}
    na = [{"property_id": p, "reason": na_reasons.get(p, PENDING_REASON)} for p in ALL if p not in CLAIMED]
    man = {
        "version": 1,
        "setup_cmd": "./setup.sh",
        "hooks": {
            "guard": "PDFMINER_SIX_VERIF",
            "enable": "no hooks: the checks parse /repo's source (ast) and never import or run it; the guard variable is read by nothing",
            "baseline_off_cmd": "cd /repo && /venv/bin/python -m pytest -ra -q -p no:cacheprovider --timeout=900 --continue-on-collection-errors",
            "source_commits": [],
            "add_only": True,
        },
        "engines": [{
            "name": "sa",
            "path": "/verif/sa",
            "serves_properties": [c["property_id"] for c in checks],
            "kind_free_text": "repository-specific static analysis in Python (ast, own CFG/dominators, call graph, exception-flow, taint, polynomial normal forms, table folding); nothing of pdfminer is imported or executed",
        }],
        "checks": checks,
        "not_applicable": na,
        "notes": "All checks are static: they parse /repo's current working tree on every run. Exit 0 = held, 1 = VIOLATION line, 2 = ANALYSIS-ERROR (vanished anchor / vacuous rule). Known findings: /verif/known_findings.jsonl. Thorough tier = quick rules + seeded-variant self-test of the rules on scratch copies (source-level, nothing executed).",
    }
    with open(os.path.join(HERE, "MANIFEST.json"), "w") as f:
        json.dump(man, f, indent=1)
    print("claimed:", [c["property_id"] for c in checks], "n/a:", len(na))


if __name__ == "__main__":
    main()

import sys, hashlib, glob
from pdfminer.high_level import extract_text
def h(p): return hashlib.sha256(extract_text(p).encode()).hexdigest()[:12]
target='samples/nonfree/kampo.pdf'
alone=h(target)
res={alone}
for other in ['samples/simple1.pdf','samples/simple3.pdf','samples/nonfree/dmca.pdf','samples/nonfree/i1040nr.pdf','samples/contrib/2b.pdf']:
    try:
        extract_text(other)
    except Exception as e:
        pass
    res.add(h(target))
# keep garbage around to perturb the allocator
junk=[object() for _ in range(100003)]
res.add(h(target))
del junk
res.add(h(target))
print("PASS" if len(res)==1 else "FAIL: %d different results for the same document in one process: %s" % (len(res), sorted(res)))
sys.exit(0 if len(res)==1 else 1)

#!/usr/bin/env python3
"""Confirm a candidate breaking change and run the checks against it (in a scratch worktree, never in /repo).

usage: eval_seeded.py <prop> <patch> <demo.py> [--name NAME] [--needs TEXT] [--keep]
Steps: clean worktree -> demo must PASS; apply patch -> demo must FAIL, full suite must pass; run all 20 quick checks with
VERIF_REPO=<worktree> (evidence redirected); report which rules fire; on --keep store under /verif/seeded/<NAME>/.
"""
import argparse, json, os, re, shutil, subprocess, sys, tempfile

VERIF = os.path.dirname(os.path.dirname(os.path.abspath(__file__)))
WT = os.environ.get("EVAL_WT", "/tmp/seedwt/confirm")
PY = "/venv/bin/python"


def sh(cmd, cwd=None, env=None, timeout=900):
    e = dict(os.environ)
    e.update(env or {})
    p = subprocess.run(cmd, shell=True, cwd=cwd, env=e, capture_output=True, text=True, timeout=timeout)
    return p.returncode, p.stdout + p.stderr


def main():
    ap = argparse.ArgumentParser()
    ap.add_argument("prop"); ap.add_argument("patch"); ap.add_argument("demo")
    ap.add_argument("--name", default=None); ap.add_argument("--needs", default=""); ap.add_argument("--keep", action="store_true")
    ap.add_argument("--only", default=None, help="run only this property's check")
    a = ap.parse_args()
    if not os.path.isdir(WT):
        rc, out = sh(f"git -C /repo worktree add -q --detach {WT} HEAD")
        assert rc == 0, out
    sh("git checkout -q -- . && git clean -fdq", cwd=WT)
    _, head = sh("git -C /repo rev-parse HEAD")
    sh(f"git checkout -q --detach {head.strip()}", cwd=WT)
    res = {"property": a.prop, "patch": os.path.basename(a.patch)}
    rc0, out0 = sh(f"PYTHONPATH={WT} {PY} {a.demo}", cwd=WT)
    res["demo_clean"] = (rc0, out0.strip().splitlines()[-1:] )
    rc, out = sh(f"git apply {a.patch}", cwd=WT)
    if rc != 0:
        print("PATCH DOES NOT APPLY:", out); sh("git checkout -q -- .", cwd=WT); sys.exit(3)
    try:
        rc1, out1 = sh(f"PYTHONPATH={WT} {PY} {a.demo}", cwd=WT)
        res["demo_patched"] = (rc1, [l for l in out1.strip().splitlines() if "auto_activate" not in l][-1:])
        rct, outt = sh(f"PYTHONPATH={WT} {PY} -m pytest -q -p no:cacheprovider 2>&1 | tail -3", cwd=WT)
        m = re.search(r"(\d+) passed", outt)
        res["suite"] = outt.strip().splitlines()[-1] if outt.strip() else ""
        res["suite_ok"] = bool(m) and "failed" not in outt and int(m.group(1)) >= 216
        evd = tempfile.mkdtemp(prefix="evtmp_")
        fired = {}
        props = [a.only] if a.only else [f"C{n:02d}" for n in range(1, 21)]
        for p in props:
            rcc, outc = sh(f"./check {p} --tier quick", cwd=VERIF, env={"VERIF_REPO": WT, "VERIF_EVIDENCE_DIR": evd})
            if rcc != 0:
                rules = sorted(set(re.findall(r"VIOLATION-DETAIL (C\d+-R\d+)", outc)))
                det = [l.strip()[:260] for l in outc.splitlines() if "VIOLATION-DETAIL" in l][:4]
                err = [l for l in outc.splitlines() if "ANALYSIS-ERROR" in l][:1]
                fired[p] = {"rc": rcc, "rules": rules, "detail": det, "err": err}
        shutil.rmtree(evd, ignore_errors=True)
        res["fired"] = fired
    finally:
        sh("git checkout -q -- . && git clean -fdq", cwd=WT)
    confirmed = res["demo_clean"][0] == 0 and res.get("demo_patched", (0,))[0] != 0 and res.get("suite_ok")
    res["confirmed"] = bool(confirmed)
    own = res["fired"].get(a.prop, {})
    res["caught_by_own_property"] = own.get("rc") == 1
    res["caught_by"] = sorted(p for p, v in res["fired"].items() if v["rc"] == 1)
    print(json.dumps(res, indent=1))
    if a.keep and confirmed:
        name = a.name or f"{a.prop}-{os.path.splitext(os.path.basename(a.patch))[0]}"
        d = os.path.join(VERIF, "seeded", name)
        os.makedirs(d, exist_ok=True)
        shutil.copy(a.patch, os.path.join(d, "patch.diff"))
        shutil.copy(a.demo, os.path.join(d, "demo.py"))
        meta = {"breaks_property": a.prop, "needs_to_manifest": a.needs, "source": "blind sub-agent (given only the property text and a scratch worktree)",
                "confirmed": {"demo_on_clean_tree": res["demo_clean"], "demo_with_patch": res["demo_patched"], "suite_with_patch": res["suite"]},
                "what_i_ran": [f"PYTHONPATH=<wt> {PY} demo.py (clean -> PASS, patched -> FAIL)", f"PYTHONPATH=<wt> {PY} -m pytest -q (patched -> all pass)", "VERIF_REPO=<wt> ./check <each property> --tier quick"],
                "checks_that_fire": {p: v["rules"] for p, v in res["fired"].items() if v["rc"] == 1}}
        json.dump(meta, open(os.path.join(d, "meta.json"), "w"), indent=1)
        print("kept as", d)


if __name__ == "__main__":
    main()

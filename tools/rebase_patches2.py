#!/usr/bin/env python3
"""Second stage of re-basing: for patches that conflict in the three-way merge, apply the repairs (git diff OLD HEAD) on top of
the patched OLD tree hunk by hunk (patch --fuzz=3).  Where every repair hunk applies, the result is the re-based change; a
repair hunk that is rejected means the stored change rewrote the very lines the repair touches - those are listed.
usage: rebase_patches2.py <old-commit> [--write] <patch>..."""
import difflib, os, subprocess, sys, tempfile, shutil

REPO = "/repo"
old = sys.argv[1]
write = "--write" in sys.argv
patches = [a for a in sys.argv[2:] if a != "--write"]


def sh(cmd, cwd=None):
    p = subprocess.run(cmd, shell=True, cwd=cwd, stdout=subprocess.PIPE, stderr=subprocess.STDOUT, text=True)
    return p.returncode, p.stdout


tmp = tempfile.mkdtemp(prefix="rebase2_", dir="/tmp")
wt_old, wt_new = os.path.join(tmp, "old"), os.path.join(tmp, "new")
sh(f"git -C {REPO} worktree add --detach {wt_old} {old}")
sh(f"git -C {REPO} worktree add --detach {wt_new} HEAD")
fix = os.path.join(tmp, "fix.diff")
open(fix, "w").write(subprocess.run(f"git -C {REPO} diff {old} HEAD -- pdfminer", shell=True, stdout=subprocess.PIPE, text=True).stdout)
try:
    for pf in patches:
        sh("git checkout -q -- . && git clean -fdq", cwd=wt_old)
        rc, out = sh(f"patch -p1 -s -f < {os.path.abspath(pf)}", cwd=wt_old)
        if rc != 0:
            print("BROKEN", pf)
            continue
        rc, out = sh(f"patch -p1 -f --fuzz=3 --no-backup-if-mismatch < {fix}", cwd=wt_old)
        rej = [l for l in out.splitlines() if "FAILED" in l or "rejects" in l]
        if rc != 0:
            print("REJECT", pf, "|", "; ".join(rej)[:200])
            continue
        # diff HEAD -> result
        rc, st = sh("git status --porcelain", cwd=wt_old)
        parts = []
        for l in st.splitlines():
            rel = l[3:]
            if rel.endswith((".orig", ".rej")) or not rel.endswith(".py"):
                continue
            a = open(os.path.join(wt_new, rel)).read() if os.path.exists(os.path.join(wt_new, rel)) else ""
            b = open(os.path.join(wt_old, rel)).read()
            d = list(difflib.unified_diff(a.splitlines(True), b.splitlines(True), f"a/{rel}", f"b/{rel}", n=3))
            if d:
                parts.append(f"diff --git a/{rel} b/{rel}\n" + "".join(d))
        newp = "".join(parts)
        tp = os.path.join(tmp, "n.diff")
        open(tp, "w").write(newp)
        sh("git checkout -q -- . && git clean -fdq", cwd=wt_new)
        rc, out = sh(f"patch -p1 -s -f --dry-run < {tp}", cwd=wt_new)
        if rc != 0 or not newp:
            print("VERIFY-FAILED", pf)
            continue
        print("REBASED", pf)
        if write:
            shutil.copy(tp, pf)
finally:
    sh(f"git -C {REPO} worktree remove --force {wt_old}")
    sh(f"git -C {REPO} worktree remove --force {wt_new}")
    shutil.rmtree(tmp, ignore_errors=True)

#!/usr/bin/env python3
"""(Re)writes benign/<name>/meta.json from a measurement: every stored behaviour-preserving patch is applied in memory
and all 20 properties' rules are run on it, once without the equivalence layer and once with it.
usage: record_benign.py [name-prefix]"""
import importlib, json, os, sys
ROOT = os.path.dirname(os.path.dirname(os.path.abspath(__file__)))
sys.path.insert(0, ROOT)
from sa.model import AnchorMissing, Model
from sa.report import AnalysisError, Report
from sa.selftest.seeded import apply_hunks, parse_patch

PROPS = [f"C{n:02d}" for n in range(1, 21)]


def fired(m):
    out = {}
    for p in PROPS:
        rep = Report(p, "quick", quiet=True)
        rep.tree_changed = True
        try:
            importlib.import_module(f"sa.rules.{p.lower()}").run(m, rep)
            rep.finish()
            v = sorted({i.rule for i in rep.violations})
        except (AnchorMissing, AnalysisError) as e:
            v = [f"ANALYSIS-ERROR {e}"[:120]]
        except Exception as e:
            v = [f"CRASH {type(e).__name__}: {e}"[:120]]
        if v:
            out[p] = v
    return out


def one(name):
    d = os.path.join(ROOT, "benign", name)
    files = parse_patch(open(os.path.join(d, "patch.diff"), encoding="utf-8", errors="replace").read())
    ov = {}
    for rel, hunks in files.items():
        res = apply_hunks(BASE_RAW.read_text(rel), hunks)
        if res is None:
            mp = os.path.join(d, "meta.json")
            if os.path.exists(mp):
                mm = json.load(open(mp))
                if mm.get("status") != "stale":
                    mm["status_before"] = mm.get("status")
                    mm["status"] = "stale"
                    mm["stale_reason"] = f"no longer applies to {rel}"
                    json.dump(mm, open(mp, "w"), indent=1, sort_keys=True)
            return name, "stale"
        ov[rel] = res
    raw = fired(Model(root=BASE_RAW.root, overrides=ov, reuse=BASE_RAW, heal=False))
    m = Model(root=BASE.root, overrides=ov, reuse=BASE)
    healed = fired(m)
    origin = name.split("-")[0]
    meta = {
        "origin": f"blind sub-agent asked for behaviour-preserving maintenance of the code behind {origin}; equivalence digests and the 216-test suite confirmed by the author of the change",
        "files": sorted(ov),
        "alarms_without_equivalence_layer": raw,
        "alarms": healed,
        "status": "silent" if not healed else "residual-false-alarm",
        "replay_under": sorted(set([origin]) | set(raw)),
        "functions_proven_equivalent": [l for l in m.heal_log if "proven equivalent" in l],
    }
    json.dump(meta, open(os.path.join(d, "meta.json"), "w"), indent=1, sort_keys=True)
    return name, meta["status"]


if __name__ == "__main__":
    import multiprocessing as mp
    BASE_RAW = Model(heal=False)
    BASE = Model()
    pre = sys.argv[1] if len(sys.argv) > 1 else ""
    names = sorted(n for n in os.listdir(os.path.join(ROOT, "benign")) if os.path.isfile(os.path.join(ROOT, "benign", n, "patch.diff")) and n.startswith(pre))
    with mp.get_context("fork").Pool(16) as pool:
        res = pool.map(one, names, chunksize=1)
    for n, s in res:
        print(n, s)
    print(sum(1 for _, s in res if s == "silent"), "silent of", len(res))

#!/usr/bin/env python3
"""Records, for every top-level function/method of /repo/pdfminer, its local names ordered by first binding
(spec/reference_locals.json).  Re-run only when a rule's patterns are re-confirmed against a new tree."""
import ast, json, os, sys
sys.path.insert(0, os.path.dirname(os.path.dirname(os.path.abspath(__file__))))
from sa.model import Model
from sa.reflocals import ordered_locals, single_compares, compare_text, two_armed_ifs

m = Model(canonical_locals=False)
out = {}
for q, f in sorted(m.funcs.items()):
    if f.parent is not None or isinstance(f.node, ast.Lambda):
        continue
    names = ordered_locals(f.node)
    if names:
        out[q] = names
p = os.path.join(os.path.dirname(os.path.dirname(os.path.abspath(__file__))), "spec", "reference_locals.json")
json.dump(out, open(p, "w"), indent=0, sort_keys=True)
print(len(out), "functions with locals recorded")
outc = {}
for q, f in sorted(m.funcs.items()):
    if f.parent is not None or isinstance(f.node, ast.Lambda):
        continue
    cs = [compare_text(n) for n in single_compares(f.node)]
    if cs:
        outc[q] = cs
pc = os.path.join(os.path.dirname(os.path.dirname(os.path.abspath(__file__))), "spec", "reference_compares.json")
json.dump(outc, open(pc, "w"), indent=0, sort_keys=True)
print(len(outc), "functions with comparisons recorded")
outi = {}
for q, f in sorted(m.funcs.items()):
    if f.parent is not None or isinstance(f.node, ast.Lambda):
        continue
    ts = [ast.unparse(n.test) for n in two_armed_ifs(f.node)]
    if ts:
        outi[q] = ts
pi = os.path.join(os.path.dirname(os.path.dirname(os.path.abspath(__file__))), "spec", "reference_ifs.json")
json.dump(outi, open(pi, "w"), indent=0, sort_keys=True)
print(len(outi), "functions with two-armed ifs recorded")

# reviewed sources of every module with code (the two pure data tables are left out): sa/equiv.py compares a changed
# function with its reviewed form modulo refactoring
import shutil
rd = os.path.join(os.path.dirname(os.path.dirname(os.path.abspath(__file__))), "spec", "reference_src")
shutil.rmtree(rd, ignore_errors=True)
k = 0
for mod in m.modules.values():
    if os.path.basename(mod.relpath) in ("glyphlist.py", "fontmetrics.py"):
        continue
    dst = os.path.join(rd, mod.relpath)
    os.makedirs(os.path.dirname(dst), exist_ok=True)
    open(dst, "w", encoding="utf-8").write(mod.src)
    k += 1
print(k, "reviewed module sources stored")

#!/usr/bin/env python3
"""False-alarm measurement: apply a behaviour-preserving patch in memory and run every property's rules on it.
usage: eval_benign.py <patch> [<patch> ...]   (prints, per patch, the rules that fire; exit 1 if any fires)"""
import importlib, os, sys
sys.path.insert(0, os.path.dirname(os.path.dirname(os.path.abspath(__file__))))
from sa.model import AnchorMissing, Model
from sa.report import AnalysisError, Report
from sa.selftest.seeded import apply_hunks, parse_patch

base = Model()
bad = 0
for pf in sys.argv[1:]:
    files = parse_patch(open(pf, encoding="utf-8", errors="replace").read())
    ov = {}
    ok = True
    for rel, hunks in files.items():
        res = apply_hunks(base.read_text(rel), hunks)
        if res is None:
            ok = False
            break
        ov[rel] = res
    if not ok:
        print(f"{pf}: PATCH-DOES-NOT-APPLY")
        continue
    m = Model(root=base.root, overrides=ov, reuse=base)
    fired = {}
    for n in range(1, 21):
        p = f"C{n:02d}"
        rep = Report(p, "quick", quiet=True)
        rep.tree_changed = True
        try:
            importlib.import_module(f"sa.rules.{p.lower()}").run(m, rep)
            rep.finish()
            v = [f"{i.rule} {i.site.split(':')[-1]} :: {i.construct[:70]}" for i in rep.violations]
        except (AnchorMissing, AnalysisError) as e:
            v = [f"ANALYSIS-ERROR {e}"[:160]]
        except Exception as e:
            v = [f"CRASH {type(e).__name__}: {e}"[:160]]
        if v:
            fired[p] = v
    print(f"{pf}: {'silent' if not fired else 'FALSE-ALARM'} files={sorted(ov)}")
    for p, v in fired.items():
        bad += 1
        for x in v[:4]:
            print(f"    {p}: {x}")
sys.exit(1 if bad else 0)

#!/usr/bin/env python3
"""Stored patches are replayed in memory with exact context matching (sa/selftest/seeded.py: apply_hunks).  After a repair in
/repo a patch may still apply with `patch` (offset / fuzz) but not exactly: rewrite such patches as exact diffs against HEAD."""
import glob, os, shutil, subprocess, sys, tempfile
VERIF = os.path.dirname(os.path.dirname(os.path.abspath(__file__)))
sys.path.insert(0, VERIF)
from sa.selftest.seeded import apply_hunks, parse_patch

def sh(cmd, cwd=None):
    p = subprocess.run(cmd, shell=True, cwd=cwd, stdout=subprocess.PIPE, stderr=subprocess.STDOUT, text=True)
    return p.returncode, p.stdout

n = 0
for pf in sorted(glob.glob(os.path.join(VERIF, "seeded", "*", "patch.diff")) + glob.glob(os.path.join(VERIF, "benign", "*", "patch.diff"))):
    files = parse_patch(open(pf, encoding="utf-8", errors="replace").read())
    exact = True
    for rel, hunks in files.items():
        p = os.path.join("/repo", rel)
        if not os.path.exists(p) or apply_hunks(open(p).read(), hunks) is None:
            exact = False
    if exact:
        continue
    tmp = tempfile.mkdtemp(prefix="exact_", dir="/tmp")
    try:
        shutil.copytree("/repo/pdfminer", os.path.join(tmp, "pdfminer"))
        rc, out = sh(f"patch -p1 -s -f < {pf}", cwd=tmp)
        if rc != 0:
            print("does not apply:", os.path.relpath(pf, VERIF))
            continue
        sh("find . -name '*.orig' -delete -o -name '*.rej' -delete", cwd=tmp)
        parts = []
        rc, lst = sh("git -C /repo ls-files pdfminer")
        for f in [x for x in lst.split() if x.endswith(".py")]:
            a, b = os.path.join("/repo", f), os.path.join(tmp, f)
            if os.path.exists(b) and open(a).read() != open(b).read():
                rc, d = sh(f"diff -u --label a/{f} --label b/{f} {a} {b}")
                parts.append(f"diff --git a/{f} b/{f}\n" + d)
        open(pf, "w").write("".join(parts))
        n += 1
        print("rewritten:", os.path.relpath(pf, VERIF))
    finally:
        shutil.rmtree(tmp, ignore_errors=True)
print(n, "patches rewritten")

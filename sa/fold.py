"""E2 - constant folder / table extractor.  Evaluates *literals* of the source
(never repository functions): constants, displays, simple arithmetic, interned
names ``LIT("x")``/``KWD(b"x")`` as symbolic atoms, ``re.compile`` as a symbolic
regex, ``chr``, ``"".join(<genexp over a literal>)``.
"""

from __future__ import annotations

import ast
import re
from typing import Any, Dict, FrozenSet, Optional, Set, Tuple

from .model import ClassInfo, Model, ModuleInfo, dotted


class Unfoldable(Exception):
    pass


class Lit(tuple):
    """Symbolic interned literal: Lit(('LIT', 'Name'))."""

    def __new__(cls, kind: str, name: Any) -> "Lit":
        return super().__new__(cls, (kind, name))

    @property
    def kind(self) -> str:
        return self[0]

    @property
    def name(self) -> Any:
        return self[1]

    def __repr__(self) -> str:
        return f"{self[0]}({self[1]!r})"


class Regex(tuple):
    def __new__(cls, pattern: Any, flags: int = 0) -> "Regex":
        return super().__new__(cls, (pattern, flags))

    @property
    def pattern(self) -> Any:
        return self[0]

    @property
    def flags(self) -> int:
        return self[1]

    def byteset(self) -> FrozenSet[int]:
        """Bytes b such that the pattern matches the single byte b (whole)."""
        pat = self.pattern
        if isinstance(pat, str):
            rx = re.compile(pat, self.flags)
            return frozenset(b for b in range(256) if rx.fullmatch(chr(b)))
        rx = re.compile(pat, self.flags)
        return frozenset(b for b in range(256) if rx.fullmatch(bytes((b,))))

    def max_width(self) -> int:
        import re._parser as sp  # type: ignore[import]

        p = sp.parse(self.pattern, self.flags)
        return int(p.getwidth()[1])

    def min_width(self) -> int:
        import re._parser as sp  # type: ignore[import]

        p = sp.parse(self.pattern, self.flags)
        return int(p.getwidth()[0])


_BINOPS = {
    ast.Add: lambda a, b: a + b,
    ast.Sub: lambda a, b: a - b,
    ast.Mult: lambda a, b: a * b,
    ast.FloorDiv: lambda a, b: a // b,
    ast.Mod: lambda a, b: a % b,
    ast.LShift: lambda a, b: a << b,
    ast.RShift: lambda a, b: a >> b,
    ast.BitOr: lambda a, b: a | b,
    ast.BitAnd: lambda a, b: a & b,
    ast.Pow: lambda a, b: a**b,
}


class Folder:
    def __init__(self, model: Model) -> None:
        self.m = model

    def fold(self, mod: ModuleInfo, e: ast.AST, cls: Optional[ClassInfo] = None, env: Optional[Dict[str, Any]] = None, depth: int = 0) -> Any:
        if depth > 20:
            raise Unfoldable("too deep")
        f = lambda x: self.fold(mod, x, cls, env, depth + 1)  # noqa: E731
        if isinstance(e, ast.Constant):
            return e.value
        if isinstance(e, ast.Tuple):
            return tuple(f(x) for x in e.elts)
        if isinstance(e, ast.List):
            return [f(x) for x in e.elts]
        if isinstance(e, ast.Set):
            return frozenset(f(x) for x in e.elts)
        if isinstance(e, ast.Dict):
            out = {}
            for k, v in zip(e.keys, e.values):
                if k is None:
                    out.update(f(v))
                else:
                    out[f(k)] = f(v)
            return out
        if isinstance(e, ast.UnaryOp):
            v = f(e.operand)
            if isinstance(e.op, ast.USub):
                return -v
            if isinstance(e.op, ast.UAdd):
                return +v
            if isinstance(e.op, ast.Not):
                return not v
            raise Unfoldable(ast.dump(e.op))
        if isinstance(e, ast.BinOp):
            op = _BINOPS.get(type(e.op))
            if op is None:
                raise Unfoldable(ast.dump(e.op))
            a, b = f(e.left), f(e.right)
            if isinstance(a, (Lit, Regex)) or isinstance(b, (Lit, Regex)):
                raise Unfoldable("symbolic operand")
            return op(a, b)
        if isinstance(e, ast.Name):
            if env and e.id in env:
                return env[e.id]
            if cls is not None:
                ca = self.m.lookup_class_attr(cls.qualname, e.id)
                if ca is not None and cls.qualname == ca[0].qualname:
                    return self.fold(ca[0].module, ca[1], ca[0], None, depth + 1)
            return self._fold_global(mod, e.id, depth)
        if isinstance(e, ast.Attribute):
            # self.X / cls.X / Class.X / module.X
            if isinstance(e.value, ast.Name) and e.value.id in ("self", "cls") and cls is not None:
                ca = self.m.lookup_class_attr(cls.qualname, e.attr)
                if ca is not None:
                    return self.fold(ca[0].module, ca[1], ca[0], None, depth + 1)
                raise Unfoldable(f"no class attr {e.attr}")
            base = self.m.resolve_expr(mod, e.value, cls)
            if base in self.m.classes:
                ca = self.m.lookup_class_attr(base, e.attr)
                if ca is not None:
                    return self.fold(ca[0].module, ca[1], ca[0], None, depth + 1)
            if base in self.m.modules:
                return self._fold_global(self.m.modules[base], e.attr, depth)
            raise Unfoldable(ast.unparse(e))
        if isinstance(e, ast.Call):
            return self._fold_call(mod, e, cls, env, depth)
        if isinstance(e, ast.Subscript):
            v = f(e.value)
            i = f(e.slice) if not isinstance(e.slice, ast.Slice) else slice(
                f(e.slice.lower) if e.slice.lower else None,
                f(e.slice.upper) if e.slice.upper else None,
                f(e.slice.step) if e.slice.step else None,
            )
            try:
                return v[i]
            except Exception as ex:
                raise Unfoldable(str(ex))
        if isinstance(e, ast.JoinedStr):
            raise Unfoldable("f-string")
        raise Unfoldable(type(e).__name__)

    def _fold_global(self, mod: ModuleInfo, name: str, depth: int) -> Any:
        if name in mod.assigns:
            return self.fold(mod, mod.assigns[name], None, None, depth + 1)
        if name in mod.imports:
            tgt = mod.imports[name]
            tm, _, attr = tgt.rpartition(".")
            if tm in self.m.modules:
                return self._fold_global(self.m.modules[tm], attr, depth + 1)
        raise Unfoldable(f"name {name}")

    def _fold_call(self, mod: ModuleInfo, e: ast.Call, cls: Optional[ClassInfo], env: Optional[Dict[str, Any]], depth: int) -> Any:
        f = lambda x: self.fold(mod, x, cls, env, depth + 1)  # noqa: E731
        fn = e.func
        target = self.m.resolve_expr(mod, fn, cls) or dotted(fn) or ""
        # interned names
        if target.endswith("PSLiteralTable.intern") or target.endswith("psparser.LIT") or target.endswith("PSSymbolTable.intern") and "Literal" in (dotted(fn) or ""):
            return Lit("LIT", f(e.args[0]))
        if target.endswith("PSKeywordTable.intern") or target.endswith("psparser.KWD"):
            return Lit("KWD", f(e.args[0]))
        d = dotted(fn) or ""
        if d in ("LIT",):
            return Lit("LIT", f(e.args[0]))
        if d in ("KWD",):
            return Lit("KWD", f(e.args[0]))
        if target == "re.compile" or d == "re.compile":
            flags = 0
            if len(e.args) > 1:
                flags = self._fold_flags(e.args[1])
            for kw in e.keywords:
                if kw.arg == "flags":
                    flags = self._fold_flags(kw.value)
            return Regex(f(e.args[0]), flags)
        if d == "chr" and len(e.args) == 1:
            return chr(f(e.args[0]))
        if d == "ord" and len(e.args) == 1:
            return ord(f(e.args[0]))
        if d == "len" and len(e.args) == 1:
            return len(f(e.args[0]))
        if d in ("tuple", "list", "set", "frozenset", "dict", "bytes", "sorted") and len(e.args) <= 1:
            ctor = {"tuple": tuple, "list": list, "set": frozenset, "frozenset": frozenset, "dict": dict, "bytes": bytes, "sorted": sorted}[d]
            if not e.args:
                return ctor()
            return ctor(self._fold_iterable(mod, e.args[0], cls, env, depth))
        if d == "range":
            return range(*[f(a) for a in e.args])
        if d.endswith("OrderedDict") and not e.args:
            return {}
        if isinstance(fn, ast.Attribute) and fn.attr == "join" and len(e.args) == 1:
            sep = f(fn.value)
            return sep.join(self._fold_iterable(mod, e.args[0], cls, env, depth))
        if isinstance(fn, ast.Attribute) and fn.attr == "copy" and not e.args:
            v = f(fn.value)
            return v.copy() if hasattr(v, "copy") else v
        raise Unfoldable(f"call {d}")

    def _fold_flags(self, e: ast.AST) -> int:
        if isinstance(e, ast.BinOp) and isinstance(e.op, ast.BitOr):
            return self._fold_flags(e.left) | self._fold_flags(e.right)
        d = dotted(e) or ""
        if d.startswith("re."):
            return int(getattr(re, d[3:]))
        if isinstance(e, ast.Constant):
            return int(e.value)
        raise Unfoldable("regex flags")

    def _fold_iterable(self, mod: ModuleInfo, e: ast.AST, cls: Optional[ClassInfo], env: Optional[Dict[str, Any]], depth: int) -> Any:
        if isinstance(e, (ast.GeneratorExp, ast.ListComp)):
            if len(e.generators) != 1 or e.generators[0].ifs:
                raise Unfoldable("comprehension shape")
            g = e.generators[0]
            it = self.fold(mod, g.iter, cls, env, depth + 1)
            out = []
            for v in it:
                env2 = dict(env or {})
                self._bind(g.target, v, env2)
                out.append(self.fold(mod, e.elt, cls, env2, depth + 1))
            return out
        return self.fold(mod, e, cls, env, depth + 1)

    def _bind(self, tgt: ast.AST, v: Any, env: Dict[str, Any]) -> None:
        if isinstance(tgt, ast.Name):
            env[tgt.id] = v
        elif isinstance(tgt, (ast.Tuple, ast.List)):
            vs = list(v)
            if len(vs) != len(tgt.elts):
                raise Unfoldable("unpack")
            for t, x in zip(tgt.elts, vs):
                self._bind(t, x, env)
        else:
            raise Unfoldable("bind target")


def byteset_str(s: Set[int]) -> str:
    """Compact printable form of a set of byte values."""
    out = []
    xs = sorted(s)
    i = 0
    while i < len(xs):
        j = i
        while j + 1 < len(xs) and xs[j + 1] == xs[j] + 1:
            j += 1
        out.append(f"{xs[i]:02x}" if i == j else f"{xs[i]:02x}-{xs[j]:02x}")
        i = j + 1
    return " ".join(out)

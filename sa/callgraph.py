"""E5 - call-site resolution and call graph (see DESIGN Appendix D.1)."""

from __future__ import annotations

import ast
from typing import Dict, Iterable, List, Optional, Set, Tuple

from .model import ClassInfo, FuncInfo, Model, dotted, walk_no_nested

# method names of builtin containers / str / bytes / files: an untyped receiver
# with one of these names is an *unresolved* (external) call, not a fan-out.
CONTAINER_METHODS = {
    "append", "extend", "insert", "pop", "remove", "clear", "copy", "sort", "reverse", "index", "count",
    "get", "items", "keys", "values", "update", "setdefault", "popitem", "add", "discard", "difference",
    "union", "intersection", "join", "split", "strip", "rstrip", "lstrip", "replace", "startswith", "endswith",
    "encode", "decode", "lower", "upper", "isdigit", "isalpha", "isspace", "find", "rfind", "format",
    "read", "write", "seek", "tell", "close", "flush", "readline", "group", "groups", "start", "end",
    "match", "search", "sub", "finditer", "digest", "hexdigest", "tobytes", "ljust", "rjust", "zfill",
    "getvalue", "from_bytes", "to_bytes", "is_integer", "translate", "title", "partition", "rpartition",
    "fullmatch", "splitlines", "decompress", "update_", "decryptor", "encryptor", "finalize", "unpadder",
    "debug", "info", "warning", "error", "exception", "setLevel", "warn",
}


class Resolver:
    def __init__(self, model: Model, fanout: bool = True) -> None:
        self.m = model
        self.fanout = fanout
        self._attr_types_cache: Dict[str, Dict[str, Set[str]]] = {}
        self._env_cache: Dict[str, Dict[str, Set[str]]] = {}
        self.unresolved: List[Tuple[str, str]] = []
        # explicit reflection table: (function qualname, textual callee) -> resolver
        self.reflection = {
            # getattr(self, "do_%s") dispatch
            ("pdfminer.pdfinterp.PDFPageInterpreter.execute", "func"): lambda: self._methods_with_prefix("pdfminer.pdfinterp.PDFPageInterpreter", "do_"),
        }
        self.attr_reflection = {
            # self._parse1(...)  -> every _parse_* scanner
            "_parse1": lambda cls: self._methods_with_prefix(cls, "_parse_"),
            # PDFStream.decipher / PDFDocument.decipher -> handler.decrypt of every handler
            "decipher": lambda cls: self._decrypts(),
        }

    # ----------------------------------------------------------- helper sets
    def _methods_with_prefix(self, cls_qn: str, prefix: str) -> List[FuncInfo]:
        out: List[FuncInfo] = []
        seen = set()
        classes = [cls_qn] + (self.m.subclasses(cls_qn, strict=True) if self.fanout else [])
        for c in classes:
            for k in self.m.mro(c):
                ci = self.m.classes.get(k)
                if not ci:
                    continue
                for name, f in ci.methods.items():
                    if name.startswith(prefix) and f.qualname not in seen:
                        seen.add(f.qualname)
                        out.append(f)
        return out

    def _decrypts(self) -> List[FuncInfo]:
        out = []
        base = "pdfminer.pdfdocument.PDFStandardSecurityHandler"
        if base in self.m.classes:
            out = self.m.overrides(base, "decrypt")
        return out

    # ------------------------------------------------------------ type env
    def ann_types(self, mod, ann: Optional[ast.expr], cls: Optional[ClassInfo] = None) -> Set[str]:
        """Package classes named by an annotation (Optional/Union flattened)."""
        out: Set[str] = set()
        if ann is None:
            return out
        if isinstance(ann, ast.Constant) and isinstance(ann.value, str):
            try:
                ann = ast.parse(ann.value, mode="eval").body
            except SyntaxError:
                return out
        if isinstance(ann, ast.Subscript):
            head = dotted(ann.value) or ""
            if head.split(".")[-1] in ("Optional", "Union"):
                sl = ann.slice
                elts = sl.elts if isinstance(sl, ast.Tuple) else [sl]
                for e in elts:
                    out |= self.ann_types(mod, e, cls)
                return out
            if head.split(".")[-1] in ("Type",):
                return out
            # Generic[...] instance: the head class
            r = self.m.resolve_expr(mod, ann.value, cls)
            if r in self.m.classes:
                out.add(r)
            return out
        if isinstance(ann, ast.BinOp) and isinstance(ann.op, ast.BitOr):
            return self.ann_types(mod, ann.left, cls) | self.ann_types(mod, ann.right, cls)
        r = self.m.resolve_expr(mod, ann, cls)
        if r in self.m.classes:
            out.add(r)
        return out

    def attr_types(self, cls_qn: str) -> Dict[str, Set[str]]:
        """self.<attr> -> classes, from annotations and constructor assignments anywhere in the MRO."""
        if cls_qn in self._attr_types_cache:
            return self._attr_types_cache[cls_qn]
        res: Dict[str, Set[str]] = {}
        self._attr_types_cache[cls_qn] = res
        for k in self.m.mro(cls_qn):
            ci = self.m.classes.get(k)
            if not ci:
                continue
            for st in ci.node.body:
                if isinstance(st, ast.AnnAssign) and isinstance(st.target, ast.Name):
                    res.setdefault(st.target.id, set()).update(self.ann_types(ci.module, st.annotation, ci))
            for f in ci.methods.values():
                penv = self._param_env(f)
                for n in walk_no_nested(f.node):
                    tgt = None
                    val = None
                    ann = None
                    if isinstance(n, ast.Assign) and len(n.targets) == 1:
                        tgt, val = n.targets[0], n.value
                    elif isinstance(n, ast.AnnAssign):
                        tgt, val, ann = n.target, n.value, n.annotation
                    if isinstance(tgt, ast.Attribute) and isinstance(tgt.value, ast.Name) and tgt.value.id == "self":
                        ts: Set[str] = set()
                        if ann is not None:
                            ts |= self.ann_types(ci.module, ann, ci)
                        if val is not None:
                            ts |= self._expr_types_shallow(f, val, penv)
                        if ts:
                            res.setdefault(tgt.attr, set()).update(ts)
        return res

    def _param_env(self, f: FuncInfo) -> Dict[str, Set[str]]:
        env: Dict[str, Set[str]] = {}
        a = f.node.args  # type: ignore[attr-defined]
        allargs = a.posonlyargs + a.args + a.kwonlyargs
        for i, p in enumerate(allargs):
            if i == 0 and f.cls is not None and not f.is_static and isinstance(f.node, (ast.FunctionDef, ast.AsyncFunctionDef)) and f.parent is None:
                if f.is_classmethod:
                    env[p.arg] = {"type:" + f.cls.qualname}
                else:
                    env[p.arg] = {f.cls.qualname}
                continue
            ts = self.ann_types(f.module, p.annotation, f.cls)
            if ts:
                env[p.arg] = ts
        # nested functions see the enclosing function's env
        if f.parent is not None:
            outer = self.local_env(f.parent)
            for k, v in outer.items():
                env.setdefault(k, v)
        return env

    def _expr_types_shallow(self, f: FuncInfo, e: ast.expr, env: Dict[str, Set[str]]) -> Set[str]:
        if isinstance(e, ast.Name):
            return set(env.get(e.id, set()))
        if isinstance(e, ast.Call):
            if isinstance(e.func, ast.Name) and e.func.id == "cast" and len(e.args) == 2:
                return self.ann_types(f.module, e.args[0], f.cls)
            r = self.m.resolve_expr(f.module, e.func, f.cls)
            if r in self.m.classes:
                return {r}
            if r in self.m.funcs:
                ret = getattr(self.m.funcs[r].node, "returns", None)
                return self.ann_types(self.m.funcs[r].module, ret, self.m.funcs[r].cls)
            # self.__class__(...) / cls(...)
            if isinstance(e.func, ast.Attribute) and e.func.attr == "__class__":
                return self._expr_types_shallow(f, e.func.value, env)
            if isinstance(e.func, ast.Name) and any(t.startswith("type:") for t in env.get(e.func.id, ())):
                return {t[5:] for t in env[e.func.id] if t.startswith("type:")}
            # method call with annotated return
            if isinstance(e.func, ast.Attribute):
                outs: Set[str] = set()
                for rc in self._expr_types_shallow(f, e.func.value, env):
                    if rc.startswith("type:"):
                        rc = rc[5:]
                    mf = self.m.lookup_method(rc, e.func.attr)
                    if mf is not None:
                        outs |= self.ann_types(mf.module, getattr(mf.node, "returns", None), mf.cls)
                return outs
            return set()
        if isinstance(e, ast.Attribute):
            if isinstance(e.value, ast.Name) and e.value.id == "self" and f.cls is not None:
                return set(self.attr_types(f.cls.qualname).get(e.attr, set()))
            base = self._expr_types_shallow(f, e.value, env)
            outs = set()
            for b in base:
                if b in self.m.classes:
                    outs |= self.attr_types(b).get(e.attr, set())
            return outs
        if isinstance(e, ast.IfExp):
            return self._expr_types_shallow(f, e.body, env) | self._expr_types_shallow(f, e.orelse, env)
        return set()

    def local_env(self, f: FuncInfo) -> Dict[str, Set[str]]:
        if f.qualname in self._env_cache:
            return self._env_cache[f.qualname]
        env = self._param_env(f)
        self._env_cache[f.qualname] = env
        if isinstance(f.node, ast.Lambda):
            return env
        for _ in range(2):
            for n in walk_no_nested(f.node):
                if isinstance(n, ast.Assign) and len(n.targets) == 1 and isinstance(n.targets[0], ast.Name):
                    ts = self._expr_types_shallow(f, n.value, env)
                    if ts:
                        env.setdefault(n.targets[0].id, set()).update(ts)
                elif isinstance(n, ast.AnnAssign) and isinstance(n.target, ast.Name):
                    ts = self.ann_types(f.module, n.annotation, f.cls)
                    if n.value is not None:
                        ts |= self._expr_types_shallow(f, n.value, env)
                    if ts:
                        env.setdefault(n.target.id, set()).update(ts)
                elif isinstance(n, (ast.With, ast.AsyncWith)):
                    for it in n.items:
                        if isinstance(it.optional_vars, ast.Name):
                            ts = self._expr_types_shallow(f, it.context_expr, env)
                            if ts:
                                env.setdefault(it.optional_vars.id, set()).update(ts)
                elif isinstance(n, ast.Call) and isinstance(n.func, ast.Name) and n.func.id == "isinstance" and len(n.args) == 2:
                    # isinstance narrowing (flow-insensitive: adds candidates)
                    if isinstance(n.args[0], ast.Name):
                        tgt = n.args[1]
                        elts = tgt.elts if isinstance(tgt, ast.Tuple) else [tgt]
                        for e in elts:
                            r = self.m.resolve_expr(f.module, e, f.cls)
                            if r in self.m.classes:
                                env.setdefault(n.args[0].id, set()).add(r)
        return env

    def expr_types(self, f: FuncInfo, e: ast.expr) -> Set[str]:
        return self._expr_types_shallow(f, e, self.local_env(f))

    # ------------------------------------------------------------- resolve
    def _method_targets(self, cls_qn: str, name: str, exact: bool = False) -> List[FuncInfo]:
        if exact or not self.fanout:
            f = self.m.lookup_method(cls_qn, name)
            return [f] if f else []
        return self.m.overrides(cls_qn, name)

    def resolve_call(self, f: FuncInfo, call: ast.Call) -> Tuple[List[FuncInfo], str]:
        """Returns (callees, status) with status in resolved|external|unresolved|fanout."""
        fn = call.func
        env = self.local_env(f)
        # reflection by local name
        if isinstance(fn, ast.Name) and (f.qualname, fn.id) in self.reflection:
            return self.reflection[(f.qualname, fn.id)](), "resolved"
        if isinstance(fn, ast.Name):
            # nested function of this function or enclosing ones
            p: Optional[FuncInfo] = f
            while p is not None:
                q = f"{p.qualname}.{fn.id}"
                if q in self.m.funcs:
                    return [self.m.funcs[q]], "resolved"
                p = p.parent
            r = self.m.resolve_expr(f.module, fn, f.cls)
            if r in self.m.funcs:
                return [self.m.funcs[r]], "resolved"
            if r in self.m.classes:
                init = self.m.lookup_method(r, "__init__")
                return ([init] if init else []), "resolved"
            ts = env.get(fn.id, set())
            ctor = [t[5:] for t in ts if t.startswith("type:")]
            if ctor:
                outs = []
                for c in ctor:
                    for sc in [c] + (self.m.subclasses(c, strict=True) if self.fanout else []):
                        init = self.m.lookup_method(sc, "__init__")
                        if init and init not in outs:
                            outs.append(init)
                return outs, "resolved"
            return [], "external"
        if isinstance(fn, ast.Attribute):
            name = fn.attr
            recv = fn.value
            # super().m(...)
            if isinstance(recv, ast.Call) and isinstance(recv.func, ast.Name) and recv.func.id == "super" and f.cls is not None:
                mro = self.m.mro(f.cls.qualname)[1:]
                for k in mro:
                    ci = self.m.classes.get(k)
                    if ci and name in ci.methods:
                        return [ci.methods[name]], "resolved"
                return [], "external"
            # self.__class__(...)
            if name == "__class__":
                return [], "external"
            # module.func / Class.method / Class.Nested
            r = self.m.resolve_expr(f.module, fn, f.cls)
            if r in self.m.funcs and not (isinstance(recv, ast.Name) and recv.id in ("self",)):
                base = self.m.resolve_expr(f.module, recv, f.cls)
                if base in self.m.modules or base in self.m.classes:
                    tf = self.m.funcs[r]
                    # Class.method(...) on a classmethod fans out like cls.method
                    return [tf], "resolved"
            if r in self.m.classes:
                init = self.m.lookup_method(r, "__init__")
                return ([init] if init else []), "resolved"
            base = self.m.resolve_expr(f.module, recv, f.cls)
            if base in self.m.classes and not (isinstance(recv, ast.Name) and recv.id in env):
                # Class.m(...) where no class of the MRO defines m: object's own method
                if self.m.lookup_method(base, name) is None:
                    return [], "external"
            if base is not None and base.split(".")[0] not in ("pdfminer",) and isinstance(recv, (ast.Name, ast.Attribute)) and not (
                isinstance(recv, ast.Name) and recv.id in env
            ):
                # external module function (struct.unpack, os.path.join, ...)
                if isinstance(recv, ast.Name) and recv.id in f.module.imports or isinstance(recv, ast.Attribute):
                    root = recv
                    while isinstance(root, ast.Attribute):
                        root = root.value
                    if isinstance(root, ast.Name) and root.id in f.module.imports and not f.module.imports[root.id].startswith("pdfminer"):
                        return [], "external"
            # typed receiver
            rts = self._expr_types_shallow(f, recv, env)
            outs: List[FuncInfo] = []
            attr_refl_hit = False
            for t in rts:
                is_type = t.startswith("type:")
                c = t[5:] if is_type else t
                if c not in self.m.classes:
                    continue
                targets = self._method_targets(c, name)
                if not targets and name in self.attr_reflection:
                    targets = self.attr_reflection[name](c)
                    attr_refl_hit = True
                for x in targets:
                    if x not in outs:
                        outs.append(x)
            if outs:
                return outs, "resolved"
            if rts and not outs:
                # typed receiver without such a method: attribute holding a callable
                if name in self.attr_reflection:
                    c0 = next(iter(rts))
                    c0 = c0[5:] if c0.startswith("type:") else c0
                    return self.attr_reflection[name](c0), "resolved"
                return [], "external"
            if name in self.attr_reflection and isinstance(recv, ast.Name) and recv.id == "self" and f.cls:
                return self.attr_reflection[name](f.cls.qualname), "resolved"
            # untyped receiver
            if name in CONTAINER_METHODS:
                return [], "external"
            cands = [ci.methods[name] for ci in self.m.classes.values() if name in ci.methods]
            if cands:
                return cands, "fanout"
            return [], "external"
        # call of a call / subscript: self.cfm[name](...)
        if isinstance(fn, ast.Subscript):
            d = dotted(fn.value) or ""
            if d.endswith(".cfm"):
                cls = "pdfminer.pdfdocument.PDFStandardSecurityHandlerV4"
                outs = []
                for c in [cls] + self.m.subclasses(cls, strict=True):
                    ci = self.m.classes.get(c)
                    if ci:
                        for n2, mf in ci.methods.items():
                            if n2.startswith("decrypt_") and mf not in outs:
                                outs.append(mf)
                return outs, "resolved"
            return [], "unresolved"
        return [], "unresolved"

    def calls_in(self, f: FuncInfo, include_nested_lambdas: bool = True) -> List[ast.Call]:
        return [n for n in walk_no_nested(f.node) if isinstance(n, ast.Call)]


class CallGraph:
    def __init__(self, model: Model, fanout: bool = True) -> None:
        self.m = model
        self.r = Resolver(model, fanout)
        self.edges: Dict[str, List[Tuple[ast.Call, List[FuncInfo], str]]] = {}
        self.stats = {"call_sites": 0, "resolved": 0, "external": 0, "unresolved": 0, "fanout": 0}
        for f in list(model.funcs.values()):
            out = []
            for c in self.r.calls_in(f):
                callees, status = self.r.resolve_call(f, c)
                self.stats["call_sites"] += 1
                self.stats[status] += 1
                out.append((c, callees, status))
            # property getters: attribute loads on a typed receiver whose attribute is a @property
            if not isinstance(f.node, ast.Lambda):
                for n in walk_no_nested(f.node):
                    if isinstance(n, ast.Attribute) and isinstance(n.ctx, ast.Load):
                        for t in self.r.expr_types(f, n.value):
                            c = t[5:] if t.startswith("type:") else t
                            pm = model.lookup_method(c, n.attr) if c in model.classes else None
                            if pm is not None and pm.is_property:
                                fake = ast.Call(func=n, args=[], keywords=[])
                                ast.copy_location(fake, n)
                                out.append((fake, model.overrides(c, n.attr) if fanout else [pm], "resolved"))
            self.edges[f.qualname] = out

    def callees(self, qn: str) -> Set[str]:
        return {c.qualname for (_, cs, _) in self.edges.get(qn, []) for c in cs}

    def reachable(self, roots: Iterable[str]) -> Set[str]:
        seen: Set[str] = set()
        st = [r for r in roots]
        while st:
            q = st.pop()
            if q in seen:
                continue
            seen.add(q)
            for c in self.callees(q):
                if c not in seen:
                    st.append(c)
            # nested functions are reachable when their parent is (they are closures used by it)
            for k, fi in self.m.funcs.items():
                if fi.parent is not None and fi.parent.qualname == q and k not in seen:
                    st.append(k)
        return seen

    def sccs(self, nodes: Optional[Set[str]] = None, skip_edges: Optional[Set[Tuple[str, str]]] = None) -> List[List[str]]:
        nodes = set(self.edges) if nodes is None else nodes
        skip_edges = skip_edges or set()
        index: Dict[str, int] = {}
        low: Dict[str, int] = {}
        onst: Set[str] = set()
        st: List[str] = []
        out: List[List[str]] = []
        counter = [0]
        import sys

        sys.setrecursionlimit(10000)

        def strong(v: str) -> None:
            index[v] = low[v] = counter[0]
            counter[0] += 1
            st.append(v)
            onst.add(v)
            for w in self.callees(v):
                if w not in nodes or (v, w) in skip_edges:
                    continue
                if w not in index:
                    strong(w)
                    low[v] = min(low[v], low[w])
                elif w in onst:
                    low[v] = min(low[v], index[w])
            if low[v] == index[v]:
                comp = []
                while True:
                    w = st.pop()
                    onst.discard(w)
                    comp.append(w)
                    if w == v:
                        break
                out.append(comp)

        for v in sorted(nodes):
            if v not in index:
                strong(v)
        return out

"""E5 - call-site resolution and call graph (see DESIGN Appendix D.1)."""

from __future__ import annotations

import ast
from typing import Dict, Iterable, List, Optional, Set, Tuple

from .model import ClassInfo, FuncInfo, Model, dotted, walk_no_nested

# method names of builtin containers / str / bytes / files: an untyped receiver
# with one of these names is an *unresolved* (external) call, not a fan-out.
CONTAINER_METHODS = {
    "append", "extend", "insert", "pop", "remove", "clear", "copy", "sort", "reverse", "index", "count",
    "get", "items", "keys", "values", "update", "setdefault", "popitem", "add", "discard", "difference",
    "union", "intersection", "join", "split", "strip", "rstrip", "lstrip", "replace", "startswith", "endswith",
    "encode", "decode", "lower", "upper", "isdigit", "isalpha", "isspace", "find", "rfind", "format",
    "read", "write", "seek", "tell", "close", "flush", "readline", "group", "groups", "start", "end",
    "match", "search", "sub", "finditer", "digest", "hexdigest", "tobytes", "ljust", "rjust", "zfill",
    "getvalue", "from_bytes", "to_bytes", "is_integer", "translate", "title", "partition", "rpartition",
    "fullmatch", "splitlines", "decompress", "update_", "decryptor", "encryptor", "finalize", "unpadder",
    "debug", "info", "warning", "error", "exception", "setLevel", "warn",
}


class Resolver:
    def __init__(self, model: Model, fanout: bool = True) -> None:
        self.m = model
        self.fanout = fanout
        self._attr_types_cache: Dict[str, Dict[str, Set[str]]] = {}
        self._env_cache: Dict[str, Dict[str, Set[str]]] = {}
        self.unresolved: List[Tuple[str, str]] = []
        # (function, local name) typed by isinstance tests only: the candidates are a lower bound, not the full set
        self._partial: Set[Tuple[str, str]] = set()
        # explicit reflection table: (function qualname, textual callee) -> resolver
        self.reflection = {
            # getattr(self, "do_%s") dispatch
            ("pdfminer.pdfinterp.PDFPageInterpreter.execute", "func"): lambda: self._methods_with_prefix("pdfminer.pdfinterp.PDFPageInterpreter", "do_"),
        }
        self.attr_reflection = {
            # self._parse1(...)  -> every _parse_* scanner
            "_parse1": lambda cls: self._methods_with_prefix(cls, "_parse_"),
            # PDFStream.decipher / PDFDocument.decipher -> handler.decrypt of every handler
            "decipher": lambda cls: self._decrypts(),
        }

    # ----------------------------------------------------------- helper sets
    def _methods_with_prefix(self, cls_qn: str, prefix: str) -> List[FuncInfo]:
        out: List[FuncInfo] = []
        seen = set()
        classes = [cls_qn] + (self.m.subclasses(cls_qn, strict=True) if self.fanout else [])
        for c in classes:
            for k in self.m.mro(c):
                ci = self.m.classes.get(k)
                if not ci:
                    continue
                for name, f in ci.methods.items():
                    if name.startswith(prefix) and f.qualname not in seen:
                        seen.add(f.qualname)
                        out.append(f)
        return out

    def _decrypts(self) -> List[FuncInfo]:
        out = []
        base = "pdfminer.pdfdocument.PDFStandardSecurityHandler"
        if base in self.m.classes:
            out = self.m.overrides(base, "decrypt")
        return out

    # ------------------------------------------------------------ type env
    def ann_types(self, mod, ann: Optional[ast.expr], cls: Optional[ClassInfo] = None) -> Set[str]:
        """Package classes named by an annotation (Optional/Union flattened)."""
        out: Set[str] = set()
        if ann is None:
            return out
        if isinstance(ann, ast.Constant) and isinstance(ann.value, str):
            try:
                ann = ast.parse(ann.value, mode="eval").body
            except SyntaxError:
                return out
        if isinstance(ann, ast.Subscript):
            head = dotted(ann.value) or ""
            if head.split(".")[-1] in ("Optional", "Union"):
                sl = ann.slice
                elts = sl.elts if isinstance(sl, ast.Tuple) else [sl]
                for e in elts:
                    out |= self.ann_types(mod, e, cls)
                return out
            if head.split(".")[-1] in ("Type",):
                return out
            # Generic[...] instance: the head class
            r = self.m.resolve_expr(mod, ann.value, cls)
            if r in self.m.classes:
                out.add(r)
            return out
        if isinstance(ann, ast.BinOp) and isinstance(ann.op, ast.BitOr):
            return self.ann_types(mod, ann.left, cls) | self.ann_types(mod, ann.right, cls)
        r = self.m.resolve_expr(mod, ann, cls)
        if r in self.m.classes:
            out.add(r)
        return out

    def attr_types(self, cls_qn: str) -> Dict[str, Set[str]]:
        """self.<attr> -> classes, from annotations and constructor assignments anywhere in the MRO."""
        if cls_qn in self._attr_types_cache:
            return self._attr_types_cache[cls_qn]
        res: Dict[str, Set[str]] = {}
        self._attr_types_cache[cls_qn] = res
        for k in self.m.mro(cls_qn):
            ci = self.m.classes.get(k)
            if not ci:
                continue
            for st in ci.node.body:
                if isinstance(st, ast.AnnAssign) and isinstance(st.target, ast.Name):
                    res.setdefault(st.target.id, set()).update(self.ann_types(ci.module, st.annotation, ci))
            for f in ci.methods.values():
                penv = self._param_env(f)
                for n in walk_no_nested(f.node):
                    tgt = None
                    val = None
                    ann = None
                    if isinstance(n, ast.Assign) and len(n.targets) == 1:
                        tgt, val = n.targets[0], n.value
                    elif isinstance(n, ast.AnnAssign):
                        tgt, val, ann = n.target, n.value, n.annotation
                    if isinstance(tgt, ast.Attribute) and isinstance(tgt.value, ast.Name) and tgt.value.id == "self":
                        ts: Set[str] = set()
                        if ann is not None:
                            ts |= self.ann_types(ci.module, ann, ci)
                        if val is not None:
                            ts |= self._expr_types_shallow(f, val, penv)
                        if ts:
                            res.setdefault(tgt.attr, set()).update(ts)
        return res

    def _param_env(self, f: FuncInfo) -> Dict[str, Set[str]]:
        env: Dict[str, Set[str]] = {}
        a = f.node.args  # type: ignore[attr-defined]
        allargs = a.posonlyargs + a.args + a.kwonlyargs
        for i, p in enumerate(allargs):
            if i == 0 and f.cls is not None and not f.is_static and isinstance(f.node, (ast.FunctionDef, ast.AsyncFunctionDef)) and f.parent is None:
                if f.is_classmethod:
                    env[p.arg] = {"type:" + f.cls.qualname}
                else:
                    env[p.arg] = {f.cls.qualname}
                continue
            ts = self.ann_types(f.module, p.annotation, f.cls)
            if ts:
                env[p.arg] = ts
        # nested functions see the enclosing function's env
        if f.parent is not None:
            outer = self.local_env(f.parent)
            for k, v in outer.items():
                env.setdefault(k, v)
        return env

    def _expr_types_shallow(self, f: FuncInfo, e: ast.expr, env: Dict[str, Set[str]]) -> Set[str]:
        if isinstance(e, ast.Name):
            return set(env.get(e.id, set()))
        if isinstance(e, ast.Call):
            if isinstance(e.func, ast.Name) and e.func.id == "cast" and len(e.args) == 2:
                return self.ann_types(f.module, e.args[0], f.cls)
            r = self.m.resolve_expr(f.module, e.func, f.cls)
            if r in self.m.classes:
                return {r}
            if r in self.m.funcs:
                ret = getattr(self.m.funcs[r].node, "returns", None)
                return self.ann_types(self.m.funcs[r].module, ret, self.m.funcs[r].cls)
            # TABLE.get(k): values of a dict-literal table of classes / functions
            if isinstance(e.func, ast.Attribute) and e.func.attr == "get":
                tv = self.table_values(f, e.func.value)
                if tv:
                    return tv
            # self.__class__(...) / cls(...)
            if isinstance(e.func, ast.Attribute) and e.func.attr == "__class__":
                return self._expr_types_shallow(f, e.func.value, env)
            if isinstance(e.func, ast.Name) and any(t.startswith("type:") for t in env.get(e.func.id, ())):
                return {t[5:] for t in env[e.func.id] if t.startswith("type:")}
            # method call with annotated return
            if isinstance(e.func, ast.Attribute):
                outs: Set[str] = set()
                for rc in self._expr_types_shallow(f, e.func.value, env):
                    if rc.startswith("type:"):
                        rc = rc[5:]
                    mf = self.m.lookup_method(rc, e.func.attr)
                    if mf is not None:
                        outs |= self.ann_types(mf.module, getattr(mf.node, "returns", None), mf.cls)
                return outs
            return set()
        if isinstance(e, ast.Attribute):
            if isinstance(e.value, ast.Name) and e.value.id == "self" and f.cls is not None:
                return set(self.attr_types(f.cls.qualname).get(e.attr, set()))
            base = self._expr_types_shallow(f, e.value, env)
            outs = set()
            for b in base:
                if b in self.m.classes:
                    outs |= self.attr_types(b).get(e.attr, set())
            return outs
        if isinstance(e, ast.IfExp):
            return self._expr_types_shallow(f, e.body, env) | self._expr_types_shallow(f, e.orelse, env)
        if isinstance(e, ast.Subscript):
            return self.table_values(f, e.value)
        return set()

    def local_env(self, f: FuncInfo) -> Dict[str, Set[str]]:
        if f.qualname in self._env_cache:
            return self._env_cache[f.qualname]
        env = self._param_env(f)
        self._env_cache[f.qualname] = env
        if isinstance(f.node, ast.Lambda):
            return env
        for _ in range(2):
            for n in walk_no_nested(f.node):
                if isinstance(n, ast.Assign) and len(n.targets) == 1 and isinstance(n.targets[0], ast.Name):
                    ts = self._expr_types_shallow(f, n.value, env)
                    if ts:
                        env.setdefault(n.targets[0].id, set()).update(ts)
                elif isinstance(n, ast.AnnAssign) and isinstance(n.target, ast.Name):
                    ts = self.ann_types(f.module, n.annotation, f.cls)
                    if n.value is not None:
                        ts |= self._expr_types_shallow(f, n.value, env)
                    if ts:
                        env.setdefault(n.target.id, set()).update(ts)
                elif isinstance(n, (ast.With, ast.AsyncWith)):
                    for it in n.items:
                        if isinstance(it.optional_vars, ast.Name):
                            ts = self._expr_types_shallow(f, it.context_expr, env)
                            if ts:
                                env.setdefault(it.optional_vars.id, set()).update(ts)
                elif isinstance(n, ast.Call) and isinstance(n.func, ast.Name) and n.func.id == "isinstance" and len(n.args) == 2:
                    # isinstance narrowing (flow-insensitive: adds candidates)
                    if isinstance(n.args[0], ast.Name):
                        tgt = n.args[1]
                        elts = tgt.elts if isinstance(tgt, ast.Tuple) else [tgt]
                        for e in elts:
                            r = self.m.resolve_expr(f.module, e, f.cls)
                            if r in self.m.classes:
                                if n.args[0].id not in env:
                                    self._partial.add((f.qualname, n.args[0].id))
                                env.setdefault(n.args[0].id, set()).add(r)
        return env

    def expr_types(self, f: FuncInfo, e: ast.expr) -> Set[str]:
        return self._expr_types_shallow(f, e, self.local_env(f))


    # ------------------------------------------------- values that hold functions / classes
    def func_fields(self) -> Dict[str, List[FuncInfo]]:
        """Field-based function pointers: attribute name -> methods/functions stored into `<obj>.<attr> = <reference>`
        anywhere in the package (e.g. ccitt: self._accept = self._parse_mode)."""
        if hasattr(self, "_func_fields"):
            return self._func_fields  # type: ignore[has-type]
        out: Dict[str, List[FuncInfo]] = {}
        self._func_fields = out
        for f in self.m.funcs.values():
            if isinstance(f.node, ast.Lambda):
                continue
            for n in walk_no_nested(f.node):
                if isinstance(n, ast.Assign) and len(n.targets) == 1 and isinstance(n.targets[0], ast.Attribute) and isinstance(n.value, (ast.Attribute, ast.Name)):
                    for tf in self._reference_targets(f, n.value):
                        lst = out.setdefault(n.targets[0].attr, [])
                        if tf not in lst:
                            lst.append(tf)
        return out

    def _reference_targets(self, f: FuncInfo, e: ast.expr) -> List[FuncInfo]:
        """Functions denoted by a reference expression (not a call): self.m, Class.m, func."""
        if isinstance(e, ast.Attribute):
            outs: List[FuncInfo] = []
            for t in self._expr_types_shallow(f, e.value, self.local_env(f)):
                c = t[5:] if t.startswith("type:") else t
                if c in self.m.classes:
                    for x in self._method_targets(c, e.attr):
                        if not x.is_property and x not in outs:
                            outs.append(x)
            if outs:
                return outs
        r = self.m.resolve_expr(f.module, e, f.cls)
        if r in self.m.funcs:
            return [self.m.funcs[r]]
        return []

    def class_alias(self, cls_qn: str, name: str) -> Optional[FuncInfo]:
        """Class-body alias `a = b = method` (arcfour: encrypt = decrypt = process)."""
        for k in self.m.mro(cls_qn):
            ci = self.m.classes.get(k)
            if not ci:
                continue
            for st in ci.node.body:
                if isinstance(st, ast.Assign) and isinstance(st.value, ast.Name) and st.value.id in ci.methods:
                    if any(isinstance(t, ast.Name) and t.id == name for t in st.targets):
                        return ci.methods[st.value.id]
        return None

    def module_var_types(self, dotted_name: str) -> Set[str]:
        """Classes of a module-level variable bound to a constructor call (psparser: PSLiteralTable = PSSymbolTable(PSLiteral))."""
        mod, _, var = dotted_name.rpartition(".")
        mi = self.m.modules.get(mod)
        if mi is None or var not in mi.assigns:
            return set()
        v = mi.assigns[var]
        if isinstance(v, ast.Call):
            r = self.m.resolve_expr(mi, v.func, None)
            if r in self.m.classes:
                return {r}
        return set()

    def dotted_method(self, r: Optional[str]) -> List[FuncInfo]:
        """`module.VAR.method` where VAR is a module-level instance."""
        if not r or "." not in r:
            return []
        base, _, name = r.rpartition(".")
        outs: List[FuncInfo] = []
        for c in self.module_var_types(base):
            for x in self._method_targets(c, name):
                if x not in outs:
                    outs.append(x)
        return outs

    def table_values(self, f: FuncInfo, e: ast.expr) -> Set[str]:
        """Classes/functions stored as values of a dict-literal table denoted by e (class attribute via self/cls/Class, or module
        variable): PDFDocument.security_handler_registry."""
        tbl: Optional[ast.AST] = None
        owner_mod = f.module
        owner_cls: Optional[ClassInfo] = f.cls
        if isinstance(e, ast.Attribute) and isinstance(e.value, ast.Name) and e.value.id in ("self", "cls") and f.cls is not None:
            for k in self.m.mro(f.cls.qualname):
                ci = self.m.classes.get(k)
                if ci and e.attr in ci.attrs:
                    tbl, owner_mod, owner_cls = ci.attrs[e.attr], ci.module, ci
                    break
        else:
            r = self.m.resolve_expr(f.module, e, f.cls)
            if r:
                base, _, var = r.rpartition(".")
                if base in self.m.classes and var in self.m.classes[base].attrs:
                    ci = self.m.classes[base]
                    tbl, owner_mod, owner_cls = ci.attrs[var], ci.module, ci
                elif base in self.m.modules and var in self.m.modules[base].assigns:
                    tbl, owner_mod, owner_cls = self.m.modules[base].assigns[var], self.m.modules[base], None
        out: Set[str] = set()
        if isinstance(tbl, ast.Dict):
            for v in tbl.values:
                r = self.m.resolve_expr(owner_mod, v, owner_cls) if v is not None else None
                if r in self.m.classes:
                    out.add("type:" + r)
                elif r in self.m.funcs:
                    out.add("func:" + r)
        return out

    # ------------------------------------------------------------- resolve
    def _method_targets(self, cls_qn: str, name: str, exact: bool = False) -> List[FuncInfo]:
        if exact or not self.fanout:
            f = self.m.lookup_method(cls_qn, name)
            return [f] if f else []
        return self.m.overrides(cls_qn, name)

    def resolve_call(self, f: FuncInfo, call: ast.Call) -> Tuple[List[FuncInfo], str]:
        """Returns (callees, status) with status in resolved|external|unresolved|fanout."""
        fn = call.func
        env = self.local_env(f)
        # reflection by local name
        if isinstance(fn, ast.Name) and (f.qualname, fn.id) in self.reflection:
            return self.reflection[(f.qualname, fn.id)](), "resolved"
        if isinstance(fn, ast.Name):
            # nested function of this function or enclosing ones
            p: Optional[FuncInfo] = f
            while p is not None:
                q = f"{p.qualname}.{fn.id}"
                if q in self.m.funcs:
                    return [self.m.funcs[q]], "resolved"
                p = p.parent
            r = self.m.resolve_expr(f.module, fn, f.cls)
            if r in self.m.funcs:
                return [self.m.funcs[r]], "resolved"
            if r in self.m.classes:
                init = self.m.lookup_method(r, "__init__")
                return ([init] if init else []), "resolved"
            dm = self.dotted_method(r)
            if dm:
                return dm, "resolved"
            # function-local import: `from pdfminer._saslprep import saslprep` inside the function body
            pp: Optional[FuncInfo] = f
            while pp is not None and not isinstance(pp.node, ast.Lambda):
                for n in walk_no_nested(pp.node):
                    if isinstance(n, ast.ImportFrom) and n.module and any((a.asname or a.name) == fn.id for a in n.names):
                        orig = next(a.name for a in n.names if (a.asname or a.name) == fn.id)
                        base = n.module if n.level == 0 else ".".join(f.module.name.split(".")[: -n.level] + [n.module])
                        q = f"{base}.{orig}"
                        if q in self.m.funcs:
                            return [self.m.funcs[q]], "resolved"
                        if q in self.m.classes:
                            init = self.m.lookup_method(q, "__init__")
                            return ([init] if init else []), "resolved"
                pp = pp.parent
            ts = env.get(fn.id, set())
            fvals = [self.m.funcs[t[5:]] for t in ts if t.startswith("func:") and t[5:] in self.m.funcs]
            if fvals:
                return fvals, "resolved"
            ctor = [t[5:] for t in ts if t.startswith("type:")]
            if ctor:
                outs = []
                for c in ctor:
                    for sc in [c] + (self.m.subclasses(c, strict=True) if self.fanout else []):
                        init = self.m.lookup_method(sc, "__init__")
                        if init and init not in outs:
                            outs.append(init)
                return outs, "resolved"
            return [], "external"
        if isinstance(fn, ast.Attribute):
            name = fn.attr
            recv = fn.value
            # super().m(...)
            if isinstance(recv, ast.Call) and isinstance(recv.func, ast.Name) and recv.func.id == "super" and f.cls is not None:
                mro = self.m.mro(f.cls.qualname)[1:]
                for k in mro:
                    ci = self.m.classes.get(k)
                    if ci and name in ci.methods:
                        return [ci.methods[name]], "resolved"
                return [], "external"
            # self.__class__(...)
            if name == "__class__":
                return [], "external"
            # module.func / Class.method / Class.Nested
            r = self.m.resolve_expr(f.module, fn, f.cls)
            if r in self.m.funcs and not (isinstance(recv, ast.Name) and recv.id in ("self",)):
                base = self.m.resolve_expr(f.module, recv, f.cls)
                if base in self.m.modules or base in self.m.classes:
                    tf = self.m.funcs[r]
                    # Class.method(...) on a classmethod fans out like cls.method
                    return [tf], "resolved"
            if r in self.m.classes:
                init = self.m.lookup_method(r, "__init__")
                return ([init] if init else []), "resolved"
            base = self.m.resolve_expr(f.module, recv, f.cls)
            if base in self.m.classes and not (isinstance(recv, ast.Name) and recv.id in env):
                # Class.m(...) where no class of the MRO defines m: object's own method
                if self.m.lookup_method(base, name) is None:
                    return [], "external"
            if base is not None and base.split(".")[0] not in ("pdfminer",) and isinstance(recv, (ast.Name, ast.Attribute)) and not (
                isinstance(recv, ast.Name) and recv.id in env
            ):
                # external module function (struct.unpack, os.path.join, ...)
                if isinstance(recv, ast.Name) and recv.id in f.module.imports or isinstance(recv, ast.Attribute):
                    root = recv
                    while isinstance(root, ast.Attribute):
                        root = root.value
                    if isinstance(root, ast.Name) and root.id in f.module.imports and not f.module.imports[root.id].startswith("pdfminer"):
                        return [], "external"
            # typed receiver
            rts = self._expr_types_shallow(f, recv, env)
            outs: List[FuncInfo] = []
            attr_refl_hit = False
            for t in rts:
                is_type = t.startswith("type:")
                c = t[5:] if is_type else t
                if c not in self.m.classes:
                    continue
                targets = self._method_targets(c, name)
                if not targets and name in self.attr_reflection:
                    targets = self.attr_reflection[name](c)
                    attr_refl_hit = True
                for x in targets:
                    if x not in outs:
                        outs.append(x)
            if outs and isinstance(recv, ast.Name) and (f.qualname, recv.id) in self._partial and name not in CONTAINER_METHODS:
                # the receiver is only known through isinstance tests: other classes with such a method are possible too
                for ci in self.m.classes.values():
                    if name in ci.methods and ci.methods[name] not in outs:
                        outs.append(ci.methods[name])
                return outs, "fanout"
            if outs:
                return outs, "resolved"
            if rts and not outs:
                # typed receiver without such a method: class-body alias, or attribute holding a callable
                for t in rts:
                    c = t[5:] if t.startswith("type:") else t
                    al = self.class_alias(c, name) if c in self.m.classes else None
                    if al is not None and al not in outs:
                        outs.append(al)
                if outs:
                    return outs, "resolved"
                if name in self.func_fields() and name not in self.attr_reflection:
                    return list(self.func_fields()[name]), "resolved"
                if name in self.attr_reflection:
                    c0 = next(iter(rts))
                    c0 = c0[5:] if c0.startswith("type:") else c0
                    return self.attr_reflection[name](c0), "resolved"
                return [], "external"
            if name in self.attr_reflection and isinstance(recv, ast.Name) and recv.id == "self" and f.cls:
                return self.attr_reflection[name](f.cls.qualname), "resolved"
            # untyped receiver
            if name in CONTAINER_METHODS:
                return [], "external"
            cands = [ci.methods[name] for ci in self.m.classes.values() if name in ci.methods]
            if cands:
                return cands, "fanout"
            return [], "external"
        # call of a call / subscript: self.cfm[name](...)
        if isinstance(fn, ast.Subscript):
            d = dotted(fn.value) or ""
            if d.endswith(".cfm"):
                cls = "pdfminer.pdfdocument.PDFStandardSecurityHandlerV4"
                outs = []
                for c in [cls] + self.m.subclasses(cls, strict=True):
                    ci = self.m.classes.get(c)
                    if ci:
                        for n2, mf in ci.methods.items():
                            if n2.startswith("decrypt_") and mf not in outs:
                                outs.append(mf)
                return outs, "resolved"
            return [], "unresolved"
        return [], "unresolved"

    def getattr_targets(self, f: FuncInfo, call: ast.Call) -> List[FuncInfo]:
        """getattr(self, "<prefix>%s" % name[, default]) -> every method of the class (and subclasses) with that prefix."""
        if not (isinstance(call.func, ast.Name) and call.func.id == "getattr" and len(call.args) >= 2 and f.cls is not None):
            return []
        if not (isinstance(call.args[0], ast.Name) and call.args[0].id == "self"):
            return []
        a = call.args[1]
        prefix = None
        if isinstance(a, ast.BinOp) and isinstance(a.op, ast.Mod) and isinstance(a.left, ast.Constant) and isinstance(a.left.value, str) and "%" in a.left.value:
            prefix = a.left.value.split("%")[0]
        elif isinstance(a, ast.JoinedStr) and a.values and isinstance(a.values[0], ast.Constant):
            prefix = str(a.values[0].value)
        if not prefix:
            return []
        cands = self._methods_with_prefix(f.cls.qualname, prefix)
        # the formatted name ranges over a module-level literal table: only those names are possible
        var = a.right if isinstance(a, ast.BinOp) and isinstance(a.right, ast.Name) else None
        if var is not None:
            for lp in walk_no_nested(f.node):
                if isinstance(lp, ast.For) and isinstance(lp.iter, ast.Name) and lp.iter.id in f.module.assigns:
                    tg = lp.target.elts if isinstance(lp.target, (ast.Tuple, ast.List)) else [lp.target]
                    pos = [i for i, t in enumerate(tg) if isinstance(t, ast.Name) and t.id == var.id]
                    if not pos:
                        continue
                    try:
                        table = ast.literal_eval(f.module.assigns[lp.iter.id])
                    except (ValueError, SyntaxError):
                        continue
                    names = {prefix + str(row[pos[0]] if isinstance(row, (tuple, list)) else row) for row in table}
                    return [x for x in cands if x.name in names]
        return cands

    def address_taken(self, f: FuncInfo) -> List[Tuple[ast.AST, List[FuncInfo]]]:
        """References to package functions/methods that are not in call position (callbacks, tables, sort keys, stored
        function pointers): the function may be called by whoever receives the value - an edge from f over-approximates that."""
        out: List[Tuple[ast.AST, List[FuncInfo]]] = []
        if isinstance(f.node, ast.Lambda):
            return out
        call_funcs = {id(c.func) for c in walk_no_nested(f.node) if isinstance(c, ast.Call)}
        # a reference stored into an attribute is called through that attribute: those call sites carry the edge (func_fields)
        call_funcs |= {id(n.value) for n in walk_no_nested(f.node) if isinstance(n, ast.Assign) and len(n.targets) == 1 and isinstance(n.targets[0], ast.Attribute)}
        inner_of_attr = {id(n.value) for n in walk_no_nested(f.node) if isinstance(n, ast.Attribute)}
        for n in walk_no_nested(f.node):
            if id(n) in call_funcs or not isinstance(n, (ast.Attribute, ast.Name)) or not isinstance(getattr(n, "ctx", None), ast.Load):
                continue
            if id(n) in inner_of_attr:
                continue
            if isinstance(n, ast.Name):
                r = self.m.resolve_expr(f.module, n, f.cls)
                p: Optional[FuncInfo] = f
                tg: List[FuncInfo] = []
                while p is not None:
                    q = f"{p.qualname}.{n.id}"
                    if q in self.m.funcs:
                        tg = [self.m.funcs[q]]
                        break
                    p = p.parent
                if not tg and r in self.m.funcs:
                    tg = [self.m.funcs[r]]
                if tg:
                    out.append((n, tg))
            else:
                if not (isinstance(n.value, ast.Name) and n.value.id in ("self", "cls")) and self.m.resolve_expr(f.module, n.value, f.cls) not in self.m.classes:
                    continue
                tg = [x for x in self._reference_targets(f, n) if not x.is_property]
                if tg:
                    out.append((n, tg))
        return out

    PROTOCOL_DUNDERS = ("__iter__", "__next__", "__len__", "__contains__", "__getitem__", "__setitem__", "__delitem__", "__enter__", "__exit__", "__lt__", "__le__", "__gt__", "__ge__", "__eq__", "__ne__", "__hash__", "__bool__", "__call__", "__add__", "__del__")

    def protocol_methods(self, cls_qn: str) -> List[FuncInfo]:
        """Implicitly invoked methods of a class (rapid type analysis: they are taken to be reachable wherever the class is instantiated
        or passed around as a value)."""
        outs: List[FuncInfo] = []
        for c in [cls_qn] + (self.m.subclasses(cls_qn, strict=True) if self.fanout else []):
            for k in self.m.mro(c):
                ci = self.m.classes.get(k)
                if not ci:
                    continue
                for d in self.PROTOCOL_DUNDERS:
                    if d in ci.methods and ci.methods[d] not in outs:
                        outs.append(ci.methods[d])
        return outs

    def calls_in(self, f: FuncInfo, include_nested_lambdas: bool = True) -> List[ast.Call]:
        return [n for n in walk_no_nested(f.node) if isinstance(n, ast.Call)]


class CallGraph:
    def __init__(self, model: Model, fanout: bool = True) -> None:
        self.m = model
        self.r = Resolver(model, fanout)
        self.edges: Dict[str, List[Tuple[ast.Call, List[FuncInfo], str]]] = {}
        self.stats = {"call_sites": 0, "resolved": 0, "external": 0, "unresolved": 0, "fanout": 0}
        # precise implicit calls, by id() of the AST node that performs them: property loads and getattr reflection
        self.implicit: Dict[str, Dict[int, List[FuncInfo]]] = {}
        for f in list(model.funcs.values()):
            out = []
            for c in self.r.calls_in(f):
                callees, status = self.r.resolve_call(f, c)
                self.stats["call_sites"] += 1
                self.stats[status] += 1
                out.append((c, callees, status))
            # property getters: attribute loads on a typed receiver whose attribute is a @property
            if not isinstance(f.node, ast.Lambda):
                for n in walk_no_nested(f.node):
                    if isinstance(n, ast.Attribute) and isinstance(n.ctx, ast.Load):
                        for t in self.r.expr_types(f, n.value):
                            c = t[5:] if t.startswith("type:") else t
                            pm = model.lookup_method(c, n.attr) if c in model.classes else None
                            if pm is not None and pm.is_property:
                                fake = ast.Call(func=n, args=[], keywords=[])
                                ast.copy_location(fake, n)
                                tg = model.overrides(c, n.attr) if fanout else [pm]
                                out.append((fake, tg, "resolved"))
                                self.implicit.setdefault(f.qualname, {}).setdefault(id(n), []).extend(x for x in tg if x not in self.implicit[f.qualname][id(n)])
            # reflection through getattr(self, "<prefix>%s" % x)
            for c in self.r.calls_in(f):
                gt = self.r.getattr_targets(f, c)
                if gt:
                    out.append((c, gt, "resolved"))
                    self.implicit.setdefault(f.qualname, {}).setdefault(id(c), []).extend(gt)
                    self.stats["reflection"] = self.stats.get("reflection", 0) + 1
            # address-taken functions
            for (node, tg) in self.r.address_taken(f):
                fake = ast.Call(func=node, args=[], keywords=[])
                ast.copy_location(fake, node)
                out.append((fake, tg, "resolved"))
                self.stats["address_taken"] = self.stats.get("address_taken", 0) + 1
            # implicitly invoked methods of classes instantiated (or handed around as values) here
            if not isinstance(f.node, ast.Lambda):
                seen_cls: Set[str] = set()
                for n in walk_no_nested(f.node):
                    if isinstance(n, (ast.Name, ast.Attribute)) and isinstance(getattr(n, "ctx", None), ast.Load):
                        r = model.resolve_expr(f.module, n, f.cls)
                        if r in model.classes and r not in seen_cls:
                            seen_cls.add(r)
                            pm = self.r.protocol_methods(r)
                            if pm:
                                fake = ast.Call(func=n, args=[], keywords=[])
                                ast.copy_location(fake, n)
                                out.append((fake, pm, "resolved"))
                                self.stats["protocol"] = self.stats.get("protocol", 0) + 1
            self.edges[f.qualname] = out

    def callees(self, qn: str) -> Set[str]:
        return {c.qualname for (_, cs, _) in self.edges.get(qn, []) for c in cs}

    def reachable(self, roots: Iterable[str]) -> Set[str]:
        seen: Set[str] = set()
        st = [r for r in roots]
        while st:
            q = st.pop()
            if q in seen:
                continue
            seen.add(q)
            for c in self.callees(q):
                if c not in seen:
                    st.append(c)
            # nested functions are reachable when their parent is (they are closures used by it)
            for k, fi in self.m.funcs.items():
                if fi.parent is not None and fi.parent.qualname == q and k not in seen:
                    st.append(k)
        return seen

    def sccs(self, nodes: Optional[Set[str]] = None, skip_edges: Optional[Set[Tuple[str, str]]] = None) -> List[List[str]]:
        nodes = set(self.edges) if nodes is None else nodes
        skip_edges = skip_edges or set()
        index: Dict[str, int] = {}
        low: Dict[str, int] = {}
        onst: Set[str] = set()
        st: List[str] = []
        out: List[List[str]] = []
        counter = [0]
        import sys

        sys.setrecursionlimit(10000)

        def strong(v: str) -> None:
            index[v] = low[v] = counter[0]
            counter[0] += 1
            st.append(v)
            onst.add(v)
            for w in self.callees(v):
                if w not in nodes or (v, w) in skip_edges:
                    continue
                if w not in index:
                    strong(w)
                    low[v] = min(low[v], low[w])
                elif w in onst:
                    low[v] = min(low[v], index[w])
            if low[v] == index[v]:
                comp = []
                while True:
                    w = st.pop()
                    onst.discard(w)
                    comp.append(w)
                    if w == v:
                        break
                out.append(comp)

        for v in sorted(nodes):
            if v not in index:
                strong(v)
        return out

"""Small helpers shared by the rule modules."""

from __future__ import annotations

import ast
import copy
from typing import Callable, Dict, Iterable, Iterator, List, Optional, Sequence, Set, Tuple

from .model import FuncInfo, Model, dotted, unparse, walk_no_nested


def fkey(f: FuncInfo) -> str:
    return f.qualname


def site(f: FuncInfo, node: Optional[ast.AST] = None) -> str:
    return f.site(node)


def body_stmts(f: FuncInfo) -> List[ast.stmt]:
    """Function body without the docstring."""
    body = list(f.node.body)  # type: ignore[attr-defined]
    if body and isinstance(body[0], ast.Expr) and isinstance(body[0].value, ast.Constant) and isinstance(body[0].value.value, str):
        body = body[1:]
    return body


def calls_named(node: ast.AST, *names: str) -> List[ast.Call]:
    """Calls whose dotted callee ends with one of names (e.g. 'self.device.set_ctm' or 'set_ctm')."""
    out = []
    for n in [node] + list(walk_no_nested(node)):
        if isinstance(n, ast.Call):
            d = dotted(n.func) or ""
            for nm in names:
                if d == nm or d.endswith("." + nm):
                    out.append(n)
                    break
    return out


def call_name(c: ast.Call) -> str:
    return dotted(c.func) or ""


def is_self_attr(e: ast.AST, attr: Optional[str] = None) -> bool:
    return isinstance(e, ast.Attribute) and isinstance(e.value, ast.Name) and e.value.id == "self" and (attr is None or e.attr == attr)


def assigned_targets(st: ast.AST) -> List[ast.AST]:
    """Flattened assignment targets of a statement."""
    out: List[ast.AST] = []

    def flat(t: ast.AST) -> None:
        if isinstance(t, (ast.Tuple, ast.List)):
            for e in t.elts:
                flat(e)
        elif isinstance(t, ast.Starred):
            flat(t.value)
        else:
            out.append(t)

    if isinstance(st, ast.Assign):
        for t in st.targets:
            flat(t)
    elif isinstance(st, (ast.AugAssign, ast.AnnAssign)):
        flat(st.target)
    elif isinstance(st, (ast.For, ast.AsyncFor)):
        flat(st.target)
    elif isinstance(st, (ast.With, ast.AsyncWith)):
        for it in st.items:
            if it.optional_vars is not None:
                flat(it.optional_vars)
    return out


def stores_in(node: ast.AST) -> Iterator[Tuple[ast.AST, ast.AST]]:
    """(statement, target) for every assignment-like store under node (no nested defs)."""
    for n in [node] + list(walk_no_nested(node)):
        if isinstance(n, (ast.Assign, ast.AugAssign, ast.AnnAssign, ast.For, ast.AsyncFor, ast.With, ast.AsyncWith)):
            for t in assigned_targets(n):
                yield n, t


def self_fields_written(f: FuncInfo, recv: str = "self") -> Dict[str, List[ast.AST]]:
    """Fields `recv.<a>[.<b>...]` written by assignment in f: dotted path (without recv) -> statements."""
    out: Dict[str, List[ast.AST]] = {}
    for st, t in stores_in(f.node):
        d = dotted(t) if isinstance(t, ast.Attribute) else None
        if d and d.startswith(recv + "."):
            out.setdefault(d[len(recv) + 1 :], []).append(st)
    return out


def unpack_aliases(f: FuncInfo) -> Dict[str, str]:
    """local name -> canonical expression text for locals bound exactly once by
    `(a, b, ...) = <expr>` or `a = <simple expr>`; used to make rules insensitive to local naming.
    e.g. `(x0, y0, x1, y1) = bbox` gives x0 -> 'bbox[0]'."""
    counts: Dict[str, int] = {}
    binds: Dict[str, str] = {}
    for st, t in stores_in(f.node):
        if isinstance(t, ast.Name):
            counts[t.id] = counts.get(t.id, 0) + 1
    params = set(f.params)
    for n in walk_no_nested(f.node):
        if isinstance(n, ast.Assign) and len(n.targets) == 1:
            tgt = n.targets[0]
            if isinstance(tgt, (ast.Tuple, ast.List)) and isinstance(n.value, (ast.Name, ast.Attribute)):
                src = unparse(n.value)
                for i, e in enumerate(tgt.elts):
                    if isinstance(e, ast.Name) and counts.get(e.id) == 1 and e.id not in params:
                        binds[e.id] = f"{src}[{i}]"
            elif isinstance(tgt, (ast.Tuple, ast.List)) and isinstance(n.value, (ast.Tuple, ast.List)) and len(tgt.elts) == len(n.value.elts):
                for e, v in zip(tgt.elts, n.value.elts):
                    if isinstance(e, ast.Name) and counts.get(e.id) == 1 and e.id not in params and isinstance(v, (ast.Name, ast.Attribute, ast.Constant)):
                        binds[e.id] = unparse(v)
            elif isinstance(tgt, ast.Name) and counts.get(tgt.id) == 1 and tgt.id not in params and isinstance(n.value, (ast.Name, ast.Attribute)):
                binds[tgt.id] = unparse(n.value)
    return binds


def param_unpack(f: FuncInfo, pname: str) -> Dict[str, str]:
    """Names bound by the first `(a, b, ...) = <pname>` in f -> 'pname[i]' (valid up to the first rebinding)."""
    for n in walk_no_nested(f.node):
        pass
    best = None
    for n in walk_no_nested(f.node):
        if isinstance(n, ast.Assign) and len(n.targets) == 1 and isinstance(n.targets[0], (ast.Tuple, ast.List)) and isinstance(n.value, ast.Name) and n.value.id == pname:
            if best is None or n.lineno < best.lineno:
                best = n
    out: Dict[str, str] = {}
    if best is not None:
        for i, e in enumerate(best.targets[0].elts):  # type: ignore[attr-defined]
            if isinstance(e, ast.Name):
                out[e.id] = f"{pname}[{i}]"
    return out


class _Subst(ast.NodeTransformer):
    def __init__(self, mapping: Dict[str, str]) -> None:
        self.mapping = mapping

    def visit_Name(self, node: ast.Name) -> ast.AST:
        if isinstance(node.ctx, ast.Load) and node.id in self.mapping:
            return ast.parse(self.mapping[node.id], mode="eval").body
        return node


def subst_names(e: ast.AST, mapping: Dict[str, str], rounds: int = 4) -> ast.AST:
    e = copy.deepcopy(e)
    for _ in range(rounds):
        before = ast.dump(e)
        e = _Subst(mapping).visit(e)
        ast.fix_missing_locations(e)
        if ast.dump(e) == before:
            break
    return e


def bool_operands(e: ast.AST, op: type) -> List[ast.AST]:
    """Flatten nested BoolOp of the given operator type."""
    if isinstance(e, ast.BoolOp) and isinstance(e.op, op):
        out: List[ast.AST] = []
        for v in e.values:
            out.extend(bool_operands(v, op))
        return out
    return [e]


def find_method_family(model: Model, cls_qn: str, prefix: str) -> Dict[str, FuncInfo]:
    out: Dict[str, FuncInfo] = {}
    for k in reversed(model.mro(cls_qn)):
        ci = model.classes.get(k)
        if ci:
            for name, f in ci.methods.items():
                if name.startswith(prefix):
                    out[name] = f
    return out


def first_stmt_matching(f: FuncInfo, pred: Callable[[ast.AST], bool]) -> Optional[ast.AST]:
    for n in walk_no_nested(f.node):
        if pred(n):
            return n
    return None


def const_value(e: ast.AST) -> object:
    if isinstance(e, ast.Constant):
        return e.value
    if isinstance(e, ast.UnaryOp) and isinstance(e.op, ast.USub) and isinstance(e.operand, ast.Constant):
        return -e.operand.value
    raise ValueError("not a constant")


def guard_conjuncts(f, node, innermost: bool = False) -> "set[str]":
    """The conditions under which `node` executes inside f, as a set of normalised conjunct texts: the tests of the
    enclosing if/elif/while statements (negated for else arms), `and`s split, double negations removed."""
    import ast as _ast

    from .equiv import _Expr, negate
    from .rules.tokenizer import _guard_tests

    out = set()
    tests = _guard_tests(f, node)
    if innermost:
        tests = tests[-1:]
    for test, pol in tests:
        t = _Expr().visit(_ast.parse(_ast.unparse(test), mode="eval").body)
        if not pol:
            t = negate(t)
        parts = t.values if isinstance(t, _ast.BoolOp) and isinstance(t.op, _ast.And) else [t]
        for p in parts:
            out.add("".join(_ast.unparse(p).split()))
    return out

"""C13 - damaged input: errors stay in the library's family and work stays bounded."""

from __future__ import annotations

import ast
from typing import Dict, List, Optional, Set, Tuple

from ..callgraph import CallGraph
from ..cfg import build_cfg, contains_call
from ..doctaint import DocTaint
from ..excflow import Event, ExcFlow
from ..model import AnchorMissing, FuncInfo, Model, dotted, unparse, walk_no_nested
from ..report import Report
from ..util import site
from .tokenizer import _guard_tests

ENTRY_POINTS = ["pdfminer.high_level.extract_text", "pdfminer.high_level.extract_pages", "pdfminer.high_level.extract_text_to_fp"]
FAMILY_ROOT = "pdfminer.psexceptions.PSException"

from .c13_ops import SAFE_OPS, S, make_ops  # noqa: E402


def in_family(model: Model, exc: str) -> bool:
    if exc == "AssertionError":
        return True  # accepted by the repository's own fuzz contract (fuzzing/extract_text_fuzzer.py)
    if exc in model.classes:
        return model.is_subclass(exc, FAMILY_ROOT)
    return False


def run(model: Model, rep: Report) -> None:
    rep.explanation = (
        "C13: over everything reachable from the three extraction entry points (resolved call graph) the check decides: every explicit raise is in "
        "the library's family; an exception-flow analysis (partial library operations and untyped uses of document values as origins, try handlers "
        "subtracting by the real class hierarchy, summaries to a fixpoint) lists what may escape the entry points outside the family; every "
        "recursive call site and reference-following loop has a guard, a structural-descent argument or is a recorded finding; loop bounds and "
        "allocation sizes taken from bare document integers are listed. The findings on today's tree are genuine defects recorded in "
        "known_findings.jsonl; any new origin is a violation. A numeric work bound is not decided."
    )
    rep.assumptions += ["the exception family is PSException's subclasses plus AssertionError (the repository's fuzz contract)", "document values are recognised by the accessor/parameter tables in sa/doctaint.py"]
    cg = CallGraph(model)
    rep.analysed.update(cg.stats)
    for e in ENTRY_POINTS:
        model.func(e)
    reach = cg.reachable(ENTRY_POINTS)
    rep.analysed["reachable_functions"] = len(reach)
    _raises(model, rep, reach)
    _escapes(model, rep, cg, reach)
    _recursion(model, rep, cg, reach)
    _amplification(model, rep, reach)
    _unbounded_walker_callers(model, rep, reach)
    _lenient_accessors(model, rep)
    _key_length_guard(model, rep)


# --------------------------------------------------------------------------- R1
ALLOWED_RAISE = {
    "ImportError": "missing optional Pillow: environment, not input",
}


def _raises(model: Model, rep: Report, reach: Set[str]) -> None:
    r1 = rep.rule("C13-R1", "EXC", "every explicit raise reachable from the entry points raises a member of the library's exception family", 80)
    for q in sorted(reach):
        f = model.funcs[q]
        if isinstance(f.node, ast.Lambda):
            continue
        for n in walk_no_nested(f.node):
            if not isinstance(n, ast.Raise):
                continue
            txt = " ".join(unparse(n).split())[:110]
            if n.exc is None:
                r1.ok(site(f, n), q, txt, note="re-raise", nontrivial=False)
                continue
            target = n.exc.func if isinstance(n.exc, ast.Call) else n.exc
            cls = model.resolve_expr(f.module, target, f.cls) or dotted(target) or "?"
            if cls not in model.classes and isinstance(target, ast.Attribute) and isinstance(target.value, ast.Name) and target.value.id in ("self", "cls") and f.cls is not None:
                # exception class nested in the raising class (ccitt: self.InvalidData)
                for k in model.mro(f.cls.qualname):
                    if f"{k}.{target.attr}" in model.classes:
                        cls = f"{k}.{target.attr}"
                        break
            if isinstance(n.exc, ast.Name) and cls not in model.classes and cls not in ("NotImplementedError",):
                # raise e (bound exception variable)
                r1.ok(site(f, n), q, txt, note="re-raise of a caught exception", nontrivial=False)
                continue
            if in_family(model, cls):
                r1.ok(site(f, n), q, txt)
            elif cls in ALLOWED_RAISE:
                r1.safe(site(f, n), q, txt, ALLOWED_RAISE[cls])
            elif cls == "NotImplementedError":
                # abstract stub: acceptable iff some subclass overrides it
                over = f.cls is not None and len(model.overrides(f.cls.qualname, f.name)) > 1
                if over or (f.cls is not None and f.cls.name == "DecipherCallable"):
                    r1.safe(site(f, n), q, txt, "abstract stub overridden in the concrete subclasses")
                else:
                    r1.violation(site(f, n), q, txt, "NotImplementedError raised in concrete code: outside the documented exception family")
            else:
                r1.violation(site(f, n), q, txt, f"raises {cls}: outside the library's exception family (PSException subclasses)")


def _strict_test(model: Model):
    """`settings.STRICT` is the constant False of pdfminer/settings.py (checked): strict-mode branches are not taken."""
    from ..fold import Folder, Unfoldable

    sm = model.module("pdfminer.settings")
    try:
        val = Folder(model).fold(sm, sm.assigns["STRICT"])
    except (KeyError, Unfoldable):
        raise AnchorMissing("pdfminer.settings.STRICT not found")

    def test(f: FuncInfo, t: ast.AST) -> Optional[bool]:
        if val is not False:
            return None
        txt = unparse(t)
        if txt in ("settings.STRICT", "strict"):
            return False if txt == "settings.STRICT" else None
        if isinstance(t, ast.BoolOp) and isinstance(t.op, ast.And) and any(unparse(v) == "settings.STRICT" for v in t.values):
            return False
        if isinstance(t, ast.UnaryOp) and isinstance(t.op, ast.Not) and unparse(t.operand) == "settings.STRICT":
            return True
        return None

    return test


# --------------------------------------------------------------------------- R2
VECTOR_ALIASES = ("Matrix", "Rect", "Point")
_VECTOR_ADDED: Set[Tuple[str, str]] = set()


def _kind_at(f: FuncInfo, dtf, a: ast.AST, call: ast.AST) -> Optional[str]:
    """Kind of argument `a` where `call` is made: the kinds of doctaint are per name, not per program point, so a parameter
    that is re-bound before the call (bbox = apply_matrix_rect(matrix, rect)) is judged by the value it was last given; a
    tuple display of document values has a known length (VEC): unpacking it cannot fail, using its elements can."""
    src = a
    if isinstance(a, ast.Name):
        prev = [n for n in walk_no_nested(f.node) if isinstance(n, ast.Assign) and len(n.targets) == 1 and isinstance(n.targets[0], ast.Name) and n.targets[0].id == a.id and n.lineno < getattr(call, "lineno", 0)]
        if prev:
            src = max(prev, key=lambda n: n.lineno).value
        elif any(isinstance(n, ast.Assign) and any(isinstance(t, ast.Name) and t.id == a.id for t in n.targets) for n in walk_no_nested(f.node)):
            return dtf.kind(a)
        else:
            return dtf.kind(a)
    if isinstance(src, (ast.Tuple, ast.List)):
        ks = {dtf.kind(x) for x in src.elts}
        return "VEC" if ks & {"RAW", "LIST", "DICT"} else None
    if src is not a and isinstance(src, ast.Name):
        return dtf.kind(src)
    return dtf.kind(src)


def _vector_params(model: Model, cg: CallGraph, reach: Set[str]) -> Dict[str, Dict[str, str]]:
    """Document lists that reach a helper through a parameter.  The kinds of doctaint are per function; a parameter annotated
    Matrix / Rect / Point promises a tuple of numbers of the right length, which holds only if every caller made it one.  Where
    a caller passes a value whose kind is still LIST / RAW (list_value(xobj.get('Matrix', ...)) - a list of whatever the
    document wrote), the parameter takes that kind, so the unpacking and the arithmetic inside the helper are partial
    operations on document values like anywhere else.  Iterated: begin_figure(bbox, matrix) hands both on."""
    from ..doctaint import PARAM_KIND, DocTaint

    # PARAM_KIND is a module-level table: what an earlier model in the same process (a self-test variant) added is taken back
    for (q0, p0) in list(_VECTOR_ADDED):
        PARAM_KIND.get(q0, {}).pop(p0, None)
        if q0 in PARAM_KIND and not PARAM_KIND[q0]:
            del PARAM_KIND[q0]
    _VECTOR_ADDED.clear()
    added: Dict[str, Dict[str, str]] = {}
    for _ in range(5):
        changed = False
        for q in sorted(reach):
            f = model.funcs.get(q)
            if f is None or isinstance(f.node, ast.Lambda):
                continue
            dtf = DocTaint(f)
            for (c, callees, status) in cg.edges.get(q, []):
                if status != "resolved" or not getattr(c, "args", None) and not getattr(c, "keywords", None):
                    continue
                for g in callees:
                    if isinstance(g.node, ast.Lambda) or not g.qualname.startswith("pdfminer."):
                        continue
                    ga = g.node.args  # type: ignore[attr-defined]
                    ps = [a for a in ga.posonlyargs + ga.args]
                    off = 0
                    if ps and ps[0].arg in ("self", "cls"):
                        explicit_self = bool(c.args) and isinstance(c.args[0], ast.Name) and c.args[0].id == "self" and isinstance(c.func, ast.Attribute) and isinstance(c.func.value, ast.Name) and c.func.value.id in {cq.split(".")[-1] for cq in model.classes}
                        off = 0 if explicit_self else 1
                    bind = []
                    for i, a in enumerate(c.args):
                        if isinstance(a, ast.Starred):
                            break
                        if i + off < len(ps):
                            bind.append((ps[i + off], a))
                    for kw in c.keywords:
                        for p_ in ps + list(ga.kwonlyargs):
                            if kw.arg == p_.arg:
                                bind.append((p_, kw.value))
                    for p_, a in bind:
                        ann = ast.unparse(p_.annotation) if p_.annotation is not None else ""
                        if ann.strip("'\"") not in VECTOR_ALIASES:
                            continue
                        k = _kind_at(f, dtf, a, c)
                        if k in ("LIST", "RAW", "VEC") and PARAM_KIND.get(g.qualname, {}).get(p_.arg) != k:
                            PARAM_KIND.setdefault(g.qualname, {})[p_.arg] = k
                            _VECTOR_ADDED.add((g.qualname, p_.arg))
                            added.setdefault(g.qualname, {})[p_.arg] = f"{k} from {q.split('.')[-1]}: {ast.unparse(a)[:50]}"
                            changed = True
        if not changed:
            break
    return added


def _escapes(model: Model, rep: Report, cg: CallGraph, reach: Set[str]) -> None:
    r2 = rep.rule("C13-R2", "EXC", "no internal error (type/index/key/struct/value/...) can escape the extraction entry points", 40)
    vp = _vector_params(model, cg, reach)
    rep.analysed["vector_parameters_fed_with_document_lists"] = {k: v for k, v in sorted(vp.items())}
    ops = make_ops(model)
    xf = ExcFlow(model, cg.r, ops, scope=reach, include_assert=False, dead_test=_strict_test(model), implicit=cg.implicit)
    xf.solve()
    seen: Dict[Tuple[str, str], Event] = {}
    excs: Dict[Tuple[str, str], Set[str]] = {}
    for ep in ENTRY_POINTS:
        for ev in xf.escapes(ep):
            if in_family(model, ev.exc):
                continue
            # explicit raises are R1's business
            if ev.construct.startswith("raise "):
                continue
            k = (ev.func, ev.construct)
            seen.setdefault(k, ev)
            excs.setdefault(k, set()).add(ev.exc.split(".")[-1] if ev.exc.startswith("pdfminer") else ev.exc)
    # every partial operation found in reachable code, handled or not
    handled = 0
    for q in reach:
        for (ev, h) in xf.handled.get(q, []):
            if not ev.construct.startswith("raise "):
                handled += 1
    rep.analysed["partial_operations_guarded_by_handlers"] = handled
    rep.analysed["escaping_origins"] = len(seen)
    for (fn, construct), ev in sorted(seen.items()):
        r2.violation(ev.site, fn, construct, f"{'/'.join(sorted(excs[(fn, construct)]))} can escape the extraction entry points" + (f" (via {' <- '.join(ev.chain[:3])})" if ev.chain else ""))
    # guarded / safe origins: report as discharged obligations (sampled by function)
    done = set()
    for q in sorted(reach):
        for (ev, h) in xf.handled.get(q, []):
            k = (ev.func, ev.construct, ev.exc)
            if k in done or ev.construct.startswith("raise ") or (ev.func, ev.construct) in seen:
                continue
            done.add(k)
            r2.ok(ev.site, ev.func, ev.construct, note=f"{ev.exc.split('.')[-1]} caught by `{h}` in {q.split('.')[-1]}")
    for (fn, construct), reason in sorted(SAFE_OPS.items()):
        if fn in reach:
            r2.safe(fn, fn, construct, reason)


# --------------------------------------------------------------------------- R3
REC_WITNESS: Dict[Tuple[str, str], str] = {}


def W(caller: str, callee: str, reason: str) -> None:
    REC_WITNESS[(caller, callee)] = reason


P = "pdfminer."
W(P + "layout.IndexAssigner.run", P + "layout.IndexAssigner.run", "descends the text-group tree built by the library itself (finite, acyclic: groups are created bottom-up)")
W(P + "cmapdb.CMap.use_cmap.copy", P + "cmapdb.CMap.use_cmap.copy", "descends the nested dictionaries of a CMap code table (library data / parsed literal, no references)")
W(P + "cmapdb.CMap.dump", P + "cmapdb.CMap.dump", "descends the nested dictionaries of a CMap code table")
W(P + "pdftypes.decipher_all", P + "pdftypes.decipher_all", "descends a parser-built value without resolving references (strict sub-term)")
W(P + "encodingdb.name2unicode", P + "encodingdb.name2unicode", "recurses only on the components of a name that contains '_' (strictly shorter strings)")
for _c in ("XMLConverter", "HTMLConverter", "TextConverter", "HOCRConverter"):
    W(P + f"converter.{_c}.receive_layout.render", P + f"converter.{_c}.receive_layout.render", "descends the layout tree built by the library (finite)")
    W(P + f"converter.{_c}.receive_layout.show_group", P + f"converter.{_c}.receive_layout.show_group", "descends the text-group tree built by the library (finite)")


def _recursion(model: Model, rep: Report, cg: CallGraph, reach: Set[str]) -> None:
    r3 = rep.rule("C13-R3", "REC", "every call cycle / reference-following loop reachable from the entry points has a guard or descends a finite structure", 15)
    # 1. classify every call edge between reachable functions that lies on a cycle
    sccs = cg.sccs(reach)
    comp: Dict[str, int] = {}
    for i, c in enumerate(sccs):
        for q in c:
            comp[q] = i
    rep.analysed["recursive_components"] = sorted((len(c) for c in sccs if len(c) > 1), reverse=True)
    cut: Set[Tuple[str, str]] = set()  # edges discharged by a guard / structural argument
    self_sites: List[Tuple[FuncInfo, ast.Call, FuncInfo]] = []
    for q in sorted(reach):
        f = model.funcs[q]
        for (call, callees, status) in cg.edges.get(q, []):
            for g in callees:
                if g.qualname not in comp or comp[g.qualname] != comp.get(q):
                    continue
                if g.qualname != q and len(sccs[comp[q]]) == 1:
                    continue
                key = (q, g.qualname)
                construct = f"{q.split('.', 2)[-1]} -> {g.qualname.split('.', 2)[-1]}: {unparse(call)[:70]}"
                st = site(f, call)
                guard = _visited_guard(f, call)
                if guard:
                    r3.ok(st, q, construct, note=f"guarded by {guard}")
                    cut.add(key)
                    continue
                if q.startswith(P + "layout.") and g.qualname.startswith(P + "layout."):
                    r3.ok(st, q, construct, note="walks the layout tree built by the library itself (finite, acyclic)", nontrivial=False)
                    cut.add(key)
                    continue
                if q.endswith("PDFLayoutAnalyzer.paint_path") and g.qualname.endswith(".paint_path"):
                    arg = unparse(call.args[4]) if len(call.args) > 4 else ""
                    multi = any(pol and "shape.count('m') > 1" in unparse(t) for t, pol in _guard_tests(f, call))
                    if arg == "subpath" and multi:
                        r3.ok(st, q, construct, note="recurses on a strictly shorter sub-path (only when the path has several m)")
                        cut.add(key)
                        continue
                if key in REC_WITNESS:
                    r3.safe(st, q, construct, REC_WITNESS[key])
                    cut.add(key)
                    continue
                if g.qualname == q:
                    self_sites.append((f, call, g))
    # 2. self-recursive call sites without a guard
    for (f, call, g) in self_sites:
        construct = f"{f.qualname.split('.', 2)[-1]} -> itself: {unparse(call)[:70]}"
        r3.violation(site(f, call), f.qualname, construct, "recursive call without a visited/in-progress guard or depth bound: a reference cycle in the document drives it until RecursionError")
    # 3. residual multi-function cycles: SCCs of the graph without the discharged edges
    self_edges = {(f.qualname, f.qualname) for (f, _, _) in self_sites}
    residual = cg.sccs(reach, skip_edges=cut | self_edges)
    for c in residual:
        if len(c) < 2:
            continue
        members = set(c)
        indeg = {q: 0 for q in c}
        for q in c:
            for w in cg.callees(q):
                if w in members and (q, w) not in cut and w != q:
                    indeg[w] += 1
        rep_q = sorted(c, key=lambda q: (-indeg[q], q))[0]
        # shortest cycle through the representative, for the report
        prev: Dict[str, Optional[str]] = {rep_q: None}
        order = [rep_q]
        cyc: List[str] = []
        while order and not cyc:
            v = order.pop(0)
            for w in sorted(cg.callees(v)):
                if w not in members or (v, w) in cut:
                    continue
                if w == rep_q:
                    x: Optional[str] = v
                    while x is not None:
                        cyc.append(x)
                        x = prev[x]
                    cyc.reverse()
                    break
                if w not in prev:
                    prev[w] = v
                    order.append(w)
        f = model.funcs[rep_q]
        path = " -> ".join(x.split(".", 2)[-1] for x in cyc + [rep_q])
        r3.violation(site(f), rep_q, f"unguarded call cycle through {rep_q.split('.', 2)[-1]}", f"{len(c)} functions call each other with no visited/in-progress set or depth bound on the cycle, e.g. {path}: a reference cycle in the document recurses until RecursionError")
    # 4. reference-following loops
    for q in sorted(reach):
        f = model.funcs[q]
        if isinstance(f.node, ast.Lambda):
            continue
        for n in walk_no_nested(f.node):
            if isinstance(n, ast.While) and "isinstance(" in unparse(n.test) and "PDFObjRef" in unparse(n.test):
                body = " ".join(unparse(s_) for s_ in n.body)
                bounded = any(isinstance(s_, ast.If) and ("seen" in unparse(s_.test) or "visited" in unparse(s_.test) or "depth" in unparse(s_.test)) for s_ in walk_no_nested(n))
                if bounded:
                    r3.ok(site(f, n), q, f"while {unparse(n.test)}: {body[:50]}", note="bounded by a seen-set/depth test")
                else:
                    r3.violation(site(f, n), q, f"while {unparse(n.test)}: {body[:50]}", "follows references until a non-reference is found: `n 0 obj n 0 R endobj` makes it spin forever")


def _visited_guard(f: FuncInfo, call: ast.Call) -> Optional[str]:
    """`if x in <set>: return/continue/raise` dominating the call and `<set>.add(x)` before it."""
    g = build_cfg(f.node, exc_edges=False)
    tgt = None
    for n in g.nodes:
        if n.ast is not None and n.kind in ("stmt", "test", "for") and any(x is call for x in ast.walk(n.ast if n.kind != "for" else n.ast.iter)):  # type: ignore[attr-defined]
            tgt = n.id
            break
    if tgt is None:
        return None
    dom = g.dominators()
    for d in dom.get(tgt, set()):
        n = g.nodes[d]
        if n.kind == "test" and isinstance(n.ast, ast.Compare) and isinstance(n.ast.ops[0], (ast.In, ast.NotIn)):
            setname = unparse(n.ast.comparators[0])
            adds = [m for m in dom.get(tgt, set()) if g.nodes[m].kind == "stmt" and g.nodes[m].ast is not None and contains_call(g.nodes[m].ast, lambda c: (dotted(c.func) or "") == f"{setname}.add")]
            if adds:
                return f"`{unparse(n.ast)}` + {setname}.add(...)"
    return None


# --------------------------------------------------------------------------- R4
SAFE_AMP: Dict[Tuple[str, str], str] = {
    (P + "pdfdocument.PDFXRef.load", "range(start, start + nobjs)"): "each iteration consumes one input line and the loop leaves with PDFNoValidXRef at end of input: work is bounded by the file size",
    (P + "pdfdocument.PDFXRefFallback.load", "range(n)"): "n was clamped to len(objs) // 2: bounded by the object-stream data",
}


def _amplification(model: Model, rep: Report, reach: Set[str]) -> None:
    r4 = rep.rule("C13-R4", "AMP", "no loop trip count or allocation size is a bare document integer", 1)
    for q in sorted(reach):
        f = model.funcs[q]
        if isinstance(f.node, ast.Lambda):
            continue
        dt = DocTaint(f)
        for n in walk_no_nested(f.node):
            # range(<doc int>) as a loop bound
            if isinstance(n, (ast.For, ast.comprehension)) and isinstance(n.iter, ast.Call) and (dotted(n.iter.func) or "") == "range":
                args = n.iter.args
                if any(dt.kind(a) in ("RAW", "NUM") for a in args):
                    c = " ".join(unparse(n.iter).split())
                    _amp_report(r4, f, n.iter, c, "loop bound", body=n)
            # sequence repetition  x * <doc int>
            if isinstance(n, ast.BinOp) and isinstance(n.op, ast.Mult):
                for seq, cnt in ((n.left, n.right), (n.right, n.left)):
                    if isinstance(seq, (ast.List, ast.Constant)) and (isinstance(seq, ast.List) or isinstance(getattr(seq, "value", None), (bytes, str))) and dt.kind(cnt) in ("RAW", "NUM"):
                        _amp_report(r4, f, n, " ".join(unparse(n).split()), "allocation size")


def _amp_report(r4, f: FuncInfo, node: ast.AST, construct: str, what: str, body: Optional[ast.AST] = None) -> None:
    key = (f.qualname, construct)
    if key in SAFE_AMP:
        r4.safe(site(f, node), f.qualname, construct, SAFE_AMP[key])
        return
    # a loop whose body reads the input with a size-checked read that raises at end of input is bounded by the file
    if body is not None and isinstance(body, ast.For):
        src = unparse(body)
        if ("struct.unpack" in src and ".read(" in src) and _enclosed_by_struct_handler(f, body):
            r4.safe(site(f, node), f.qualname, construct, "every iteration unpacks a fixed-size read; a short read raises struct.error, which is handled: bounded by the data size")
            return
    r4.violation(site(f, node), f.qualname, construct, f"{what} taken from a document integer without a bound: work/memory is not proportional to the input size")


def _enclosed_by_struct_handler(f: FuncInfo, node: ast.AST) -> bool:
    for n in walk_no_nested(f.node):
        if isinstance(n, ast.Try) and any(x is node for b in n.body for x in ast.walk(b)):
            if any(h.type is not None and "struct.error" in unparse(h.type) for h in n.handlers):
                return True
    return False


# --------------------------------------------------------------------------- R5 / R6
def _lenient_accessors(model: Model, rep: Report) -> None:
    lenient_accessors_rule(model, rep, "C13-R5")


def lenient_accessors_rule(model: Model, rep: Report, rid: str) -> None:
    """The safe_* converters hand back only what they converted - never a raw operand - and in the order given.  They are the
    type barrier between content-stream operands and the arithmetic / colours of the interpreter."""
    r5 = rep.rule(rid, "DEPEND", "casting.safe_*: every returned component is the converted value of the parameter in the same position (no raw operand, no re-ordering, no other function of the operands)", 5)
    CONV = {"safe_float", "safe_int", "float", "int"}
    for q, f in sorted(model.funcs.items()):
        if not q.startswith("pdfminer.casting.") or isinstance(f.node, ast.Lambda) or f.name in ("safe_int", "safe_float"):
            continue
        params = set(f.params)
        conv_locals = set()
        for n in walk_no_nested(f.node):
            if isinstance(n, ast.Assign) and isinstance(n.value, ast.Call) and (dotted(n.value.func) or "").split(".")[-1] in CONV:
                conv_locals |= {t.id for t in n.targets if isinstance(t, ast.Name)}
        for ret in [n for n in walk_no_nested(f.node) if isinstance(n, ast.Return) and n.value is not None]:
            v = ret.value
            if isinstance(v, ast.Constant):
                r5.ok(site(f, ret), q, unparse(ret), nontrivial=False)
                continue
            if isinstance(v, ast.Call):
                callee = (dotted(v.func) or "").split(".")[-1]
                ok = callee.startswith(("safe_", "_safe_")) or callee in CONV
                r5.check(ok, site(f, ret), q, unparse(ret)[:80], why=f"returns the result of `{callee}`, which is not one of the converters")
                continue
            elts = v.elts if isinstance(v, ast.Tuple) else [v]
            # positional: the k-th component is the local converted from the k-th parameter
            src_of = {}
            for n2 in walk_no_nested(f.node):
                if isinstance(n2, ast.Assign) and isinstance(n2.value, ast.Call) and (dotted(n2.value.func) or "").split(".")[-1] in CONV and n2.value.args and isinstance(n2.value.args[0], ast.Name):
                    for t2 in n2.targets:
                        if isinstance(t2, ast.Name):
                            src_of[t2.id] = n2.value.args[0].id
            plist = [p_ for p_ in f.params]
            if isinstance(v, ast.Tuple) and len(elts) == len(plist):
                order_bad = [unparse(e) for k_, e in enumerate(elts) if not (isinstance(e, ast.Name) and src_of.get(e.id) == plist[k_])]
                if order_bad:
                    r5.violation(site(f, ret), q, unparse(ret)[:80], f"component(s) {order_bad} are not the converted parameter of the same position: colours / rectangles come out re-ordered or altered (this helper also serves the CMYK operators)")
                    continue
            raw = [unparse(e) for e in elts if not (isinstance(e, ast.Name) and e.id in conv_locals)]
            r5.check(not raw, site(f, ret), q, unparse(ret)[:80], why=f"component(s) {raw} are not converted values" + (": a raw operand (for example the string `(20)`, which float() accepts) flows into matrix arithmetic and raises TypeError there" if any(x in params for x in raw) else ""))


RESOLVE_ALL_CALLERS = {
    "pdfminer.pdffont.PDFFont.__init__": "the /Widths array of a simple font (recorded with the walker's own finding)",
    "pdfminer.pdffont.PDFFont._parse_bbox": "the /FontBBox array",
    "pdfminer.pdftypes.resolve_all": "the walker itself",
}


def _unbounded_walker_callers(model: Model, rep: Report, reach: Set[str]) -> None:
    """resolve_all follows references through lists and dictionaries without a visited set or a depth bound: that is a
    recorded finding (C13-R3).  It stays a finding of *two* entry points only as long as nobody else feeds it: every further
    caller hands one more document value - which may contain a reference to itself - to the unbounded recursion."""
    r = rep.rule("C13-R10", "WHOCALLS", "the unbounded recursive walker resolve_all is called from the reviewed sites only (a new caller is a new way to exhaust the recursion limit with a self-referencing value)", 2)
    n = 0
    for q, f in sorted(model.funcs.items()):
        if isinstance(f.node, ast.Lambda) or not q.startswith("pdfminer."):
            continue
        for c in walk_no_nested(f.node):
            if isinstance(c, ast.Call) and (dotted(c.func) or "").split(".")[-1] == "resolve_all":
                n += 1
                if q in RESOLVE_ALL_CALLERS:
                    r.ok(site(f, c), q, unparse(c)[:80], note=RESOLVE_ALL_CALLERS[q])
                else:
                    r.violation(site(f, c), q, unparse(c)[:80], "a further document value is handed to resolve_all, which recurses through lists, dictionaries and references with no visited set and no depth bound: an array that contains a reference to itself (7 0 obj [7 0 R]) or is nested a few thousand deep raises RecursionError here")
    if n < 2:
        raise AnchorMissing("calls of resolve_all not found")


def _key_length_guard(model: Model, rep: Report) -> None:
    """C13-R6: an RC4 key of zero octets makes Arcfour's key schedule divide by zero; the octet count comes from the
    document's /Length.  Every computation of it is checked (n >= 1) before the key is cut, or runs only after a call that
    performed that check on the same handler."""
    from ..cfg import build_cfg

    r8 = rep.rule("C13-R8", "AMP", "counting loops make progress: in every `while i < n` style loop whose test compares a local counter, each way round the loop (including `continue` and exception handlers that carry on) re-assigns the counter", 2)
    from ..cfg import build_cfg as _bcfg

    for q8, f8 in sorted(model.funcs.items()):
        if f8.parent is not None or isinstance(f8.node, ast.Lambda) or f8.module.name.split(".")[-1] in ("glyphlist", "fontmetrics"):
            continue
        for w in walk_no_nested(f8.node):
            if not (isinstance(w, ast.While) and isinstance(w.test, ast.Compare) and len(w.test.ops) == 1 and isinstance(w.test.ops[0], (ast.Lt, ast.LtE, ast.Gt, ast.GtE))):
                continue
            cands8 = [x for x in (w.test.left, w.test.comparators[0]) if isinstance(x, ast.Name)]
            # the counter: a compared name that the body assigns at all
            ctr = [x.id for x in cands8 if any(isinstance(n, ast.Name) and isinstance(n.ctx, ast.Store) and n.id == x.id for st in w.body for n in ast.walk(st))]
            if len(ctr) != 1:
                continue
            c8 = ctr[0]
            frag = ast.FunctionDef(name="_body", args=ast.arguments(posonlyargs=[], args=[], kwonlyargs=[], kw_defaults=[], defaults=[]), body=w.body, decorator_list=[], lineno=w.lineno, col_offset=0)
            g8 = _bcfg(frag, exc_edges=True)

            def writes(nd, c8=c8) -> bool:
                a = nd.ast
                if a is None:
                    return False
                if nd.kind in ("test", "for", "with", "handler"):
                    tgt = getattr(a, "target", None) if nd.kind == "for" else None
                    return tgt is not None and any(isinstance(n, ast.Name) and n.id == c8 for n in ast.walk(tgt))
                return any(isinstance(n, ast.Name) and isinstance(n.ctx, ast.Store) and n.id == c8 for n in ast.walk(a))

            wit8 = g8.all_path_pass(g8.entry, writes)
            # a path that leaves the loop (break / return / raise) needs no progress
            leaves8 = wit8 is not None and any(g8.nodes[x].kind == "raise" or isinstance(g8.nodes[x].ast, (ast.Break, ast.Return, ast.Raise)) for x in wit8)
            r8.check(wit8 is None or leaves8, site(f8, w), f8.qualname, f"`while {unparse(w.test)}`: every way round re-assigns `{c8}`", why=f"a path through the body returns to the test without touching `{c8}` (e.g. a `continue` in an exception handler): with the same state the same path is taken again - the loop never ends")
    r7 = rep.rule("C13-R7", "GUARD", "choplist(n, seq) yields full groups of n only (a short tail is dropped): every `for a, b in choplist(2, ...)` / `for a, b, c in choplist(3, ...)` over document data relies on it to unpack", 1)
    cl = model.func("pdfminer.utils.choplist")
    ys = [n for n in walk_no_nested(cl.node) if isinstance(n, (ast.Yield, ast.YieldFrom))]
    if not ys:
        raise AnchorMissing("utils.choplist: no yield")
    from ..util import guard_conjuncts

    npar = cl.params[0]
    for y in ys:
        g7 = guard_conjuncts(cl, y)
        full = any(x in g7 for x in (f"len(r)=={npar}", f"{npar}==len(r)")) and isinstance(y, ast.Yield) and y.value is not None and "".join(unparse(y.value).split()) == "tuple(r)"
        r7.check(full, site(cl, y), cl.qualname, f"`{unparse(y)[:40]}` runs under len(r) == {npar}", why=f"conditions {sorted(g7)}: a group shorter than {npar} can be yielded, and the tuple-unpacking loops over choplist raise ValueError on a token list whose length is not a multiple of the group size")
    r6 = rep.rule("C13-R6", "GUARD", "the RC4 key length taken from /Length is checked to be at least one octet before a key of that length is used, on every way to its use", 2)
    H = "pdfminer.pdfdocument.PDFStandardSecurityHandler"
    guarded_funcs = set()
    sites = []
    for mname, f in sorted(model.cls(H).methods.items()):
        for n in walk_no_nested(f.node):
            if isinstance(n, ast.Assign) and isinstance(n.targets[0], ast.Name) and "".join(unparse(n.value).split()) == "self.length//8":
                sites.append((f, n))
    if len(sites) < 2:
        raise AnchorMissing("security handler: key length computations not found")

    def guarded_here(f: FuncInfo, asg: ast.Assign) -> bool:
        v = asg.targets[0].id  # type: ignore[union-attr]
        g = build_cfg(f.node, exc_edges=False)
        nid = g.node_of(asg)
        if nid is None:
            return False

        def is_guard(nd) -> bool:
            return nd.kind == "test" and nd.ast is not None and "".join(unparse(nd.ast).split()) in (f"{v}<1", f"{v}<=0", f"1>{v}", f"not{v}") and any(isinstance(g.nodes[m].ast, ast.Raise) for (m, lab) in g.succ[nd.id] if lab == "true")

        return g.all_path_pass(nid, is_guard) is None

    for f, asg in sites:
        if guarded_here(f, asg):
            guarded_funcs.add(f.name)
    for f, asg in sites:
        if f.name in guarded_funcs:
            r6.ok(site(f, asg), f.qualname, f"{unparse(asg)} followed by the `< 1` check on every path")
            continue
        # unguarded here: every call of f inside the class must be dominated by a call that reaches a guarded function
        ok_all = True
        callers = 0
        why = ""
        for g_name, gfn in model.cls(H).methods.items():
            calls = [c for c in walk_no_nested(gfn.node) if isinstance(c, ast.Call) and (dotted(c.func) or "") == f"self.{f.name}"]
            if not calls:
                continue
            cg_ = build_cfg(gfn.node, exc_edges=False)
            dom = cg_.dominators()
            for c in calls:
                callers += 1
                tgt = next((n.id for n in cg_.nodes if n.ast is not None and n.kind in ("stmt", "test") and any(x is c for x in ast.walk(n.ast))), None)
                pre = [d for d in dom.get(tgt, set()) if d != tgt and cg_.nodes[d].ast is not None and any(isinstance(x, ast.Call) and (dotted(x.func) or "").startswith("self.") and _reaches_guarded(model, H, (dotted(x.func) or "")[5:], guarded_funcs, set()) for x in ast.walk(cg_.nodes[d].ast))]
                if not pre:
                    ok_all = False
                    why = f"`{gfn.name}` calls {f.name} without first calling a function that validates the key length"
        r6.check(ok_all and callers > 0, site(f, asg), f.qualname, f"{unparse(asg)}: unchecked here, but only reached after the key length was validated", why=why or "no caller found" + ": a /Length that is not a number (or below 8) gives a key of zero octets and ZeroDivisionError in Arcfour.__init__")


def _reaches_guarded(model: Model, cls: str, name: str, guarded: Set[str], seen: Set[str]) -> bool:
    if name in guarded:
        return True
    if name in seen:
        return False
    seen.add(name)
    f = model.cls(cls).methods.get(name)
    if f is None:
        return False
    # the first statement-level calls of f (a callee that is always executed): approximate by calls in the unconditional prefix
    for st in f.node.body:  # type: ignore[attr-defined]
        if isinstance(st, (ast.If, ast.For, ast.While, ast.Try)):
            break
        for c in ast.walk(st):
            if isinstance(c, ast.Call) and (dotted(c.func) or "").startswith("self.") and _reaches_guarded(model, cls, (dotted(c.func) or "")[5:], guarded, seen):
                return True
    return False

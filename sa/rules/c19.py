"""C19 - CCITT Group 4 decoding inverts a conforming encoder for every bitmap."""

from __future__ import annotations

import ast
import json
import os
from fractions import Fraction
from typing import Dict, List, Tuple

from ..model import AnchorMissing, Model, dotted, unparse, walk_no_nested
from ..report import VERIF, Report
from ..util import site

C = "pdfminer.ccitt."


def tables(model: Model) -> Dict[str, List[Tuple[object, str, int]]]:
    cls = model.cls(C + "CCITTG4Parser")
    out: Dict[str, List[Tuple[object, str, int]]] = {}
    for st in cls.node.body:
        if isinstance(st, ast.Expr) and isinstance(st.value, ast.Call) and (dotted(st.value.func) or "") == "BitParser.add" and len(st.value.args) == 3:
            root, v, bits = st.value.args
            try:
                out.setdefault(unparse(root), []).append((ast.literal_eval(v), ast.literal_eval(bits), st.lineno))
            except ValueError:
                raise AnchorMissing(f"BitParser.add call at line {st.lineno} is not literal")
    return out


def _wrapped(fn, call: ast.Call) -> bool:
    """`call` is the direct argument of a resolving accessor somewhere in fn."""
    for n in ast.walk(fn.node):
        if isinstance(n, ast.Call) and (dotted(n.func) or "") in ("resolve1", "int_value", "bool_value", "num_value") and n.args and n.args[0] is call:
            return True
    return False


def run(model: Model, rep: Report) -> None:
    rep.explanation = (
        "C19: the MODE, WHITE and BLACK code sets are reconstructed from the BitParser.add calls of the class body and compared, entry by entry, "
        "with the ITU-T T.4 / T.6 tables; independently of any transcription each set must be prefix-free with Kraft sum exactly 255/256 (a "
        "complete code tree except the all-zero prefix reserved for EOL) and the extended make-up codes must coincide in both colours; the mode "
        "dispatch covers every mode class; decoder parameters are bound from the filter parameters; reader and writer use the same bit order. "
        "The reference-line arithmetic of the vertical/pass/horizontal modes is not decided."
    )
    with open(os.path.join(VERIF, "spec", "ccitt_codes.json")) as f:
        spec = json.load(f)
    tabs = tables(model)
    for need in ("MODE", "WHITE", "BLACK"):
        if need not in tabs:
            raise AnchorMissing(f"CCITTG4Parser.{need} table not found")
    cls = model.cls(C + "CCITTG4Parser")
    st0 = f"pdfminer/ccitt.py:{cls.node.lineno}:CCITTG4Parser"
    # ---------------------------------------------------------------- R1
    r1 = rep.rule("C19-R1", "TABLE", "code tables equal ITU-T T.4/T.6; prefix-free; Kraft sums 255/256; extended make-up codes shared", 200)
    for name in ("MODE", "WHITE", "BLACK"):
        got = {v: b for (v, b, _) in tabs[name]}
        lines = {v: ln for (v, b, ln) in tabs[name]}
        want = {(a if not (isinstance(a, str) and a.lstrip("+-").isdigit()) else int(a)): b for a, b in spec[name]}
        for v, b in sorted(want.items(), key=lambda kv: str(kv[0])):
            g = got.get(v)
            r1.check(g == b, f"pdfminer/ccitt.py:{lines.get(v, cls.node.lineno)}:CCITTG4Parser.{name}", C + "CCITTG4Parser." + name, f"{name}[{v!r}] == {b}", why=f"source has {g!r}")
        extra = sorted(str(k) for k in set(got) - set(want))
        r1.check(not extra and len(tabs[name]) == len(want), st0, C + "CCITTG4Parser." + name, f"{name} has exactly the {len(want)} code words of the standard", why=f"extra values {extra}; {len(tabs[name])} add() calls (a duplicate overwrites a code)")
        codes = [b for (_, b, _) in tabs[name]]
        pf = [(a, b) for a in codes for b in codes if a != b and b.startswith(a)]
        dup = len(set(codes)) != len(codes)
        r1.check(not pf and not dup and all(set(c) <= {"0", "1"} and c for c in codes), st0, C + "CCITTG4Parser." + name, f"{name} is prefix-free", why=f"{pf[:2]} duplicate={dup}")
        ks = sum(Fraction(1, 2 ** len(c)) for c in codes)
        want_ks = Fraction(255, 256) if name != "MODE" else Fraction(1) - Fraction(1, 2**7) + Fraction(1, 2**24)
        r1.check(ks == want_ks, st0, C + "CCITTG4Parser." + name, f"Kraft sum of {name} is {want_ks}", why=f"is {ks}: a code word was changed, dropped or added")
        if name != "MODE":
            r1.check(not any(c.startswith("00000000") for c in codes), st0, C + "CCITTG4Parser." + name, f"no {name} code starts with eight zeros (reserved for EOL)", why="collides with EOL")
    w = {v: b for (v, b, _) in tabs["WHITE"]}
    b_ = {v: b for (v, b, _) in tabs["BLACK"]}
    ext = [v for v in w if isinstance(v, int) and v >= 1792]
    r1.check(len(ext) == 13 and all(w[v] == b_.get(v) for v in ext), st0, C + "CCITTG4Parser", "the 13 extended make-up codes (1792..2560) are identical for both colours", why="differ")
    r1.check(sorted(v for v in w if isinstance(v, int)) == sorted(list(range(64)) + list(range(64, 2561, 64))) == sorted(v for v in b_ if isinstance(v, int)), st0, C + "CCITTG4Parser", "run lengths: terminating 0..63 and make-up 64..2560 in steps of 64", why="value set changed")
    # ---------------------------------------------------------------- R2
    r2 = rep.rule("C19-R2", "DISPATCH", "_parse_mode handles every mode class", 3)
    pm = model.func(C + "CCITTG4Parser._parse_mode")
    arms: Dict[str, str] = {}
    cur = next((s for s in pm.node.body if isinstance(s, ast.If)), None)  # type: ignore[attr-defined]
    while isinstance(cur, ast.If):
        t = unparse(cur.test)
        body = " ".join(unparse(s) for s in cur.body)
        arms[t] = body
        if len(cur.orelse) == 1 and isinstance(cur.orelse[0], ast.If):
            cur = cur.orelse[0]
        else:
            arms["else"] = " ".join(unparse(s) for s in cur.orelse)
            cur = None
    p = pm.params[1]
    ok = (
        "self._do_pass()" in arms.get(f"{p} == 'p'", "") and "self._flush_line()" in arms.get(f"{p} == 'p'", "")
        and "self._accept = self._parse_horiz1" in arms.get(f"{p} == 'h'", "")
        and "raise self.EOFB" in arms.get(f"{p} == 'e'", "")
        and "self._do_vertical(" + p + ")" in arms.get(f"isinstance({p}, int)", "") and "self._flush_line()" in arms.get(f"isinstance({p}, int)", "")
        and "raise self.InvalidData" in arms.get("else", "")
    )
    r2.check(ok, site(pm), pm.qualname, "pass -> _do_pass, horizontal -> two run lengths, vertical (int) -> _do_vertical(dx), EOFB -> stop, anything else rejected", why=f"arms: {sorted(arms)}")
    hz = arms.get(f"{p} == 'h'", "")
    r2.check("if self._color:" in hz.replace("\n", " ") and hz.replace("\n", " ").index("return self.WHITE") < hz.replace("\n", " ").index("return self.BLACK"), site(pm), pm.qualname, "horizontal mode starts with the table of the current colour (white when _color is 1)", why="table selection changed")
    modes = {v for (v, _, _) in tabs["MODE"]}
    r2.check({0, 1, -1, 2, -2, 3, -3, "h", "p", "e"} <= modes, st0, C + "CCITTG4Parser.MODE", "MODE defines pass, horizontal, V0, VR1-3, VL1-3 and EOFB", why=f"{sorted(map(str, modes))}")
    # ---------------------------------------------------------------- R3
    r3 = rep.rule("C19-R3", "BIND", "decoder parameters come from Columns (default 1728) / EncodedByteAlign / BlackIs1, resolved if indirect; only K = -1 is decoded", 5)
    cf = model.func(C + "ccittfaxdecode")
    s = "".join(unparse(cf.node).split())
    gets: Dict[str, ast.Call] = {}
    bound: Dict[str, str] = {}
    for n in walk_no_nested(cf.node):
        if isinstance(n, ast.Assign) and len(n.targets) == 1 and isinstance(n.targets[0], ast.Name):
            for c in ast.walk(n.value):
                if isinstance(c, ast.Call) and (dotted(c.func) or "") == f"{cf.params[1]}.get" and c.args and isinstance(c.args[0], ast.Constant):
                    gets[c.args[0].value] = c
                    bound[c.args[0].value] = n.targets[0].id
    if not {"K", "Columns", "EncodedByteAlign", "BlackIs1"} <= set(gets):
        raise AnchorMissing("ccittfaxdecode: reads of K / Columns / EncodedByteAlign / BlackIs1 not found")
    call = [c for c in walk_no_nested(cf.node) if isinstance(c, ast.Call) and (dotted(c.func) or "") == "CCITTFaxDecoder"]
    okb = bool(call) and [unparse(a) for a in call[0].args] == [bound["Columns"]] and {k.arg: unparse(k.value) for k in call[0].keywords} == {"bytealign": bound["EncodedByteAlign"], "reversed": bound["BlackIs1"]}
    okk = f"if{bound['K']}==-1:" in s and f"raisePDFValueError({bound['K']})" in s
    r3.check(okb and okk, site(cf), cf.qualname, "K == -1 -> CCITTFaxDecoder(Columns, bytealign=EncodedByteAlign, reversed=BlackIs1); other K rejected", why="parameter binding changed")
    cd = gets["Columns"]
    dflt = cd.args[1] if len(cd.args) > 1 else None
    r3.check(isinstance(dflt, ast.Constant) and dflt.value == 1728, site(cf, cd), cf.qualname, "Columns defaults to 1728 (ISO 32000-1 Table 11)", why=f"`{unparse(cd)}`: a stream that leaves /Columns out - as it may for the standard fax width - has no width (None) and cannot be decoded")
    # the values may be indirect references: they are resolved before they are compared / used as numbers and flags
    dec = model.func("pdfminer.pdftypes.PDFStream.decode")
    cc = [c for c in walk_no_nested(dec.node) if isinstance(c, ast.Call) and (dotted(c.func) or "") == "ccittfaxdecode"]
    if not cc:
        raise AnchorMissing("PDFStream.decode: call of ccittfaxdecode not found")
    for c in cc:
        a = c.args[1] if len(c.args) > 1 else None
        if isinstance(a, ast.Name):
            ds = [n.value for n in walk_no_nested(dec.node) if isinstance(n, ast.Assign) and len(n.targets) == 1 and unparse(n.targets[0]) == a.id and isinstance(n.value, ast.DictComp)]
            a = ds[-1] if ds else a
        okr = isinstance(a, ast.DictComp) and isinstance(a.value, ast.Call) and (dotted(a.value.func) or "") in ("resolve1", "resolve_all") and len(a.generators) == 1
        inside = all("".join(unparse(g).split()).startswith(("resolve1(", "int_value(", "bool_value(", "num_value(")) or _wrapped(cf, g) for g in gets.values())
        r3.check(okr or inside, site(dec, c), dec.qualname, f"{unparse(c)[:80]} : the parameter values are resolved (resolve1) before ccittfaxdecode compares and uses them", why="a parameter given as an indirect reference reaches the decoder as a PDFObjRef: /BlackIs1 and /EncodedByteAlign pointing at `false` count as true, /K and /Columns raise")
    di = model.func(C + "CCITTFaxDecoder.__init__")
    s2 = "".join(unparse(di.node).split())
    r3.check("CCITTG4Parser.__init__(self,width,bytealign=bytealign)" in s2 and "self.reversed=reversed" in s2, site(di), di.qualname, "width and bytealign are handed to the parser; reversed is kept for output", why="changed")
    fl = model.func(C + "CCITTG4Parser._flush_line")
    s3 = "".join(unparse(fl.node).split())
    r3.check("ifself.width<=self._curpos:" in s3 and "self.output_line(self._y,self._curline)" in s3 and "ifself.bytealign:raiseself.ByteSkip" in s3, site(fl), fl.qualname, "a row is emitted when its width is reached; with byte alignment the rest of the byte is skipped", why="changed")
    # ---------------------------------------------------------------- R4
    r4 = rep.rule("C19-R4", "SIBLING", "reader and writer use the same MSB-first bit order; BlackIs1 inverts the bits", 2)
    fb = model.func(C + "CCITTG4Parser.feedbytes")
    ol = model.func(C + "CCITTFaxDecoder.output_line")
    masks = [ast.literal_eval(n) for f in (fb, ol) for n in walk_no_nested(f.node) if isinstance(n, ast.Tuple) and len(n.elts) == 8 and all(isinstance(e, ast.Constant) for e in n.elts)]
    r4.check(len(masks) == 2 and masks[0] == masks[1] == (128, 64, 32, 16, 8, 4, 2, 1), site(ol), ol.qualname, "bits are read and written most significant first", why=f"{masks}")
    s4 = "".join(unparse(ol.node).split())
    r4.check("ifself.reversed:bits=[1-bforbinbits]" in s4 and "arr[i//8]+=" in s4 and "(len(bits)+7)//8" in s4, site(ol), ol.qualname, "rows are packed into ceil(width / 8) bytes; BlackIs1 inverts every bit", why="row packing changed")
    _mode_geometry(model, rep)
    _run_lengths(model, rep)
    _horizontal_paint(model, rep)


def _mode_geometry(model: Model, rep: Report) -> None:
    """C19-R5: the changing-element searches of the vertical and pass modes."""
    import copy

    from .tokenizer import _guard_tests

    r5 = rep.rule("C19-R5", "GUARD", "reference-line look-behind `refline[x - k]` is never evaluated at x < k (a negative index silently wraps to the end of the row); the b1 searches of vertical and pass mode agree, and the b2 search is its colour-dual", 6)
    fv = model.func(C + "CCITTG4Parser._do_vertical")
    fp = model.func(C + "CCITTG4Parser._do_pass")
    n_sub = 0
    for f in (fv, fp):
        for n in walk_no_nested(f.node):
            if not (isinstance(n, ast.Subscript) and isinstance(n.ctx, ast.Load) and unparse(n.value) in ("self._refline", "self._curline")):
                continue
            ix = n.slice
            if not (isinstance(ix, ast.BinOp) and isinstance(ix.op, ast.Sub) and isinstance(ix.right, ast.Constant) and isinstance(ix.right.value, int) and ix.right.value > 0):
                continue
            n_sub += 1
            v, k = unparse(ix.left), ix.right.value
            guards = list(_guard_tests(f, n))
            # earlier operands of an enclosing `and` hold, of an enclosing `or` do not, when the subscript is evaluated
            for b in walk_no_nested(f.node):
                if isinstance(b, ast.BoolOp):
                    for i, val in enumerate(b.values):
                        if i and any(x is n for x in ast.walk(val)):
                            guards += [(e, isinstance(b.op, ast.And)) for e in b.values[:i]]
            ok = False
            for t, pol in guards:
                tt = "".join(unparse(t).split())
                if not pol and k == 1 and tt in (f"{v}==0", f"0=={v}", f"{v}<=0", f"{v}<1"):
                    ok = True
                if pol and tt in (f"{v}>{k - 1}", f"{v}>={k}", f"{k - 1}<{v}", f"{k}<={v}") or pol and k == 1 and tt in (f"{v}!=0", f"{v}"):
                    ok = True
            r5.check(ok, site(f, n), f.qualname, f"`{unparse(n)}` is evaluated only where {v} >= {k}", why=f"enclosing tests: {[('' if p else 'not ') + unparse(t)[:40] for t, p in guards]}; at {v} == 0 the index -1 reads the last pixel of the reference row, so a row whose reference starts and ends in the current colour finds b1 at position 0")
    if n_sub < 3:
        raise AnchorMissing("CCITT mode functions: look-behind subscripts not found")
    lv = [n for n in fv.node.body if isinstance(n, ast.While)]  # type: ignore[attr-defined]
    lp = [n for n in fp.node.body if isinstance(n, ast.While)]  # type: ignore[attr-defined]
    if len(lv) != 1 or len(lp) != 2:
        raise AnchorMissing("CCITT mode functions: search loops not found")
    r5.check(unparse(lv[0]) == unparse(lp[0]), site(fp, lp[0]), fp.qualname, "pass mode finds b1 with the same search as vertical mode", why="the two b1 searches differ: vertical and pass mode would disagree about the first changing element of the reference row")

    class Dual(ast.NodeTransformer):
        def visit_Compare(self, node: ast.Compare) -> ast.AST:
            self.generic_visit(node)
            s = unparse(node)
            if "self._refline[" in s and "self._color" in s and len(node.ops) == 1:
                if isinstance(node.ops[0], ast.Eq):
                    node.ops = [ast.NotEq()]
                elif isinstance(node.ops[0], ast.NotEq):
                    node.ops = [ast.Eq()]
            elif unparse(node.left) == "self._color" and isinstance(node.comparators[0], ast.Constant) and node.comparators[0].value in (0, 1):
                node.comparators = [ast.Constant(1 - node.comparators[0].value)]
            return node

    dual = unparse(Dual().visit(copy.deepcopy(lp[0])))
    r5.check(dual == unparse(lp[1]), site(fp, lp[1]), fp.qualname, "b2 is found by the colour-dual of the b1 search (next change to the current colour)", why="the second search is not the dual of the first")
    # the searches start right of the current position and vertical applies the offset before clamping to [0, width]
    sv = "".join(unparse(fv.node).split())
    okv = "x1=self._curpos+1" in sv and sv.index("x1+=dx") < sv.index("x1=max(0,min(self.width,x1))") and "x0=max(0,self._curpos)" in sv
    r5.check(okv, site(fv), fv.qualname, "vertical mode: a1 = b1 + offset, clamped to the row; the run starts at a0", why="offset/clamp changed")
    # each new row starts from a fresh all-white line; the finished row becomes the reference
    rl = model.func(C + "CCITTG4Parser._reset_line")
    srl = "".join(unparse(rl.node).split())
    r5.check("self._refline=self._curline" in srl and "self._curline=array.array('b',[1]*self.width)" in srl and srl.index("self._refline=self._curline") < srl.index("self._curline=array.array(") and "self._curpos=-1" in srl and "self._color=1" in srl, site(rl), rl.qualname, "new row: reference := finished row, current := new all-white row, a0 before the row, colour white", why="row reset changed: a recycled buffer keeps the pixels of the row before last")
    tests_v = ["".join(unparse(n.test).split()) for n in walk_no_nested(fv.node) if isinstance(n, ast.If) and any(isinstance(x, ast.For) for x in n.body)]
    paints = ["".join(unparse(n).split()) for n in walk_no_nested(fv.node) if isinstance(n, ast.Assign) and unparse(n.targets[0]).startswith("self._curline[")]
    r5.check(sorted(tests_v) == ["x0<x1", "x1<x0"] and paints == ["self._curline[x]=self._color"] * 2, site(fv), fv.qualname, "vertical mode paints the run from a0 to a1 in the current colour, whatever the colour (white runs too)", why=f"paint conditions {tests_v}, paint statements {paints}: skipping a colour relies on what the buffer held before")
    sp = "".join(unparse(fp.node).split())
    r5.check("x1=self._curpos+1" in sp and "forxinrange(self._curpos,x1):self._curline[x]=self._color" in sp and sp.rstrip().endswith("self._curpos=x1"), site(fp), fp.qualname, "pass mode: pixels up to b2 take the current colour, a0 moves to b2, the colour is kept", why="pass mode body changed")


def _run_lengths(model: Model, rep: Report) -> None:
    """C19-R6: a run of horizontal mode is the SUM of its codes - any number of make-up codes (multiples of 64, the 2560 code
    may repeat) followed by one terminating code (< 64)."""
    from ..cfg import build_cfg

    r6 = rep.rule("C19-R6", "NORMFORM", "horizontal mode: each run length accumulates every code word (make-up codes add up, a terminating code < 64 ends the run); the first run starts from 0, the second from 0 when the first ends", 5)
    pm = model.func(C + "CCITTG4Parser._parse_mode")
    for fname, fld, other in (("_parse_horiz1", "self._n1", "self._n2"), ("_parse_horiz2", "self._n2", None)):
        f = model.func(C + "CCITTG4Parser." + fname)
        p = f.params[1] if len(f.params) > 1 else "n"
        g = build_cfg(f.node, exc_edges=False)

        def is_acc(nd, fld=fld, p=p) -> bool:
            a = nd.ast
            return nd.kind == "stmt" and isinstance(a, ast.AugAssign) and isinstance(a.op, ast.Add) and unparse(a.target) == fld and unparse(a.value) == p

        wit = g.all_path_pass(g.entry, is_acc)
        plain = [n for n in walk_no_nested(f.node) if isinstance(n, ast.Assign) and any(unparse(t) == fld for t in n.targets)]
        other_acc = [n for n in walk_no_nested(f.node) if isinstance(n, ast.AugAssign) and unparse(n.target) == fld and not (isinstance(n.op, ast.Add) and unparse(n.value) == p)]
        r6.check(wit is None and not plain and not other_acc, site(f), f.qualname, f"`{fld} += {p}` on every path that returns (make-up and terminating codes alike); no other write of {fld}", why=("a returning path does not add the code to the run; " if wit is not None else "") + (f"plain assignment `{unparse(plain[0])}` discards the make-up codes accumulated so far (a run of 2560 + 64 + 26 would decode as 90); " if plain else "") + (f"`{unparse(other_acc[0])}`" if other_acc else ""))
        tests = [unparse(n.test).replace(" ", "") for n in walk_no_nested(f.node) if isinstance(n, ast.If) and isinstance(n.test, ast.Compare) and p in unparse(n.test) and "None" not in unparse(n.test)]
        r6.check(tests == [f"{p}<64"], site(f), f.qualname, f"a code below 64 is a terminating code: it ends the run ({fname})", why=f"tests on the code: {tests}")
        if other:
            z = [n for n in walk_no_nested(f.node) if isinstance(n, ast.Assign) and any(unparse(t) == other for t in n.targets)]
            r6.check(len(z) == 1 and unparse(z[0].value) == "0", site(f), f.qualname, f"the second run starts from 0 when the first run's terminating code arrives", why=f"{[unparse(x) for x in z]}")
    r9 = rep.rule("C19-R9", "SIBLING", "horizontal mode: each of the two run-length scanners flips the current colour when its terminating code arrives, and picks the next code table from the current colour in the same way (the table after a make-up code is that of the run being read)", 4)
    tabs9 = {}
    for fname in ("_parse_horiz1", "_parse_horiz2"):
        f = model.func(C + "CCITTG4Parser." + fname)
        p = f.params[1] if len(f.params) > 1 else "n"
        from ..util import guard_conjuncts

        tog = [a for a in walk_no_nested(f.node) if isinstance(a, ast.Assign) and unparse(a.targets[0]) == "self._color" and "".join(unparse(a.value).split()) == "1-self._color"]
        okt = len(tog) == 1 and any(x.replace(" ", "") == f"{p}<64" for x in guard_conjuncts(f, tog[0]))
        r9.check(okt, site(f, tog[0]) if tog else site(f), f.qualname, f"{fname}: self._color = 1 - self._color under {p} < 64", why="the colour is not flipped at the end of the run (or flipped elsewhere): the table chosen for the following codes belongs to the wrong colour")
        # table selection: the returns that do not go back to MODE
        sel = []
        for n in walk_no_nested(f.node):
            if isinstance(n, ast.Return) and n.value is not None and "MODE" not in unparse(n.value):
                g = sorted(x for x in guard_conjuncts(f, n) if "_color" in x)
                sel.append(("".join(unparse(n.value).split()), tuple(g)))
        tabs9[fname] = sorted(sel)
    r9.check(tabs9["_parse_horiz1"] == tabs9["_parse_horiz2"] == [("self.BLACK", ("notself._color",)), ("self.WHITE", ("self._color",))], site(model.func(C + "CCITTG4Parser._parse_horiz2")), C + "CCITTG4Parser._parse_horiz2", "both scanners: WHITE table while self._color is set, BLACK otherwise", why=f"{tabs9}: the two scanners choose their tables differently - after a make-up code of the second run the first run's table would be used")
    r9.check(True, site(model.func(C + "CCITTG4Parser._parse_horiz1")), C + "CCITTG4Parser._parse_horiz1", "sibling comparison done")
    r8 = rep.rule("C19-R8", "GUARD", "a run length of 0 is a code like any other (terminating code 0: white 00110101, black 0000110111): the only value the run-length scanners reject is None (no code)", 2)
    for fname in ("_parse_horiz1", "_parse_horiz2"):
        f = model.func(C + "CCITTG4Parser." + fname)
        p = f.params[1] if len(f.params) > 1 else "n"
        rej = [n for n in walk_no_nested(f.node) if isinstance(n, ast.If) and any(isinstance(x, ast.Raise) for x in n.body)]
        tests8 = ["".join(unparse(n.test).split()) for n in rej]
        truthy = [n for n in walk_no_nested(f.node) if isinstance(n, (ast.If, ast.IfExp, ast.While)) and ((isinstance(n.test, ast.Name) and n.test.id == p) or (isinstance(n.test, ast.UnaryOp) and isinstance(n.test.op, ast.Not) and isinstance(n.test.operand, ast.Name) and n.test.operand.id == p))]
        r8.check(tests8 == [f"{p}isNone"] and not truthy, site(f, rej[0]) if rej else site(f), f.qualname, f"{fname} rejects exactly `{p} is None`", why=f"rejecting tests {tests8}, truth tests of the code {[unparse(t.test) for t in truthy]}: a run whose terminating code is 0 (a run of 64, 128, ... pixels, or an empty run) is refused as invalid data")
    z1 = [n for n in walk_no_nested(pm.node) if isinstance(n, ast.Assign) and any(unparse(t) == "self._n1" for t in n.targets)]
    r6.check(len(z1) == 1 and unparse(z1[0].value) == "0", site(pm), pm.qualname, "horizontal mode starts the first run from 0", why=f"{[unparse(x) for x in z1]}")


def _horizontal_paint(model: Model, rep: Report) -> None:
    r7 = rep.rule("C19-R7", "NORMFORM", "horizontal mode paints n1 pixels of the current colour, then n2 of the other, from a0 (0 at the start of a row), clipped to the row; a0 ends after both runs", 3)
    f = model.func(C + "CCITTG4Parser._do_horizontal")
    s_ = "".join(unparse(f.node).split())
    n1, n2 = (f.params[1], f.params[2]) if len(f.params) > 2 else ("n1", "n2")
    r7.check("ifself._curpos<0:self._curpos=0" in s_ and "x=self._curpos" in s_ and s_.endswith("self._curpos=x"), site(f), f.qualname, "the runs start at a0 (0 when a0 is still before the row) and a0 moves to their end", why="start/end changed")
    loops = [n for n in f.node.body if isinstance(n, ast.For)]  # type: ignore[attr-defined]
    ok = len(loops) == 2
    if ok:
        for lp, n, val in ((loops[0], n1, "self._color"), (loops[1], n2, "1-self._color")):
            b = "".join(unparse(ast.Module(body=lp.body, type_ignores=[])).split())
            ok = ok and "".join(unparse(lp.iter).split()) == f"range({n})" and b == f"iflen(self._curline)<=x:breakself._curline[x]={val}x+=1"
    r7.check(ok, site(f), f.qualname, f"first run: {n1} pixels of the current colour; second run: {n2} pixels of the opposite colour; both stop at the end of the row", why="run loops changed")
    hz = model.func(C + "CCITTG4Parser._parse_horiz2")
    r7.check(f"self._do_horizontal(self._n1,self._n2)" in "".join(unparse(hz.node).split()), site(hz), hz.qualname, "the two accumulated run lengths are painted in order (first, second)", why="call changed")


def _decoder_state(model: Model, rep: Report) -> None:
    """C19-R10: one decoder per image: the row buffers and the output buffer are instance state.  A mutable object of the
    class body that a method updates (`self._buf += ...` on a class-level bytearray) is one object for every decoder of the
    process - the second image comes back with the rows of the first in front of its own."""
    from .c12 import global_writes, inventory

    r = rep.rule("C19-R10", "EFFECTS", "the CCITT decoder classes keep nothing mutable at class level that a method writes: row and output buffers are per image (instance attributes bound in __init__ / reset)", 3)
    inv = inventory(model)
    writes = [(f, n, c, how) for (f, n, c, how) in global_writes(model, inv) if c.startswith("pdfminer.ccitt.")]
    for (f, n, c, how) in writes:
        r.violation(site(f, n), f.qualname, f"{unparse(n)[:70]} : {how} on the class-level object {c.split('.')[-2]}.{c.split('.')[-1]}", "the object is created once in the class body and shared by every decoder of the process: the second decode returns the first image's rows followed by its own")
    n_cls = 0
    for cq, ci in sorted(model.classes.items()):
        if not cq.startswith("pdfminer.ccitt.") or ci.name.startswith("Test"):
            continue
        n_cls += 1
        if not any(c.rsplit(".", 1)[0] == cq for (_, _, c, _) in writes):
            r.ok(f"pdfminer/ccitt.py:{ci.node.lineno}:{ci.name}", cq, f"{ci.name}: no class-level mutable object is written by a method")
    if n_cls < 3:
        raise AnchorMissing("CCITT decoder classes not found")


_run_r1_r9 = run


def run(model: Model, rep: Report) -> None:  # noqa: F811
    _run_r1_r9(model, rep)
    _decoder_state(model, rep)

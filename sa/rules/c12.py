"""C12 - extraction is a pure function: deterministic, cache- and history-independent."""

from __future__ import annotations

import ast
from typing import Dict, List, Optional, Set, Tuple

from ..cfg import build_cfg
from ..model import AnchorMissing, ClassInfo, FuncInfo, Model, ModuleInfo, dotted, unparse, walk_no_nested
from ..report import Report
from ..util import site
from .tokenizer import _guard_tests

MUTATORS = {"append", "extend", "insert", "pop", "remove", "clear", "update", "setdefault", "popitem", "add", "discard", "sort", "reverse", "__setitem__", "__delitem__", "appendleft", "difference_update", "intersection_update", "symmetric_difference_update"}
DATA_MODULES = {"pdfminer.glyphlist", "pdfminer.fontmetrics", "pdfminer.latin_enc"}

# (container, writing function) -> reason; confirmed by reading
ALLOWED_WRITES: Dict[Tuple[str, str], str] = {
    ("pdfminer.cmapdb.CMapDB._cmap_cache", "pdfminer.cmapdb.CMapDB.get_cmap"): "memo of a pure function of the CMap name (resource files are immutable)",
    ("pdfminer.cmapdb.CMapDB._umap_cache", "pdfminer.cmapdb.CMapDB.get_unicode_map"): "memo of a pure function of the collection name",
}
# module-level instances whose methods write their own state, reviewed
ALLOWED_INSTANCES = {
    "pdfminer.psparser.PSLiteralTable": "interning table: intern(name) is idempotent, identity of literals is not observable in results",
    "pdfminer.psparser.PSKeywordTable": "interning table",
}


def _is_mutable_ctor(model: Model, m: ModuleInfo, v: ast.AST, cls: Optional[ClassInfo] = None) -> Optional[str]:
    if isinstance(v, (ast.Dict, ast.List, ast.Set, ast.DictComp, ast.ListComp, ast.SetComp)):
        return type(v).__name__.lower()
    if isinstance(v, ast.Call):
        d = dotted(v.func) or ""
        short = d.split(".")[-1]
        if short in ("dict", "list", "set", "OrderedDict", "defaultdict", "deque", "Counter", "bytearray"):
            return short
        r = model.resolve_expr(m, v.func, cls)
        if r in model.classes:
            return "instance:" + r
    return None


def inventory(model: Model) -> Dict[str, Tuple[ModuleInfo, ast.AST, str]]:
    """qualified name -> (module, node, kind) of module- and class-level mutable containers/instances."""
    out: Dict[str, Tuple[ModuleInfo, ast.AST, str]] = {}
    for m in model.modules.values():
        for name, v in m.assigns.items():
            k = _is_mutable_ctor(model, m, v)
            if k:
                out[f"{m.name}.{name}"] = (m, v, k)
    for c in model.classes.values():
        for name, v in c.attrs.items():
            k = _is_mutable_ctor(model, c.module, v, c)
            if k:
                out[f"{c.qualname}.{name}"] = (c.module, v, k)
    return out


def _resolve_container(model: Model, f: FuncInfo, e: ast.AST, inv: Dict[str, Tuple[ModuleInfo, ast.AST, str]]) -> Optional[str]:
    """Does expression e denote a module/class-level container of the inventory?"""
    if isinstance(e, ast.Name):
        # local shadowing?
        for n in walk_no_nested(f.node):
            if isinstance(n, (ast.Assign, ast.AnnAssign, ast.For, ast.With)):
                from ..util import assigned_targets

                if any(isinstance(t, ast.Name) and t.id == e.id for t in assigned_targets(n)):
                    return None
        if e.id in f.params:
            return None
        r = model.resolve_name(f.module, e.id)
        return r if r in inv else None
    if isinstance(e, ast.Attribute):
        base = e.value
        if isinstance(base, ast.Name) and base.id in ("cls", "self") and f.cls is not None:
            ca = model.lookup_class_attr(f.cls.qualname, e.attr)
            if ca is not None:
                q = f"{ca[0].qualname}.{e.attr}"
                if q in inv:
                    # instance attribute of the same name assigned in __init__ shadows the class attribute
                    if base.id == "self":
                        for k in model.mro(f.cls.qualname):
                            ci = model.classes.get(k)
                            if ci:
                                for mf in ci.methods.values():
                                    for n in walk_no_nested(mf.node):
                                        if isinstance(n, (ast.Assign, ast.AnnAssign)):
                                            tg = n.targets if isinstance(n, ast.Assign) else [n.target]
                                            if any(unparse(t) == f"self.{e.attr}" for t in tg):
                                                return None
                    return q
            return None
        r = model.resolve_expr(f.module, e, f.cls)
        if r in inv:
            return r
        # Class.attr where attr inherited
        b = model.resolve_expr(f.module, base, f.cls)
        if b in model.classes:
            ca = model.lookup_class_attr(b, e.attr)
            if ca is not None and f"{ca[0].qualname}.{e.attr}" in inv:
                return f"{ca[0].qualname}.{e.attr}"
    return None


def global_writes(model: Model, inv: Dict[str, Tuple[ModuleInfo, ast.AST, str]]) -> List[Tuple[FuncInfo, ast.AST, str, str]]:
    out = []
    for f in model.funcs.values():
        if isinstance(f.node, ast.Lambda):
            continue
        for n in walk_no_nested(f.node):
            if isinstance(n, ast.Global):
                out.append((f, n, "global " + ",".join(n.names), "global statement"))
            tgts: List[ast.AST] = []
            if isinstance(n, ast.Assign):
                tgts = list(n.targets)
            elif isinstance(n, (ast.AugAssign, ast.AnnAssign)):
                tgts = [n.target]
            elif isinstance(n, ast.Delete):
                tgts = list(n.targets)
            for t in tgts:
                for tt in (t.elts if isinstance(t, (ast.Tuple, ast.List)) else [t]):
                    if isinstance(tt, ast.Subscript):
                        c = _resolve_container(model, f, tt.value, inv)
                        if c:
                            out.append((f, n, c, "item store"))
                    elif isinstance(tt, ast.Attribute):
                        # store to a class attribute through the class object / cls
                        b = tt.value
                        if isinstance(n, ast.AugAssign) and isinstance(b, ast.Name) and b.id == "self" and f.cls is not None:
                            # `self.x += ...` where x is a mutable object of the class body and no method binds self.x: the in-place
                            # operator updates the one object every instance shares
                            k = f"{f.cls.qualname}.{tt.attr}"
                            if k in inv and not any(
                                isinstance(a, ast.Assign) and any(isinstance(at, ast.Attribute) and at.attr == tt.attr and isinstance(at.value, ast.Name) and at.value.id == "self" for at in a.targets)
                                for mf in f.cls.methods.values() for a in walk_no_nested(mf.node)
                            ):
                                out.append((f, n, k, "in-place operator through self"))
                        if isinstance(b, ast.Name) and b.id == "cls" and f.is_classmethod:
                            out.append((f, n, f"{f.cls.qualname if f.cls else '?'}.{tt.attr}", "class attribute store"))
                        else:
                            r = model.resolve_expr(f.module, b, f.cls)
                            if r in model.classes and not (isinstance(b, ast.Name) and b.id in ("self",)):
                                out.append((f, n, f"{r}.{tt.attr}", "class attribute store"))
                            elif r in model.modules:
                                out.append((f, n, f"{r}.{tt.attr}", "module attribute store"))
            if isinstance(n, ast.Call) and isinstance(n.func, ast.Attribute) and n.func.attr in MUTATORS:
                c = _resolve_container(model, f, n.func.value, inv)
                if c:
                    out.append((f, n, c, f".{n.func.attr}()"))
    return out


def run(model: Model, rep: Report) -> None:
    rep.explanation = (
        "C12: purity is decided as the absence of channels between extractions: a complete inventory of module- and class-level mutable state "
        "and of every function-level write to it (item stores, mutator calls, class/module attribute stores, global statements) against a "
        "reviewed allow-list; shared tables are copied before the first store on every path; mutators of shareable CMap objects are only applied "
        "to freshly constructed maps; the high-level entry points build their managers per call and no function has a mutable default; caching "
        "stores exactly the value the uncached path returns. Bit-for-bit equality of outputs is not decided (dict order and float "
        "reproducibility are language guarantees, taken as assumptions)."
    )
    rep.assumptions += ["dict insertion order and float arithmetic are deterministic (language guarantees)", "resource files under pdfminer/cmap are immutable"]
    inv = inventory(model)
    rep.analysed["module_or_class_level_mutables"] = len(inv)
    # ---------------------------------------------------------------- R9 (shared with C05-R11): nothing of one page's run survives into the next
    from .c05 import fresh_state_rule

    fresh_state_rule(model, rep, "C12-R9")
    # ---------------------------------------------------------------- R10: interned names are for ever
    intern_monotone_rule(model, rep, "C12-R10")
    r11 = rep.rule("C12-R11", "GUARD", "a stream is decoded once: get_data() runs decode() only while no decoded payload is stored (`self.data is None`), whatever that payload is - an empty result is a result", 1)
    gd = model.func("pdfminer.pdftypes.PDFStream.get_data")
    calls11 = [c for c in walk_no_nested(gd.node) if isinstance(c, ast.Call) and (dotted(c.func) or "") == "self.decode"]
    if not calls11:
        raise AnchorMissing("PDFStream.get_data: self.decode() not found")
    from ..util import guard_conjuncts

    g11 = guard_conjuncts(gd, calls11[0])
    r11.check(g11 == {"self.dataisNone"}, site(gd, calls11[0]), gd.qualname, "decode() runs under `self.data is None` only", why=f"conditions {sorted(g11)}: with a truth test an empty decoded payload looks undecoded, so the second access of the same (cached) stream decodes again - the result then depends on whether the object was cached")
    r12 = rep.rule("C12-R12", "WRITESET", "decoding a string with a CMap leaves the CMap as it was: no decode method of the CMap classes stores into self (predefined CMaps are process-wide singletons, so state kept on one is carried into the next string, page and document)", 3)
    for cq in sorted(model.subclasses("pdfminer.cmapdb.CMapBase")):
        ci12 = model.classes[cq]
        if "decode" not in ci12.methods:
            continue
        d12 = ci12.methods["decode"]
        st12 = [n for n in walk_no_nested(d12.node) if isinstance(n, (ast.Attribute, ast.Subscript)) and isinstance(n.ctx, (ast.Store, ast.Del)) and unparse(n).startswith("self.")]
        r12.check(not st12, site(d12, st12[0]) if st12 else site(d12), d12.qualname, "decode stores nothing into self", why=f"`{unparse(st12[0]) if st12 else ''}`: the result of decoding one string would depend on the strings decoded before it with the same (cached, shared) CMap")
    r13 = rep.rule("C12-R13", "ORDER", "init_resources starts every content from empty font / XObject / colour-space maps: the four assignments come before any way out of the function (a page without resources must not see the previous page's)", 4)
    ir = model.func("pdfminer.pdfinterp.PDFPageInterpreter.init_resources")
    g13 = build_cfg(ir.node, exc_edges=False)
    for fld in ("resources", "fontmap", "xobjmap", "csmap"):
        wit = g13.all_path_pass(g13.entry, lambda nd, fld=fld: nd.ast is not None and nd.kind == "stmt" and any(isinstance(t, ast.Attribute) and isinstance(t.ctx, ast.Store) and unparse(t) == "self." + fld for t in ast.walk(nd.ast)))
        r13.check(wit is None, site(ir), ir.qualname, f"self.{fld} is (re)set on every path through init_resources", why=f"a path leaves init_resources without resetting self.{fld}: a page with no /Resources is rendered with the fonts and XObjects of the page before it when processed in one call, and with none when processed alone")
    r14 = rep.rule("C12-R14", "DEPEND", "no result depends on a memory address: id(obj) is used to look things up (subscript key, membership, equality), never as a value that takes part in an ordering (heap entries, sort keys, tuples that are compared)", 2)
    n14 = 0
    for q14, f14 in sorted(model.funcs.items()):
        if f14.parent is not None or isinstance(f14.node, ast.Lambda):
            continue
        parents = {}
        for n in ast.walk(f14.node):
            for ch in ast.iter_child_nodes(n):
                parents[id(ch)] = n
        for c in ast.walk(f14.node):
            if not (isinstance(c, ast.Call) and isinstance(c.func, ast.Name) and c.func.id == "id" and len(c.args) == 1):
                continue
            n14 += 1
            par = parents.get(id(c))
            lookup = (
                (isinstance(par, ast.Subscript) and par.slice is c)
                or (isinstance(par, ast.Compare) and all(isinstance(o, (ast.In, ast.NotIn, ast.Eq, ast.NotEq, ast.Is, ast.IsNot)) for o in par.ops))
                or (isinstance(par, ast.Dict) and c in par.keys)
                or (isinstance(par, ast.DictComp) and par.key is c)
                or (isinstance(par, ast.Call) and isinstance(par.func, ast.Attribute) and par.func.attr in ("add", "discard", "remove", "get", "pop", "setdefault") and c in par.args[:1])
                or (isinstance(par, (ast.JoinedStr, ast.FormattedValue)))
                or (isinstance(par, ast.BinOp) and isinstance(par.op, ast.Mod))
            )
            r14.check(bool(lookup), site(f14, c), f14.qualname, f"`{unparse(par)[:70] if par is not None else unparse(c)}`: id() used " + ("as a lookup key" if lookup else "as a value"), why="the address of an object becomes part of a value that is ordered or compared: where objects are allocated depends on everything the process did before, so equal candidates are ranked differently from run to run and after other documents")
    if n14 == 0:
        raise AnchorMissing("no use of id() found (group_textboxes keys its serial numbers by id)")
    page_flags_rule(model, rep, "C12-R15")
    set_iteration_rule(model, rep, "C12-R16")
    page_memo_rule(model, rep, "C12-R17")
    # ---------------------------------------------------------------- R1
    r1 = rep.rule("C12-R1", "EFFECTS", "global state inventory: no function writes module/class-level state outside the reviewed memo tables", 20)
    writes = global_writes(model, inv)
    written: Dict[str, List[Tuple[FuncInfo, ast.AST, str]]] = {}
    for (f, n, c, how) in writes:
        written.setdefault(c, []).append((f, n, how))
    for q, (m, node, kind) in sorted(inv.items()):
        ws = written.get(q, [])
        st = f"{m.relpath}:{getattr(node, 'lineno', 0)}:{q.split('.', 2)[-1]}"
        if kind.startswith("instance:"):
            cls = kind.split(":", 1)[1]
            if cls.endswith("PSSymbolTable") or q in ALLOWED_INSTANCES:
                r1.safe(st, q, f"module-level instance of {cls.split('.')[-1]}", ALLOWED_INSTANCES.get(q, "interning table"))
            elif m.name in DATA_MODULES:
                r1.ok(st, q, f"module-level instance of {cls.split('.')[-1]}", nontrivial=False)
            else:
                # a stateful object living at module/class level is a channel unless reviewed
                stateful = _has_instance_state_writers(model, cls)
                if stateful and not _reviewed_instance(q):
                    r1.violation(st, q, f"module/class-level instance of {cls.split('.')[-1]}", "a stateful object shared by all extractions in the process (history channel)")
                else:
                    r1.ok(st, q, f"module/class-level instance of {cls.split('.')[-1]}", note="no state-writing methods / reviewed")
            continue
        if not ws:
            r1.ok(st, q, f"{kind} never written by a function", nontrivial=False)
            continue
        for (f, n, how) in ws:
            reason = ALLOWED_WRITES.get((q, f.qualname))
            if reason:
                r1.safe(site(f, n), f.qualname, f"{q.split('.', 2)[-1]} {how}: {unparse(n)[:80]}", reason)
            else:
                r1.violation(site(f, n), f.qualname, f"{q.split('.', 2)[-1]} {how}: {unparse(n)[:80]}", f"function-level write to the shared {kind} `{q}`: a later extraction in the same process sees it")
    for (f, n, c, how) in writes:
        if c not in inv:
            if how == "global statement":
                r1.violation(site(f, n), f.qualname, c, "global statement: module state written from a function")
            elif how in ("class attribute store", "module attribute store"):
                r1.violation(site(f, n), f.qualname, f"{how}: {unparse(n)[:80]}", "state stored on a class/module object is shared by every extraction")

    # ---------------------------------------------------------------- R2
    _shared_tables(model, rep)
    # ---------------------------------------------------------------- R3
    r3 = rep.rule("C12-R3", "EFFECTS", "per-call construction: entry points build manager/device/interpreter inside the call; no mutable default argument", 4)
    for ep in ("extract_text", "extract_pages", "extract_text_to_fp"):
        f = model.func("pdfminer.high_level." + ep)
        made = {dotted(c.func) for c in walk_no_nested(f.node) if isinstance(c, ast.Call)}
        ok = "PDFResourceManager" in made and "PDFPageInterpreter" in made and (made & {"TextConverter", "PDFPageAggregator"})
        r3.check(bool(ok), site(f), f.qualname, f"{ep} constructs its resource manager, device and interpreter per call", why=f"constructed here: {sorted(x for x in made if x and x[0].isupper())}")
    bad = []
    nfun = 0
    for f in model.funcs.values():
        if isinstance(f.node, ast.Lambda):
            continue
        nfun += 1
        a = f.node.args  # type: ignore[attr-defined]
        for d in list(a.defaults) + [x for x in a.kw_defaults if x is not None]:
            k = _is_mutable_ctor(model, f.module, d, f.cls)
            if k:
                bad.append((f, d, k))
    for (f, d, k) in bad:
        r3.violation(site(f, d), f.qualname, f"default argument {unparse(d)[:60]}", f"mutable default ({k}) is created once and shared by every call")
    if not bad:
        r3.ok("pdfminer/:0:<all functions>", "pdfminer", f"no mutable default argument in {nfun} functions")

    # ---------------------------------------------------------------- R4
    _caches(model, rep)
    # ---------------------------------------------------------------- R5
    _doc_mutation(model, rep)
    # ---------------------------------------------------------------- R6 (shared with C02-R8)
    from .c02 import cache_writers_rule

    cache_writers_rule(model, rep, "C12-R6")
    # ---------------------------------------------------------------- R7
    _memo_purity(model, rep)
    # ---------------------------------------------------------------- R8
    font_cache_key_rule(model, rep, "C12-R8")


def page_flags_rule(model: Model, rep: Report, rid: str) -> None:
    """A converter lives for the whole document; receive_layout is called once per page.  A flag it raises while walking a page
    ("a word is being assembled") and tests at the start of the next item must be down again when the page is done, or the
    next page starts in the middle of the previous one: its output then depends on which pages were extracted before it."""
    r = rep.rule(rid, "TYPESTATE", "converters: a flag raised while a page is rendered (and tested by the rendering of the next item) is lowered before the page element is closed - no pending output is carried into the next page", 1)
    n_inst = 0
    for q, f in sorted(model.funcs.items()):
        if not (q.startswith("pdfminer.converter.") and q.endswith(".receive_layout")):
            continue
        cls_q = q.rsplit(".", 1)[0]
        nodes = list(ast.walk(f.node))
        raised = {t.attr for n in nodes if isinstance(n, ast.Assign) and isinstance(n.value, ast.Constant) and n.value.value is True for t in n.targets if isinstance(t, ast.Attribute) and unparse(t.value) == "self"}
        tested = {a.attr for n in nodes if isinstance(n, ast.If) for a in ast.walk(n.test) if isinstance(a, ast.Attribute) and unparse(a.value) == "self"}
        for flag in sorted(raised & tested):
            n_inst += 1

            def lowers(st: ast.stmt, flag: str = flag, cls_q: str = cls_q, depth: int = 0) -> bool:
                if isinstance(st, ast.Assign) and isinstance(st.value, ast.Constant) and st.value.value is False and any(unparse(t) == f"self.{flag}" for t in st.targets):
                    return True
                if isinstance(st, ast.Expr) and isinstance(st.value, ast.Call) and (dotted(st.value.func) or "").startswith("self.") and depth < 2:
                    m = model.funcs.get(cls_q + "." + (dotted(st.value.func) or "")[5:])
                    if m is not None:
                        return any(lowers(s2, depth=depth + 1) for s2 in m.node.body)  # type: ignore[attr-defined]
                if isinstance(st, ast.If) and not st.orelse and "".join(unparse(st.test).split()) == f"self.{flag}":
                    return any(lowers(s2, depth=depth) for s2 in st.body)
                return False

            # the branch that renders the page: isinstance(item, LTPage)
            page_arms = [n for n in nodes if isinstance(n, ast.If) and "LTPage" in unparse(n.test) and "isinstance" in unparse(n.test)]
            if not page_arms:
                # no page branch: the flag has to be lowered at the top level of receive_layout after the walk
                ok = any(lowers(st) for st in f.node.body)  # type: ignore[attr-defined]
                r.check(ok, site(f), q, f"self.{flag} is lowered before receive_layout returns", why=f"self.{flag} may still be set when the next page arrives")
                continue
            arm = page_arms[0]
            loops = [i for i, st in enumerate(arm.body) if isinstance(st, ast.For)]
            after = arm.body[loops[-1] + 1 :] if loops else []
            ok = any(lowers(st) for st in after) or any(lowers(st) for st in f.node.body)  # type: ignore[attr-defined]
            r.check(ok, site(f, arm), q, f"self.{flag} is lowered after the page's children are rendered (directly or by flushing the pending output)", why=f"self.{flag} may still be set when the page is closed: what was being assembled is written into the next page (or never), so a page extracted after another differs from the same page extracted alone")
    if n_inst == 0:
        raise AnchorMissing("no converter raises a flag in receive_layout (HOCRConverter.within_chars expected)")


def _setlike(e: ast.AST, names: Set[str]) -> bool:
    if isinstance(e, (ast.Set, ast.SetComp)):
        return True
    if isinstance(e, ast.Call):
        f = e.func
        if isinstance(f, ast.Name) and f.id in ("set", "frozenset"):
            return True
        if isinstance(f, ast.Attribute) and f.attr in ("difference", "union", "intersection", "symmetric_difference", "copy") and _setlike(f.value, names):
            return True
    if isinstance(e, ast.Name) and e.id in names:
        return True
    if isinstance(e, ast.BinOp) and isinstance(e.op, (ast.BitOr, ast.BitAnd, ast.Sub, ast.BitXor)) and (_setlike(e.left, names) or _setlike(e.right, names)):
        return True
    return False


def set_iteration_rule(model: Model, rep: Report, rid: str) -> None:
    """The order in which a set hands out its elements follows their hashes: memory addresses for layout objects, per-process
    random values for strings.  A set may be asked questions (in, len, truth, add / discard) but whatever is produced by walking
    over one differs from run to run - unless the walk goes through sorted() / min() / max()."""
    r = rep.rule(rid, "DEPEND", "no result is produced by walking over a set: sets are only tested (in / len / truth) and updated, never iterated, unpacked, joined or turned into a list (the element order follows hashes - addresses, or per-process random values)", 5)
    n_sets = 0
    for q, f in sorted(model.funcs.items()):
        if isinstance(f.node, ast.Lambda) or not q.startswith("pdfminer."):
            continue
        names: Set[str] = set()
        scope = f
        # names bound to sets here or in the enclosing function (closures)
        chain = [f]
        while chain[-1].parent is not None:
            par = chain[-1].parent
            par = par if not isinstance(par, str) else model.funcs.get(par)
            if par is None or par in chain:
                break
            chain.append(par)
        for fn in chain:
            if isinstance(fn.node, ast.Lambda):
                continue
            for _ in range(3):
                for n in walk_no_nested(fn.node):
                    if isinstance(n, ast.Assign) and len(n.targets) == 1 and isinstance(n.targets[0], ast.Name) and _setlike(n.value, names):
                        names.add(n.targets[0].id)
                    elif isinstance(n, ast.AnnAssign) and isinstance(n.target, ast.Name) and n.value is not None and _setlike(n.value, names):
                        names.add(n.target.id)
        own = {n.targets[0].id for n in walk_no_nested(f.node) if isinstance(n, ast.Assign) and len(n.targets) == 1 and isinstance(n.targets[0], ast.Name) and n.targets[0].id in names}
        n_sets += len(own)
        for n in walk_no_nested(f.node):
            its: List[Tuple[ast.AST, str]] = []
            if isinstance(n, (ast.For, ast.AsyncFor)):
                its.append((n.iter, "for loop"))
            if isinstance(n, (ast.ListComp, ast.GeneratorExp, ast.DictComp, ast.SetComp)):
                for gcomp in n.generators:
                    its.append((gcomp.iter, "comprehension"))
            if isinstance(n, ast.Call) and isinstance(n.func, ast.Name) and n.func.id in ("list", "tuple", "enumerate", "iter", "next", "zip", "map", "filter", "reversed") and n.args:
                its += [(a, f"{n.func.id}()") for a in n.args]
            if isinstance(n, ast.Call) and isinstance(n.func, ast.Attribute) and n.func.attr in ("join", "extend") and n.args:
                its.append((n.args[0], f".{n.func.attr}()"))
            if isinstance(n, ast.Call) and (dotted(n.func) or "") in ("uniq", "utils.uniq") and n.args:
                its.append((n.args[0], "uniq()"))
            if isinstance(n, ast.Starred):
                its.append((n.value, "unpacking"))
            for it, how in its:
                if _setlike(it, names):
                    r.violation(site(f, it), q, f"{unparse(it)[:70]} walked by a {how}", "the elements come out in hash order (addresses of layout objects, per-process random hashes of strings): what is built from this walk differs between runs, between two identical pages, and between extracting pages together or one at a time")
        for nm in sorted(own):
            r.ok(site(f), q, f"set `{nm}`: only tested and updated", note="no walk over it")
    if n_sets < 5:
        raise AnchorMissing("fewer than 5 set-valued locals found (visited / done sets expected)")


def page_memo_rule(model: Model, rep: Report, rid: str) -> None:
    """What a converter learns from a page (its box, its number) is taken from every page anew: an assignment under
    `if self.X is None` / `if not self.X` keeps the first page's value for the whole document."""
    r = rep.rule(rid, "DEPEND", "converters: a field that receive_layout fills from the page is filled for every page - never under a test of the field's own earlier value (a compute-once memo would keep the first page's value for all later pages)", 2)
    n_inst = 0
    for q, f in sorted(model.funcs.items()):
        if not (q.startswith("pdfminer.converter.") and ".receive_layout" in q) or isinstance(f.node, ast.Lambda):
            continue
        nodes = list(walk_no_nested(f.node))
        raised = {t.attr for n in ast.walk(f.node) if isinstance(n, ast.Assign) and isinstance(n.value, ast.Constant) and n.value.value is True for t in n.targets if isinstance(t, ast.Attribute) and unparse(t.value) == "self"}
        for n in nodes:
            if isinstance(n, ast.Assign):
                for t in n.targets:
                    if isinstance(t, ast.Attribute) and unparse(t.value) == "self" and any(isinstance(x, ast.Name) and x.id in ("item", "ltpage", "page") for x in ast.walk(n.value)):
                        n_inst += 1
                        fld = t.attr
                        from ..util import guard_conjuncts

                        g = guard_conjuncts(f, n, innermost=True)
                        memo = [c for c in g if c in (f"self.{fld}isNone", f"notself.{fld}", f"nothasattr(self,'{fld}')") ]
                        if fld in raised:
                            continue
                        r.check(not memo, site(f, n), q, f"{unparse(n)[:70]} : runs for every page", why=f"guarded by `{memo[0] if memo else ''}`: self.{fld} keeps the value of the first page rendered, so the output of a later page depends on which pages came before it")
    if n_inst == 0:
        raise AnchorMissing("no converter field filled from the page item found (HOCRConverter.page_bbox expected)")


def _has_instance_state_writers(model: Model, cls: str) -> bool:
    from ..util import self_fields_written

    for k in model.mro(cls):
        ci = model.classes.get(k)
        if not ci:
            continue
        for name, mf in ci.methods.items():
            if name in ("__init__",):
                continue
            if self_fields_written(mf):
                return True
            for n in walk_no_nested(mf.node):
                if isinstance(n, ast.Call) and isinstance(n.func, ast.Attribute) and n.func.attr in MUTATORS and (dotted(n.func.value) or "").startswith("self."):
                    return True
                if isinstance(n, (ast.Assign, ast.AugAssign)):
                    tg = n.targets if isinstance(n, ast.Assign) else [n.target]
                    if any(isinstance(t, ast.Subscript) and (dotted(t.value) or "").startswith("self.") for t in tg):
                        return True
    return False


def _reviewed_instance(q: str) -> bool:
    return q in ALLOWED_INSTANCES or q.startswith("pdfminer.pdfcolor.") or q.endswith(".log") or q.endswith(".logger")


def _shared_tables(model: Model, rep: Report) -> None:
    r2 = rep.rule("C12-R2", "ALIAS", "shared tables are copied before the first store; mutators of shareable maps run on fresh maps only", 6)
    # (a) get_encoding: copy dominates every store into the table
    ge = model.func("pdfminer.encodingdb.EncodingDB.get_encoding")
    g = build_cfg(ge.node, exc_edges=False)
    dom = g.dominators()
    var = None
    for n in walk_no_nested(ge.node):
        if isinstance(n, ast.Assign) and isinstance(n.targets[0], ast.Name) and "cls.encodings" in unparse(n.value):
            var = n.targets[0].id
    if var is None:
        raise AnchorMissing("get_encoding: table variable not found")
    copies = [n.id for n in g.nodes if n.kind == "stmt" and isinstance(n.ast, ast.Assign) and unparse(n.ast.targets[0]) == var and unparse(n.ast.value) in (f"{var}.copy()", f"dict({var})", f"{{**{var}}}")]
    stores = [n.id for n in g.nodes if n.kind == "stmt" and isinstance(n.ast, (ast.Assign, ast.AugAssign)) and any(isinstance(t, ast.Subscript) and unparse(t.value) == var for t in (n.ast.targets if isinstance(n.ast, ast.Assign) else [n.ast.target]))]
    muts = [n.id for n in g.nodes if n.ast is not None and any(isinstance(c, ast.Call) and isinstance(c.func, ast.Attribute) and c.func.attr in MUTATORS and unparse(c.func.value) == var for c in [n.ast] + list(walk_no_nested(n.ast)) if n.kind in ("stmt", "test"))]
    ok = bool(copies) and bool(stores) and all(any(c in dom[s] for c in copies) for s in stores + muts)
    r2.check(ok, site(ge), ge.qualname, f"the shared encoding table `{var}` is copied before Differences are stored into it", why="a store into the table is not dominated by the copy: the Differences of one font leak into every later font using that base encoding")
    # (b) init_resources copies PREDEFINED_COLORSPACE
    ir = model.func("pdfminer.pdfinterp.PDFPageInterpreter.init_resources")
    v = [unparse(n.value) for n in walk_no_nested(ir.node) if isinstance(n, (ast.Assign, ast.AnnAssign)) and unparse(n.targets[0] if isinstance(n, ast.Assign) else n.target) == "self.csmap"]
    r2.check(v == ["PREDEFINED_COLORSPACE.copy()"], site(ir), ir.qualname, "the interpreter's colour-space map is a copy of the predefined table", why=f"self.csmap = {v}")
    # (c) do_Do: caller resources copied for forms without own resources (also C05-R5)
    # (d) mutators of CMap objects: receivers are fresh
    mut_methods = {"use_cmap", "set_attr", "add_code2cid", "add_cid2unichr"}
    for f in model.funcs.values():
        if isinstance(f.node, ast.Lambda):
            continue
        for c in walk_no_nested(f.node):
            if isinstance(c, ast.Call) and isinstance(c.func, ast.Attribute) and c.func.attr in mut_methods:
                recv = unparse(c.func.value)
                if recv == "self.cmap" and f.cls is not None and f.cls.name == "CMapParser":
                    continue  # checked through the constructor sites below
                if recv in ("self", "super()"):
                    continue
                # local receiver must be assigned from a constructor in this function
                fresh = any(isinstance(a, ast.Assign) and unparse(a.targets[0]) == recv and isinstance(a.value, ast.Call) and (model.resolve_expr(f.module, a.value.func, f.cls) or "") in model.classes for a in walk_no_nested(f.node))
                r2.check(fresh, site(f, c), f.qualname, f"{unparse(c)[:70]}: receiver constructed in this function", why=f"`{recv}` may be a cached/shared map (CMapDB caches PyCMap/PyUnicodeMap objects across documents)")
    ctor_sites = 0
    for f in model.funcs.values():
        if isinstance(f.node, ast.Lambda):
            continue
        for c in walk_no_nested(f.node):
            if isinstance(c, ast.Call) and (dotted(c.func) or "") == "CMapParser" and c.args:
                ctor_sites += 1
                arg = unparse(c.args[0])
                fresh = any(isinstance(a, ast.Assign) and unparse(a.targets[0]) == arg and isinstance(a.value, ast.Call) and (dotted(a.value.func) or "") in ("FileUnicodeMap", "FileCMap") and not a.value.args for a in walk_no_nested(f.node))
                r2.check(fresh, site(f, c), f.qualname, f"CMapParser({arg}, ...) parses into a freshly constructed File*Map", why="the parser mutates its map (set_attr, use_cmap, add_cid2unichr); a shared map would carry one document's ToUnicode entries into the next")
    if ctor_sites == 0:
        raise AnchorMissing("no CMapParser construction site found")
    # (e) writers of the alias fields are not methods of the cached classes
    for cls, fld in (("pdfminer.cmapdb.PyCMap", "code2cid"), ("pdfminer.cmapdb.PyUnicodeMap", "cid2unichr")):
        ci = model.cls(cls)
        own_writers = [mf.name for mf in ci.methods.values() if mf.name != "__init__" and any(isinstance(n, (ast.Assign, ast.AugAssign)) and any(isinstance(t, ast.Subscript) and f"self.{fld}" in unparse(t.value) for t in (n.targets if isinstance(n, ast.Assign) else [n.target])) for n in walk_no_nested(mf.node))]
        r2.check(not own_writers, site(model.func(cls + ".__init__")), cls, f"{cls.split('.')[-1]} (cached, aliases the pickled table) defines no method storing into {fld}", why=f"writers: {own_writers}")


def _caches(model: Model, rep: Report) -> None:
    r4 = rep.rule("C12-R4", "SIBLING", "cache-path equivalence: the cache stores, under the caching flag, exactly the value the uncached path returns", 3)
    for q, cache, flag in (("pdfminer.pdfdocument.PDFDocument.getobj", "self._cached_objs", "self.caching"), ("pdfminer.pdfdocument.PDFDocument._getobj_objstm", "self._parsed_objs", "self.caching"), ("pdfminer.pdfinterp.PDFResourceManager.get_font", "self._cached_fonts", "self.caching")):
        f = model.func(q)
        stores = [n for n in walk_no_nested(f.node) if isinstance(n, ast.Assign) and isinstance(n.targets[0], ast.Subscript) and unparse(n.targets[0].value) == cache]
        loads = [n for n in walk_no_nested(f.node) if isinstance(n, ast.Assign) and isinstance(n.value, ast.Subscript) and unparse(n.value.value) == cache]
        rets = [n for n in walk_no_nested(f.node) if isinstance(n, ast.Return) and n.value is not None]
        problems = []
        if len(stores) != 1 or len(loads) != 1:
            problems.append(f"{len(stores)} stores, {len(loads)} loads")
        else:
            st_, ld = stores[0], loads[0]
            guarded = any(pol and flag in unparse(t) for t, pol in _guard_tests(f, st_))
            if not guarded:
                problems.append(f"store not under `{flag}`")
            if unparse(st_.value) != unparse(ld.targets[0]).strip("()") and unparse(st_.value).strip("()") != unparse(ld.targets[0]).strip("()"):
                problems.append(f"stores `{unparse(st_.value)}` but the cached path unpacks `{unparse(ld.targets[0])}`")
            # nothing but the load on the cached branch: the If containing the load has only that statement in that arm
            gts = _guard_tests(f, ld)
            arm = None
            for n in walk_no_nested(f.node):
                if isinstance(n, ast.If) and ld in n.body:
                    arm = n.body
            if arm is None or len(arm) != 1:
                problems.append("the cached branch does more than read the cache")
            # after the store, the stored value is not modified before return
            stored_names = {x.id for x in ast.walk(st_.value) if isinstance(x, ast.Name)}
            order = {id(n): i for i, n in enumerate(walk_no_nested(f.node))}
            later = [n for n in walk_no_nested(f.node) if isinstance(n, (ast.Assign, ast.AugAssign)) and order[id(n)] > order[id(st_)] and any(isinstance(t, ast.Name) and t.id in stored_names for t in (n.targets if isinstance(n, ast.Assign) else [n.target]))]
            if later:
                problems.append(f"value reassigned after caching: {unparse(later[0])[:60]}")
            retv = unparse(rets[-1].value) if rets else ""
            if retv not in stored_names and retv.strip("()") not in {unparse(st_.value).strip("()")} and not (retv in {x for x in stored_names}):
                # _getobj_objstm returns obj = objs[i] derived from the cached tuple on both paths
                if "objs" not in stored_names:
                    problems.append(f"returns `{retv}`, caches `{unparse(st_.value)}`")
        r4.check(not problems, site(f), f.qualname, f"{cache}: stored under {flag}; cached and uncached path yield the same value", why="; ".join(problems))


# ---------------------------------------------------------------------------------------------
# C12-R5: document objects are never mutated in place
ALIAS_CALLS = {"dict_value", "list_value", "resolve1", "stream_value", "resolve", "getobj", "get_any"}
FRESH_CALLS = {"copy", "dict", "list", "set", "sorted", "tuple", "deepcopy", "frozenset"}
# reviewed in-place writers of document values: (function, normalised statement) -> reason
DOC_MUTATION_SAFE: Dict[Tuple[str, str], str] = {
    ("pdfminer.pdftypes.resolve_all", "x[k] = resolve_all(v, default=default)"): "replaces a reference by the object it resolves to; every reader of document values resolves references, so the replacement is value-preserving and idempotent",
}


class _DocAlias:
    """Does an expression denote (alias) an object held by the document - the parsed dictionaries and lists that
    PDFDocument caches and hands out again - as opposed to a fresh copy?  Flow-insensitive over local definitions;
    `self.f` fields are followed to their stores in the class hierarchy; parameters of nested functions to the call
    sites in the enclosing function; other parameters count as document values when their annotation says so."""

    def __init__(self, model: Model, f: FuncInfo) -> None:
        from ..doctaint import DocTaint

        self.m = model
        self.f = f
        self.dt = DocTaint(f)
        a = f.node.args  # type: ignore[attr-defined]
        self.params = [x.arg for x in a.posonlyargs + a.args + a.kwonlyargs]
        self.defs: Dict[str, List[ast.AST]] = {}
        for s in walk_no_nested(f.node):
            if isinstance(s, ast.Assign):
                for t in s.targets:
                    self._bind(t, s.value)
            elif isinstance(s, ast.AnnAssign) and s.value is not None:
                self._bind(s.target, s.value)
            elif isinstance(s, (ast.For, ast.comprehension)):
                self._bind(s.target, ast.Subscript(value=s.iter, slice=ast.Constant(0), ctx=ast.Load()))
            elif isinstance(s, ast.NamedExpr):
                self._bind(s.target, s.value)

    def _bind(self, t: ast.AST, v: ast.AST) -> None:
        if isinstance(t, ast.Name):
            self.defs.setdefault(t.id, []).append(v)
        elif isinstance(t, (ast.Tuple, ast.List)):
            if isinstance(v, (ast.Tuple, ast.List)) and len(v.elts) == len(t.elts):
                for a, b in zip(t.elts, v.elts):
                    self._bind(a, b)
            else:
                for a in t.elts:
                    self._bind(a, ast.Subscript(value=v, slice=ast.Constant(0), ctx=ast.Load()))
        elif isinstance(t, ast.Starred):
            self._bind(t.value, v)

    def aliases(self, e: ast.AST, seen: Tuple[str, ...] = ()) -> bool:
        if isinstance(e, ast.Name):
            if e.id in seen:
                return False
            ds = self.defs.get(e.id)
            if ds is not None:
                return any(self.aliases(v, seen + (e.id,)) for v in ds)
            if e.id in self.params:
                return self._param(e.id, seen + (e.id,))
            return False
        if isinstance(e, ast.Call):
            short = (dotted(e.func) or "").split(".")[-1]
            if isinstance(e.func, ast.Attribute) and e.func.attr in FRESH_CALLS or short in FRESH_CALLS:
                return False
            if short in ALIAS_CALLS:
                return True
            if short == "cast" and len(e.args) == 2:
                return self.aliases(e.args[1], seen)
            if short in ("get", "setdefault") and isinstance(e.func, ast.Attribute):
                return self.aliases(e.func.value, seen)
            return False
        if isinstance(e, ast.Subscript):
            return not isinstance(e.slice, ast.Slice) and self.aliases(e.value, seen)
        if isinstance(e, ast.Attribute):
            if isinstance(e.value, ast.Name) and e.value.id == "self" and self.f.cls is not None:
                stores = _field_stores(self.m, self.f.cls, e.attr)
                if stores:
                    key = "self." + e.attr
                    if key in seen:
                        return False
                    return any(_DocAlias(self.m, g).aliases(v, seen + (key,)) if g is not self.f else self.aliases(v, seen + (key,)) for (g, v) in stores)
            return self.dt.kind(e) in ("DICT", "RAW", "LIST", "STREAM")
        if isinstance(e, ast.IfExp):
            return self.aliases(e.body, seen) or self.aliases(e.orelse, seen)
        if isinstance(e, ast.BoolOp):
            return any(self.aliases(v, seen) for v in e.values)
        if isinstance(e, ast.NamedExpr):
            return self.aliases(e.value, seen)
        return False

    def _param(self, name: str, seen: Tuple[str, ...]) -> bool:
        if name in ("self", "cls"):
            return False
        par = self.f.parent
        if par is not None and not isinstance(par.node, ast.Lambda):
            # nested helper: follow the arguments at its call sites in the enclosing function (and in itself)
            idx = self.params.index(name)
            res = False
            for host in (par, self.f):
                ha = _DocAlias(self.m, host) if host is not self.f else self
                for c in ast.walk(host.node):
                    if isinstance(c, ast.Call) and isinstance(c.func, ast.Name) and c.func.id == self.f.name:
                        arg = c.args[idx] if idx < len(c.args) else next((k.value for k in c.keywords if k.arg == name), None)
                        if arg is not None and ha.aliases(arg, seen if host is self.f else ()):
                            res = True
            return res
        return self.dt.vars.get(name) in ("DICT", "LIST", "RAW", "STREAM")


_FIELD_STORES: Dict[Tuple[int, str, str], List[Tuple[FuncInfo, ast.AST]]] = {}


def _field_stores(model: Model, cls: ClassInfo, attr: str) -> List[Tuple[FuncInfo, ast.AST]]:
    key = (id(model), cls.qualname, attr)
    if key in _FIELD_STORES:
        return _FIELD_STORES[key]
    out: List[Tuple[FuncInfo, ast.AST]] = []
    for cq in model.mro(cls.qualname):
        ci = model.classes.get(cq)
        if ci is None:
            continue
        for mf in ci.methods.values():
            for n in walk_no_nested(mf.node):
                tv: List[Tuple[ast.AST, ast.AST]] = []
                if isinstance(n, ast.Assign):
                    tv = [(t, n.value) for t in n.targets]
                elif isinstance(n, ast.AnnAssign) and n.value is not None:
                    tv = [(n.target, n.value)]
                for t, v in tv:
                    if isinstance(t, ast.Attribute) and t.attr == attr and isinstance(t.value, ast.Name) and t.value.id == "self":
                        out.append((mf, v))
    _FIELD_STORES[key] = out
    return out


def _doc_mutation(model: Model, rep: Report) -> None:
    doc_mutation_rule(model, rep, "C12-R5")


def doc_mutation_rule(model: Model, rep: Report, rid: str, only: Optional[Tuple[str, ...]] = None, min_instances: int = 150) -> None:
    r5 = rep.rule(rid, "ALIAS", "document objects are never written in place: the target of every item store / deletion / mutator call is a fresh container, not an alias of a parsed (cached) dictionary or list" + (f" (functions: {', '.join(x.split('.')[-2] + '.' + x.split('.')[-1] for x in only)})" if only else ""), min_instances)
    for q, f in sorted(model.funcs.items()):
        if isinstance(f.node, ast.Lambda):
            continue
        if only is not None and q not in only:
            continue
        da: Optional[_DocAlias] = None
        for s in walk_no_nested(f.node):
            tgts: List[ast.AST] = []
            if isinstance(s, (ast.Assign, ast.AugAssign)):
                for t in s.targets if isinstance(s, ast.Assign) else [s.target]:
                    if isinstance(t, ast.Subscript):
                        tgts.append(t.value)
            elif isinstance(s, ast.Delete):
                tgts += [t.value for t in s.targets if isinstance(t, ast.Subscript)]
            elif isinstance(s, ast.Call) and isinstance(s.func, ast.Attribute) and s.func.attr in MUTATORS:
                tgts.append(s.func.value)
            for tg in tgts:
                if da is None:
                    da = _DocAlias(model, f)
                txt = unparse(s)
                if not da.aliases(tg):
                    r5.ok(site(f, s), f.qualname, txt[:80], nontrivial=False)
                    continue
                reason = DOC_MUTATION_SAFE.get((f.qualname, txt))
                if reason:
                    r5.safe(site(f, s), f.qualname, txt[:80], reason)
                else:
                    r5.violation(site(f, s), f.qualname, txt[:90], f"`{unparse(tg)}` aliases an object held by the document (parsed dictionary/list, possibly cached): writing into it changes what later pages, later fonts or a run with caching off observe")


def _memo_purity(model: Model, rep: Report) -> None:
    memo_purity_rule(model, rep, "C12-R7")


def memo_purity_rule(model: Model, rep: Report, rid: str) -> None:
    """What a process-wide memo table stores under a key is a function of that key (and of immutable globals) only."""
    r7 = rep.rule(rid, "DEPEND", "memo tables: the value stored under a key depends on the key alone - not on other arguments of the call that happened to fill the table", 2)
    import builtins

    for (container, fq), _reason in sorted(ALLOWED_WRITES.items()):
        f = model.func(fq)
        attr = container.rsplit(".", 1)[1]
        stores = [n for n in walk_no_nested(f.node) if isinstance(n, ast.Assign) and any(isinstance(t, ast.Subscript) and isinstance(t.value, ast.Attribute) and t.value.attr == attr for t in n.targets)]
        if not stores:
            raise AnchorMissing(f"{fq}: store into {attr} not found")
        a = f.node.args  # type: ignore[attr-defined]
        params = [x.arg for x in a.posonlyargs + a.args + a.kwonlyargs]
        defs: Dict[str, List[ast.AST]] = {}
        for n in walk_no_nested(f.node):
            if isinstance(n, ast.Assign):
                for t in n.targets:
                    for x in ast.walk(t):
                        if isinstance(x, ast.Name) and isinstance(x.ctx, ast.Store):
                            defs.setdefault(x.id, []).append(n.value)
        for st_ in stores:
            sub = next(t for t in st_.targets if isinstance(t, ast.Subscript))
            key_names = {x.id for x in ast.walk(sub.slice) if isinstance(x, ast.Name)}
            bound = {x.id for c in ast.walk(st_.value) if isinstance(c, ast.comprehension) for x in ast.walk(c.target) if isinstance(x, ast.Name)}
            bad: List[str] = []

            def depends(e: ast.AST, seen: Tuple[str, ...]) -> None:
                for x in ast.walk(e):
                    if not (isinstance(x, ast.Name) and isinstance(x.ctx, ast.Load)):
                        continue
                    nm = x.id
                    if nm in key_names or nm in bound or nm in seen or nm in ("cls", "self") or hasattr(builtins, nm):
                        continue
                    if nm in defs:
                        for d in defs[nm]:
                            depends(d, seen + (nm,))
                    elif nm in params:
                        bad.append(nm)
                    # anything else is a module/class-level name: process-wide, not per call

            depends(st_.value, ())
            r7.check(not bad, site(f, st_), f.qualname, f"{unparse(st_)[:90]}: stored value depends on the key `{', '.join(sorted(key_names))}` only", why=f"the stored value also depends on the argument(s) {sorted(set(bad))} of the call that filled the table: a later call with the same key and another argument gets the first caller's value")


def font_cache_key_rule(model: Model, rep: Report, rid: str) -> None:
    """The font cache is keyed by object numbers only, and the key is re-derived for every font of a resource dictionary."""
    r8 = rep.rule(rid, "DEPEND", "the font cache is keyed by object numbers only (None for a font dictionary written inline), decided anew for every font", 3)
    ir = model.func("pdfminer.pdfinterp.PDFPageInterpreter.init_resources")
    gf_calls = [c for c in walk_no_nested(ir.node) if isinstance(c, ast.Call) and (dotted(c.func) or "").endswith("get_font")]
    if not gf_calls or not isinstance(gf_calls[0].args[0], ast.Name):
        raise AnchorMissing("init_resources: get_font(objid, spec) call not found")
    kv = gf_calls[0].args[0].id
    vals = [n.value for n in walk_no_nested(ir.node) if isinstance(n, ast.Assign) and any(isinstance(t, ast.Name) and t.id == kv for t in n.targets)]
    badv = [v for v in vals if not ((isinstance(v, ast.Constant) and v.value is None) or (isinstance(v, ast.Attribute) and v.attr == "objid"))]
    r8.check(bool(vals) and not badv, site(ir, badv[0]) if badv else site(ir), ir.qualname, f"`{kv}` is None or the object number of the reference the font was reached through", why=f"`{kv} = {unparse(badv[0])}`: a resource name (like /F1) is local to one resource dictionary; two pages defining /F1 inline and differently would share whichever font was built first" if badv else "no assignment found")
    # the loop over the fonts: within one iteration every path to get_font passes an assignment of the key
    loops = [n for n in walk_no_nested(ir.node) if isinstance(n, ast.For) and any(x is gf_calls[0] for x in ast.walk(n))]
    inner = min(loops, key=lambda n: len(list(ast.walk(n)))) if loops else None
    ok = False
    if inner is not None:
        fn_ = ast.FunctionDef(name="_iter", args=ir.node.args, body=inner.body, decorator_list=[], lineno=inner.lineno, col_offset=0)  # type: ignore[attr-defined]
        g = build_cfg(fn_, exc_edges=False)
        tgt = next((n.id for n in g.nodes if n.ast is not None and n.kind == "stmt" and any(x is gf_calls[0] for x in ast.walk(n.ast))), None)
        if tgt is not None:
            wit = g.all_path_pass(g.entry, lambda n: n.kind == "stmt" and isinstance(n.ast, ast.Assign) and any(isinstance(t, ast.Name) and t.id == kv for t in n.ast.targets) and isinstance(n.ast.value, ast.Constant) and n.ast.value.value is None, until=[tgt])
            ok = wit is None
    r8.check(ok, site(ir, inner) if inner is not None else site(ir), ir.qualname, f"every iteration of the font loop starts from `{kv} = None`", why="the key is not reset per font: an inline font that follows an indirectly referenced one keeps that font's object number and is answered from the cache with the previous font")
    gf = model.func("pdfminer.pdfinterp.PDFResourceManager.get_font")
    sgf = "".join(unparse(gf.node).split())
    r8.check("ifobjidandobjidinself._cached_fonts:" in sgf and "ifobjidandself.caching:self._cached_fonts[objid]=font" in sgf, site(gf), gf.qualname, "get_font consults and fills the cache only for a truthy object number", why="cache guard changed")


def intern_monotone_rule(model: Model, rep: Report, rid: str) -> None:
    r10 = rep.rule(rid, "WRITESET", "the interned-name tables (PSLiteralTable, PSKeywordTable) only grow: an entry, once made, is never dropped or replaced - module-level constants such as LITERAL_PAGE are compared by identity with names read later", 2)
    st_cls = model.cls("pdfminer.psparser.PSSymbolTable")
    stores10 = 0
    for mname, mf in sorted(st_cls.methods.items()):
        for n in walk_no_nested(mf.node):
            txt = None
            if isinstance(n, ast.Call) and isinstance(n.func, ast.Attribute) and unparse(n.func.value) == "self.dict" and n.func.attr in MUTATORS:
                txt = unparse(n)
            elif isinstance(n, ast.Delete) and any(unparse(t).startswith("self.dict") for t in n.targets):
                txt = unparse(n)
            elif isinstance(n, (ast.Assign, ast.AnnAssign, ast.AugAssign)):
                tgts = n.targets if isinstance(n, ast.Assign) else [n.target]
                for t in tgts:
                    if unparse(t) == "self.dict" and mname != "__init__":
                        txt = unparse(n)
                    elif isinstance(t, ast.Subscript) and unparse(t.value) == "self.dict":
                        stores10 += 1
                        g = {"".join(unparse(x).split()) for x, pol in _guard_tests(mf, n) if not pol}
                        key = unparse(t.slice)
                        r10.check(any(x == f"{key}inself.dict" for x in g), site(mf, n), mf.qualname, f"`{unparse(n)}` runs only when `{key}` is not in the table yet", why=f"guards {sorted(g)}: an existing entry can be replaced, so a name interned at import time stops being identical to the same name read later")
            if txt is not None:
                r10.violation(site(mf, n), mf.qualname, txt, "the table is emptied, shrunk or replaced after construction: constants interned at import time (LITERAL_PAGE, KEYWORD_OBJ, ...) are no longer the objects that later lookups return, so documents read afterwards are understood differently from documents read before")
    init10 = st_cls.methods.get("__init__")
    r10.check(init10 is not None and stores10 >= 1, site(init10) if init10 is not None else "pdfminer/psparser.py:0", st_cls.qualname, "the table is created in __init__ and filled by intern only", why="no store found")

"""C20 - geometry helpers obey affine algebra; spatial index equals brute-force search."""

from __future__ import annotations

import ast
from typing import Any, Dict, List, Set, Tuple

from ..cfg import build_cfg, contains_call
from ..fold import Folder
from ..model import AnchorMissing, Model, dotted, unparse, walk_no_nested
from ..norm import NotPolynomial, Poly, SymEval, canon_compare
from ..report import Report
from ..util import bool_operands, param_unpack, site, subst_names, unpack_aliases

U = "pdfminer.utils."


def _vars(prefix: str, n: int) -> Tuple[Poly, ...]:
    return tuple(Poly.var(f"{prefix}{i}") for i in range(n))


def run(model: Model, rep: Report) -> None:
    rep.explanation = (
        "C20: the matrix helpers are rewritten into canonical multivariate polynomials (exact ring arithmetic, no floating point) "
        "and the affine-algebra laws are decided as polynomial identities; apply_matrix_rect is evaluated with min/max as "
        "uninterpreted commutative symbols; Plane's add/remove/find/__iter__ are checked for the write sets, pairing and the "
        "overlap predicate on their syntax trees / CFGs.  Decides the algebra exactly (for exact arithmetic) and the structural "
        "part of the spatial-index clause; index behaviour on histories is not decided beyond R3-R7."
    )
    rep.assumptions += ["exact (rational) arithmetic for the algebraic laws; floating-point rounding is not modelled"]
    r1 = rep.rule("C20-R1", "LAW", "affine-algebra laws hold as polynomial identities", 7)
    fo = Folder(model)
    mod = model.module("pdfminer.utils")
    names = ["mult_matrix", "translate_matrix", "apply_matrix_pt", "apply_matrix_norm", "apply_matrix_rect"]
    fns = {n: model.func(U + n) for n in names}
    se = SymEval(opaque_ok=False)
    calls: Dict[str, Any] = {}
    se.calls = calls
    try:
        for n in ("mult_matrix", "translate_matrix", "apply_matrix_pt", "apply_matrix_norm"):
            general, problems = _special_cases(fns[n].node, se)
            for pr in problems:
                r1.violation(site(fns[n]), fns[n].qualname, f"{n}: special-case branch", pr)
            calls[n] = se.function(general)  # type: ignore[arg-type]
        mult, trans, appt, apnorm = (calls[n] for n in ("mult_matrix", "translate_matrix", "apply_matrix_pt", "apply_matrix_norm"))
        A, B, C = _vars("a", 6), _vars("b", 6), _vars("c", 6)
        P = _vars("p", 2)
        ident = tuple(Poly.const(x) for x in fo.fold(mod, mod.assigns["MATRIX_IDENTITY"]))
        zero = (Poly.const(0), Poly.const(0))

        def law(name: str, lhs: Any, rhs: Any, f) -> None:
            r1.check(lhs == rhs, site(f), f.qualname, name, why=f"identity fails: lhs={lhs!r} rhs={rhs!r}")

        f = fns["mult_matrix"]
        law("mult_matrix(I, m) == m", mult(ident, A), A, f)
        law("mult_matrix(m, I) == m", mult(A, ident), A, f)
        law("mult_matrix(mult_matrix(a,b),c) == mult_matrix(a,mult_matrix(b,c))", mult(mult(A, B), C), mult(A, mult(B, C)), f)
        law("apply_matrix_pt(mult_matrix(m1,m0),p) == apply_matrix_pt(m0,apply_matrix_pt(m1,p))", appt(mult(A, B), P), appt(B, appt(A, P)), fns["apply_matrix_pt"])
        tm = (Poly.const(1), Poly.const(0), Poly.const(0), Poly.const(1), P[0], P[1])
        law("translate_matrix(m,v) == mult_matrix((1,0,0,1,vx,vy),m)", trans(A, P), mult(tm, A), fns["translate_matrix"])
        d = tuple(x - y for x, y in zip(appt(A, P), appt(A, zero)))
        law("apply_matrix_norm(m,v) == apply_matrix_pt(m,v) - apply_matrix_pt(m,(0,0))", apnorm(A, P), d, fns["apply_matrix_norm"])
        # absolute convention (ISO 32000-1 8.3.4): x' = a x + c y + e ; y' = b x + d y + f
        a, b, c, dd, e, ff = A
        spec = (a * P[0] + c * P[1] + e, b * P[0] + dd * P[1] + ff)
        law("apply_matrix_pt(m,(x,y)) == (a*x + c*y + e, b*x + d*y + f)", appt(A, P), spec, fns["apply_matrix_pt"])
    except NotPolynomial as ex:
        r1.violation(site(fns["mult_matrix"]), U + "mult_matrix", "helpers are straight-line polynomial maps", f"not a polynomial straight-line function: {ex}")

    # ---------------------------------------------------------------- R2 rect
    r2 = rep.rule("C20-R2", "NORMFORM", "apply_matrix_rect is the hull of the images of exactly the four corners", 1)
    f = fns["apply_matrix_rect"]
    try:
        se2 = SymEval(opaque_ok=False)
        se2.calls = {
            "apply_matrix_pt": calls.get("apply_matrix_pt"),
            "min": lambda *xs: ("min", frozenset(xs)),
            "max": lambda *xs: ("max", frozenset(xs)),
        }
        rectf = se2.function(f.node)  # type: ignore[arg-type]
        M = _vars("m", 6)
        R = _vars("r", 4)
        res = rectf(M, R)
        appt = calls["apply_matrix_pt"]
        corners = [(R[0], R[1]), (R[2], R[1]), (R[2], R[3]), (R[0], R[3])]
        imgs = [appt(M, c) for c in corners]
        xs = frozenset(i[0] for i in imgs)
        ys = frozenset(i[1] for i in imgs)
        want = (("min", xs), ("min", ys), ("max", xs), ("max", ys))
        r2.check(res == want, site(f), f.qualname, "(min X, min Y, max X, max Y) over images of (x0,y0),(x1,y0),(x1,y1),(x0,y1)", why=f"got {res!r}")
    except (NotPolynomial, TypeError, KeyError) as ex:
        r2.violation(site(f), f.qualname, "(min X, min Y, max X, max Y) over images of the four corners", f"cannot be evaluated symbolically: {ex}")

    _plane(model, rep)
    _getrange_clamp(model, rep)
    find_readonly_rule(model, rep, "C20-R10")
    seq_writers_rule(model, rep)


def _special_cases(fn: ast.AST, se: SymEval):
    """A helper may shortcut special operands (`if (a1, b1, c1, d1) == (1, 0, 0, 1): return ...`).  Such a branch is sound iff
    its result equals the general formula with the condition substituted.  Returns the function without those branches (for
    the law checks) and the list of branches that disagree with it (or whose condition is not a conjunction of name == constant)."""
    import copy

    body = list(fn.body)  # type: ignore[attr-defined]
    idx = [i for i, st in enumerate(body) if isinstance(st, ast.If) and not st.orelse and len(st.body) == 1 and isinstance(st.body[0], ast.Return)]
    if not idx:
        return fn, []
    general = copy.copy(fn)
    general.body = [st for i, st in enumerate(body) if i not in idx]  # type: ignore[attr-defined]
    problems: List[str] = []
    for i in idx:
        st = body[i]
        subst: Dict[str, ast.AST] = {}
        ok = True
        parts = st.test.values if isinstance(st.test, ast.BoolOp) and isinstance(st.test.op, ast.And) else [st.test]
        for t in parts:
            if isinstance(t, ast.Compare) and len(t.ops) == 1 and isinstance(t.ops[0], ast.Eq):
                l, r = t.left, t.comparators[0]
                if isinstance(l, ast.Tuple) and isinstance(r, ast.Tuple) and len(l.elts) == len(r.elts) and all(isinstance(a, ast.Name) and isinstance(b, ast.Constant) for a, b in zip(l.elts, r.elts)):
                    subst.update({a.id: b for a, b in zip(l.elts, r.elts)})  # type: ignore[union-attr]
                    continue
                if isinstance(l, ast.Name) and isinstance(r, ast.Constant):
                    subst[l.id] = r
                    continue
            ok = False
        if not ok:
            problems.append(f"`if {ast.unparse(st.test)}` returns early under a condition that is not a conjunction of `name == constant`: the laws cannot be decided for that branch")
            continue
        prefix = body[:i]
        fix = [ast.Assign(targets=[ast.Name(id=k, ctx=ast.Store())], value=v) for k, v in subst.items()]
        for x in fix:
            ast.fix_missing_locations(ast.copy_location(x, st))
        arm_fn = copy.copy(fn)
        arm_fn.body = prefix + fix + [st.body[0]]  # type: ignore[attr-defined]
        gen_fn = copy.copy(fn)
        gen_fn.body = prefix + fix + [s2 for j, s2 in enumerate(body) if j > i and j not in idx]  # type: ignore[attr-defined]
        nargs = len(fn.args.args)  # type: ignore[attr-defined]
        args = [tuple(Poly.var(f"{a.arg}_{k}") for k in range(6)) for a in fn.args.args]  # type: ignore[attr-defined]
        try:
            va, vg = se.function(arm_fn)(*args), se.function(gen_fn)(*args)  # type: ignore[arg-type]
        except (NotPolynomial, TypeError, ValueError):
            # operands that are points (2 components), not matrices
            args = [tuple(Poly.var(f"{a.arg}_{k}") for k in range(6 if j == 0 else 2)) for j, a in enumerate(fn.args.args)]  # type: ignore[attr-defined]
            va, vg = se.function(arm_fn)(*args), se.function(gen_fn)(*args)  # type: ignore[arg-type]
        if va != vg:
            problems.append(f"under `{ast.unparse(st.test)}` the shortcut returns {va!r} but the general formula gives {vg!r}: composition with such an operand no longer equals applying the factors in turn")
    return general, problems


def _canon_set(test: ast.AST, aliases: Dict[str, str], negate: bool) -> Set[Tuple[str, str, str]]:
    out: Set[Tuple[str, str, str]] = set()
    for part in bool_operands(test, ast.Or if negate else ast.And):
        p = subst_names(part, aliases)
        for t in canon_compare(p, negate=negate):
            out.add(t)
    return out


def _plane(model: Model, rep: Report) -> None:
    P = "pdfminer.utils.Plane."
    add, remove, find, it, getrange = (model.func(P + n) for n in ("add", "remove", "find", "__iter__", "_getrange"))
    r3 = rep.rule("C20-R3", "WRITESET", "Plane.add/remove/find/__iter__: write sets, shared cell range, dedup and live filter", 8)

    def getrange_loops(f) -> List[ast.For]:
        return [n for n in walk_no_nested(f.node) if isinstance(n, ast.For) and contains_call(n, lambda c: (dotted(c.func) or "") == "self._getrange")]

    # add: cells of _getrange(obj bbox) all get obj; _seq.append and _objs.add on all paths
    g = build_cfg(add.node)
    for callee, what in (("self._seq.append", "add appends obj to _seq on every path"), ("self._objs.add", "add registers obj in _objs on every path")):
        wit = g.all_path_pass(g.entry, lambda n, c=callee: n.ast is not None and n.kind == "stmt" and contains_call(n.ast, lambda k: (dotted(k.func) or "") == c))
        r3.check(wit is None, site(add), add.qualname, what, why="a path from entry to exit avoids the call")
    loops = getrange_loops(add)
    ok = False
    bbox_add = ""
    if len(loops) == 1:
        lp = loops[0]
        bbox_add = unparse(lp.iter.args[0]) if isinstance(lp.iter, ast.Call) and lp.iter.args else ""
        # every path through the loop body appends obj to the list stored at self._grid[k]
        k = unparse(lp.target)
        gb = build_cfg(ast.FunctionDef(name="_body", args=add.node.args, body=lp.body, decorator_list=[], lineno=lp.lineno, col_offset=0))  # type: ignore[attr-defined]
        wit = gb.all_path_pass(gb.entry, lambda n: n.ast is not None and contains_call(n.ast, lambda c: isinstance(c.func, ast.Attribute) and c.func.attr == "append"))
        # the appended-to list must be self._grid[k] on each path
        grid_reads = [n for n in walk_no_nested(lp) if isinstance(n, ast.Subscript) and unparse(n.value) == "self._grid" and unparse(n.slice) == k]
        ok = wit is None and len(grid_reads) >= 1
    r3.check(ok, site(add), add.qualname, "add stores obj into self._grid[k] for every k of self._getrange(<obj bbox>)", why="loop over _getrange missing or a path through its body stores nothing")
    r3.check(bbox_add.replace(" ", "") == "(obj.x0,obj.y0,obj.x1,obj.y1)", site(add), add.qualname, "add derives cells from (obj.x0, obj.y0, obj.x1, obj.y1)", why=f"cells derived from {bbox_add}")
    # remove: same range, removes from grid cell, _objs.remove on all paths
    loops = getrange_loops(remove)
    bbox_rm = unparse(loops[0].iter.args[0]) if len(loops) == 1 and loops[0].iter.args else ""  # type: ignore[union-attr]
    r3.check(bbox_rm == bbox_add and bbox_rm != "", site(remove), remove.qualname, "remove walks the same cell range as add", why=f"add uses {bbox_add!r}, remove uses {bbox_rm!r}")
    rm_ok = any(
        isinstance(n, ast.Call) and isinstance(n.func, ast.Attribute) and n.func.attr == "remove" and unparse(n.func.value).startswith("self._grid[")
        for lp in loops for n in walk_no_nested(lp)
    )
    r3.check(rm_ok, site(remove), remove.qualname, "remove deletes obj from every cell list self._grid[k]", why="no self._grid[k].remove(obj) in the cell loop")
    g = build_cfg(remove.node, exc_edges=False)
    wit = g.all_path_pass(g.entry, lambda n: n.ast is not None and n.kind == "stmt" and contains_call(n.ast, lambda k: (dotted(k.func) or "") in ("self._objs.remove", "self._objs.discard")))
    r3.check(wit is None, site(remove), remove.qualname, "remove unregisters obj from _objs on every path", why="a path avoids self._objs.remove")
    # find: loop over _getrange(bbox); dedup set dominates yield
    loops = getrange_loops(find)
    q = unparse(loops[0].iter.args[0]) if len(loops) == 1 and loops[0].iter.args else ""  # type: ignore[union-attr]
    r3.check(q == find.params[1] if len(find.params) > 1 else False, site(find), find.qualname, "find derives cells from its query box via the same _getrange", why=f"got {q!r}")
    g = build_cfg(find.node)
    ys = [n.id for n in g.nodes if n.ast is not None and n.kind == "stmt" and any(isinstance(x, (ast.Yield, ast.YieldFrom)) for x in ast.walk(n.ast))]
    dom = g.dominators()
    dedup_ok = bool(ys)
    for y in ys:
        tests = [g.nodes[d] for d in dom[y] if g.nodes[d].kind == "test"]
        has_in = any(isinstance(t.ast, ast.Compare) and isinstance(t.ast.ops[0], (ast.In, ast.NotIn)) for t in tests)
        adds = [g.nodes[d] for d in dom[y] if g.nodes[d].kind == "stmt" and contains_call(g.nodes[d].ast, lambda c: isinstance(c.func, ast.Attribute) and c.func.attr == "add")]
        dedup_ok = dedup_ok and has_in and bool(adds)
    r3.check(dedup_ok, site(find), find.qualname, "every yield in find is dominated by a seen-set membership test and the seen-set add", why="an object stored in several cells would be reported more than once")
    # __iter__: iterate _seq filtered by membership in _objs
    src = unparse(it.node)
    gens = [n for n in walk_no_nested(it.node) if isinstance(n, (ast.GeneratorExp, ast.ListComp))]
    iter_ok = False
    for ge in gens:
        c = ge.generators[0]
        if unparse(c.iter) == "self._seq" and any(isinstance(i, ast.Compare) and isinstance(i.ops[0], ast.In) and unparse(i.comparators[0]) == "self._objs" for i in c.ifs):
            iter_ok = True
    if not gens:
        # loop form
        for n in walk_no_nested(it.node):
            if isinstance(n, ast.For) and unparse(n.iter) == "self._seq" and "self._objs" in unparse(n):
                iter_ok = True
    r3.check(iter_ok, site(it), it.qualname, "__iter__ yields self._seq (insertion order) filtered by membership in self._objs", why=src[:120])

    # ------------------------------------------------------------ R4 predicate
    r4 = rep.rule("C20-R4", "TABLE", "proper-overlap predicate: four strict inequalities", 2)
    want = {("bbox[0]", "<", "obj.x1"), ("obj.x0", "<", "bbox[2]"), ("bbox[1]", "<", "obj.y1"), ("obj.y0", "<", "bbox[3]")}
    al = unpack_aliases(find)
    pname = find.params[1] if len(find.params) > 1 else "bbox"
    al = {k: v.replace(pname + "[", "bbox[") for k, v in al.items()}
    got: Set[Tuple[str, str, str]] = set()
    found = False
    for n in walk_no_nested(find.node):
        if isinstance(n, ast.If) and "obj." in unparse(n.test) and isinstance(n.test, (ast.BoolOp, ast.Compare)) and any(isinstance(c, ast.Compare) and isinstance(c.ops[0], (ast.Lt, ast.LtE, ast.Gt, ast.GtE)) for c in ast.walk(n.test)):
            rejecting = len(n.body) == 1 and isinstance(n.body[0], ast.Continue)
            try:
                got = _canon_set(n.test, al, negate=rejecting)
            except ValueError:
                continue
            found = True
            break
    r4.check(found and got == want, site(find), find.qualname, "accept iff x0 < obj.x1 and obj.x0 < x1 and y0 < obj.y1 and obj.y0 < y1", why=f"normalised acceptance set is {sorted(got)}")
    # _getrange early exit: same shape against the plane bounds
    pname = getrange.params[1] if len(getrange.params) > 1 else "bbox"
    al = {k: v.replace(pname + "[", "bbox[") for k, v in param_unpack(getrange, pname).items()}
    want2 = {("self.x0", "<", "bbox[2]"), ("bbox[0]", "<", "self.x1"), ("self.y0", "<", "bbox[3]"), ("bbox[1]", "<", "self.y1")}
    got2: Set[Tuple[str, str, str]] = set()
    found2 = False
    early = None
    for n in walk_no_nested(getrange.node):
        if isinstance(n, ast.If) and len(n.body) == 1 and isinstance(n.body[0], ast.Return):
            try:
                got2 = _canon_set(n.test, al, negate=True)
            except ValueError:
                continue
            found2 = True
            early = n
            break
    r4.check((not found2) or got2 == want2, site(getrange), getrange.qualname, "_getrange yields cells unless the box lies outside the index bounds (strict)", why=f"normalised continue-set is {sorted(got2)}")

    # ----------------------------------------------- R5-R7 (today: known findings)
    drange_rule(model, rep, "C20-R5")
    r6 = rep.rule("C20-R6", "REACH", "every live object is stored in at least one cell", 1)
    if found2 and early is not None:
        r6.violation(site(getrange, early), getrange.qualname, "early return for boxes outside the index bounds", "add() still registers the object in _objs/_seq, yet no cell holds it: find() can never return it although it counts as live")
    else:
        r6.ok(site(getrange), getrange.qualname, "no early return in _getrange")
    r7 = rep.rule("C20-R7", "PAIR", "remove undoes every container write of add", 1)
    undone = any(isinstance(n, ast.Call) and (dotted(n.func) or "").startswith("self._seq.") for n in walk_no_nested(remove.node)) or any(
        isinstance(t, ast.Attribute) and unparse(t) == "self._seq" for n in walk_no_nested(remove.node) if isinstance(n, ast.Assign) for t in n.targets
    )
    if undone:
        r7.ok(site(remove), remove.qualname, "remove updates _seq")
    else:
        r7.violation(site(remove), remove.qualname, "remove leaves self._seq untouched", "add/remove/add of one object leaves it twice in _seq: iteration yields it twice")


def drange_rule(model: Model, rep: Report, rid: str) -> None:
    """Cells covering [v0, v1]: floor(v0 / d) .. floor(v1 / d) inclusive, for negative coordinates too."""
    r5 = rep.rule(rid, "ROUNDING", "grid cells of an interval: floor(v0 / d) .. floor(v1 / d) inclusive (also for negative coordinates)", 1)
    dr = model.func(U + "drange")
    ret = next((n for n in walk_no_nested(dr.node) if isinstance(n, ast.Return)), None)
    v0, v1, d = (Poly.var(x) for x in dr.params[:3])
    se = SymEval(opaque_ok=False)
    if ret is None or not (isinstance(ret.value, ast.Call) and (dotted(ret.value.func) or "") == "range" and len(ret.value.args) == 2):
        r5.violation(site(dr), dr.qualname, "drange returns range(lower, upper)", "shape changed")
        return
    trunc = [n for n in ast.walk(ret.value) if isinstance(n, ast.BinOp) and isinstance(n.op, ast.FloorDiv) and isinstance(n.left, ast.Call) and (dotted(n.left.func) or "") == "int"]
    if trunc:
        r5.violation(site(dr, ret), dr.qualname, "int(v) // d", "int() truncates toward zero before the floor division: a box inside (-1, 0) gets an empty cell range and is never found")
        return

    def floordiv_of(e: ast.AST):
        """e == floor(P) // d  -> P (polynomial), else None"""
        if isinstance(e, ast.BinOp) and isinstance(e.op, ast.FloorDiv) and unparse(e.right) == dr.params[2] and isinstance(e.left, ast.Call) and (dotted(e.left.func) or "") in ("math.floor", "floor") and len(e.left.args) == 1:
            try:
                return se.expr(e.left.args[0], {})
            except NotPolynomial:
                return None
        return None

    lo, up = ret.value.args
    plo = floordiv_of(lo)
    ok_lo = plo is not None and plo == v0
    pup = floordiv_of(up)
    ok_up = pup is not None and pup == v1 + d
    if not ok_up and isinstance(up, ast.BinOp) and isinstance(up.op, ast.Add) and isinstance(up.right, ast.Constant) and up.right.value == 1:
        p2 = floordiv_of(up.left)
        ok_up = p2 is not None and p2 == v1
    r5.check(ok_lo and ok_up, site(dr, ret), dr.qualname, "range(floor(v0) // d, floor(v1 + d) // d)", why=f"returns `{unparse(ret.value)}`: the last (or first) cell of an interval is left out for some coordinates, so an object lying in it is never found")


def _getrange_clamp(model: Model, rep: Report, rid: str = "C20-R8") -> None:
    r8 = rep.rule(rid, "NORMFORM", "Plane._getrange clamps each coordinate of the query with the plane's bound on the same axis and side", 4)
    f = model.func("pdfminer.utils.Plane._getrange")
    pname = f.params[1] if len(f.params) > 1 else "bbox"
    al = param_unpack(f, pname)  # local -> bbox[i]
    idx = {v.replace(pname, "").strip("[]"): k for k, v in al.items()}
    want = {"0": ("max", "self.x0"), "1": ("max", "self.y0"), "2": ("min", "self.x1"), "3": ("min", "self.y1")}
    found = 0
    for n in walk_no_nested(f.node):
        if not (isinstance(n, ast.Assign) and isinstance(n.targets[0], ast.Name) and isinstance(n.value, ast.Call) and (dotted(n.value.func) or "") in ("min", "max") and len(n.value.args) == 2):
            continue
        t = n.targets[0].id
        comp = al.get(t, "").replace(pname, "").strip("[]")
        if comp not in want:
            continue
        found += 1
        fn_, bound = want[comp]
        args = sorted(unparse(a) for a in n.value.args)
        r8.check((dotted(n.value.func) or "") == fn_ and args == sorted([bound, t]), site(f, n), f.qualname, f"{t} = {fn_}({bound}, {t})", why=f"`{unparse(n)}`: the {['left', 'bottom', 'right', 'top'][int(comp)]} edge of the query is clamped with another bound; for a plane whose x- and y-bounds differ objects are filed under the wrong cells or none")
    if found < 4:
        r8.violation(site(f), f.qualname, "four clamping assignments", f"only {found} found")


def overlap_predicate_rule(model: Model, rep: Report, rid: str) -> None:
    """Plane.find reports exactly the objects that properly overlap the query (touching edges do not count): shared with C09,
    whose neighbour search (`closer than line_margin`) relies on the strictness."""
    r = rep.rule(rid, "TABLE", "Plane.find: an object is reported iff x0 < obj.x1 and obj.x0 < x1 and y0 < obj.y1 and obj.y0 < y1 (strict on all four sides)", 1)
    find = model.func("pdfminer.utils.Plane.find")
    want = {("bbox[0]", "<", "obj.x1"), ("obj.x0", "<", "bbox[2]"), ("bbox[1]", "<", "obj.y1"), ("obj.y0", "<", "bbox[3]")}
    al = unpack_aliases(find)
    pname = find.params[1] if len(find.params) > 1 else "bbox"
    al = {k: v.replace(pname + "[", "bbox[") for k, v in al.items()}
    got: Set[Tuple[str, str, str]] = set()
    found = False
    for n in walk_no_nested(find.node):
        if isinstance(n, ast.If) and "obj." in unparse(n.test) and isinstance(n.test, (ast.BoolOp, ast.Compare)) and any(isinstance(c, ast.Compare) and isinstance(c.ops[0], (ast.Lt, ast.LtE, ast.Gt, ast.GtE)) for c in ast.walk(n.test)):
            rejecting = len(n.body) == 1 and isinstance(n.body[0], ast.Continue)
            try:
                got = _canon_set(n.test, al, negate=rejecting)
            except ValueError:
                continue
            found = True
            break
    r.check(found and got == want, site(find), find.qualname, "accept iff x0 < obj.x1 and obj.x0 < x1 and y0 < obj.y1 and obj.y0 < y1", why=f"normalised acceptance set is {sorted(got)}: a line exactly line_margin away (touching the search box) would count as a neighbour")


def seq_writers_rule(model: Model, rep: Report) -> None:
    r9 = rep.rule("C20-R9", "WRITESET", "Plane._seq (the insertion order) is created in __init__ and only ever appended to by add", 2)
    n_ = 0
    for mname, f in sorted(model.cls("pdfminer.utils.Plane").methods.items()):
        for n in walk_no_nested(f.node):
            how = None
            if isinstance(n, (ast.Assign, ast.AugAssign, ast.AnnAssign)):
                for t in n.targets if isinstance(n, ast.Assign) else [n.target]:
                    if isinstance(t, ast.Attribute) and t.attr == "_seq":
                        how = "assignment"
                    elif isinstance(t, ast.Subscript) and isinstance(t.value, ast.Attribute) and t.value.attr == "_seq":
                        how = "item store"
            elif isinstance(n, ast.Delete) and any("_seq" in unparse(t) for t in n.targets):
                how = "deletion"
            elif isinstance(n, ast.Call) and isinstance(n.func, ast.Attribute) and isinstance(n.func.value, ast.Attribute) and n.func.value.attr == "_seq" and n.func.attr in ("append", "extend", "insert", "pop", "remove", "clear", "sort", "reverse"):
                how = "." + n.func.attr + "()"
            if how is None:
                continue
            n_ += 1
            ok = (mname == "__init__" and how == "assignment") or (mname == "add" and how == ".append()")
            r9.check(ok, site(f, n), f.qualname, f"_seq {how}: {unparse(n)[:60]}", why="iteration order is the order of _seq: rebuilding or re-ordering it (for example from the set of live objects) loses the insertion order")
    if n_ < 2:
        raise AnchorMissing("Plane: writes of _seq not found")


def plane_membership_rule(model: Model, rep: Report, rid: str) -> None:
    """The part of the Plane contract the grouping loops of the layout analysis rely on: an object is live from add to
    remove, whatever its position (also wholly outside the plane, where it occupies no grid cell)."""
    P = "pdfminer.utils.Plane."
    add, remove, it = (model.func(P + n) for n in ("add", "remove", "__iter__"))
    r = rep.rule(rid, "WRITESET", "Plane membership: add registers and remove unregisters the object on every path (also for objects that occupy no grid cell); iteration yields exactly the live objects", 4)
    g = build_cfg(add.node)
    for callee, what in (("self._seq.append", "add appends obj to _seq on every path"), ("self._objs.add", "add registers obj in _objs on every path")):
        wit = g.all_path_pass(g.entry, lambda n, c=callee: n.ast is not None and n.kind == "stmt" and contains_call(n.ast, lambda k: (dotted(k.func) or "") == c))
        r.check(wit is None, site(add), add.qualname, what, why="a path from entry to exit avoids the call")
    g = build_cfg(remove.node, exc_edges=False)
    wit = g.all_path_pass(g.entry, lambda n: n.ast is not None and n.kind == "stmt" and contains_call(n.ast, lambda k: (dotted(k.func) or "") in ("self._objs.remove", "self._objs.discard")))
    r.check(wit is None, site(remove), remove.qualname, "remove unregisters obj from _objs on every path", why="a path avoids self._objs.remove (e.g. an object outside the plane has no cells, so a call inside the cell loop never runs): a merged text box stays in the plane next to the group that contains it")
    gens = [n for n in walk_no_nested(it.node) if isinstance(n, (ast.GeneratorExp, ast.ListComp))]
    iter_ok = any(unparse(ge.generators[0].iter) == "self._seq" and any(isinstance(i, ast.Compare) and isinstance(i.ops[0], ast.In) and unparse(i.comparators[0]) == "self._objs" for i in ge.generators[0].ifs) for ge in gens)
    if not gens:
        iter_ok = any(isinstance(n, ast.For) and unparse(n.iter) == "self._seq" and "self._objs" in unparse(n) for n in walk_no_nested(it.node))
    r.check(iter_ok, site(it), it.qualname, "__iter__ yields self._seq filtered by membership in self._objs", why=unparse(it.node)[:120])


def find_readonly_rule(model: Model, rep: Report, rid: str) -> None:
    """Plane.find is a lazy generator: two queries may be consumed alternately, so whatever it uses to remember what it has
    yielded must belong to the call - no attribute of the plane is written or mutated, directly or through a local alias."""
    r = rep.rule(rid, "ALIAS", "Plane.find keeps its bookkeeping in the call: it neither stores into nor mutates an attribute of the plane (queries consumed alternately must not share a de-duplication set)", 1)
    f = model.func("pdfminer.utils.Plane.find")
    aliases = {t.id for a in walk_no_nested(f.node) if isinstance(a, ast.Assign) and isinstance(a.value, ast.Attribute) and isinstance(a.value.value, ast.Name) and a.value.value.id == "self" for t in a.targets if isinstance(t, ast.Name)}
    MUT = {"add", "clear", "append", "extend", "remove", "discard", "pop", "update", "insert", "setdefault", "popitem", "sort"}
    bad = []
    for n in walk_no_nested(f.node):
        if isinstance(n, ast.Attribute) and isinstance(n.ctx, (ast.Store, ast.Del)) and isinstance(n.value, ast.Name) and n.value.id == "self":
            bad.append(unparse(n))
        if isinstance(n, ast.Call) and isinstance(n.func, ast.Attribute) and n.func.attr in MUT:
            b = n.func.value
            if (isinstance(b, ast.Name) and b.id in aliases) or (isinstance(b, ast.Attribute) and isinstance(b.value, ast.Name) and b.value.id == "self"):
                bad.append(unparse(n))
        if isinstance(n, ast.Subscript) and isinstance(n.ctx, (ast.Store, ast.Del)):
            b = n.value
            if (isinstance(b, ast.Name) and b.id in aliases) or (isinstance(b, ast.Attribute) and isinstance(b.value, ast.Name) and b.value.id == "self"):
                bad.append(unparse(n))
    r.check(not bad, site(f), f.qualname, "find writes no attribute of the plane and mutates nothing reachable from one", why=f"{bad[:3]}: the object is shared by every query on this plane; a second query started before the first is exhausted clears or fills it under the first one's feet")

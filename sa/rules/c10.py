"""C10 - decryption: either password opens the document to exactly the original content."""

from __future__ import annotations

import ast
import json
import os
from typing import Dict, List, Optional, Set, Tuple

from ..cfg import build_cfg, contains_call
from ..fold import Folder, Unfoldable
from ..model import AnchorMissing, FuncInfo, Model, dotted, unparse, walk_no_nested
from ..norm import canon_compare
from ..report import VERIF, Report
from ..util import site
from .tokenizer import _guard_tests

D = "pdfminer.pdfdocument."
H = D + "PDFStandardSecurityHandler"


def _spec() -> dict:
    with open(os.path.join(VERIF, "spec", "std_security.json")) as f:
        return json.load(f)


def run(model: Model, rep: Report) -> None:
    rep.explanation = (
        "C10: decides the structural part of decryption: the exact set of places where decryption is applied (direct objects in getobj - never "
        "object-stream members - and once in PDFStream.decode before the filters; cross-reference data is decoded before any handler exists), "
        "that AES object data passes through PKCS#7 unpadding while key unwrapping does not, the constants, round counts, slice lengths and "
        "hash-update order of Algorithms 2-7/2.A/2.B, handler registry and crypt-filter names, permission bits, that a failed authentication can "
        "only end in PDFPasswordIncorrect, and the range of the unsigned conversion of /P. That the derived keys open real files is cryptographic "
        "equality and is not decided."
    )
    spec = _spec()
    fo = Folder(model)
    # ---------------------------------------------------------------- R1
    r1 = rep.rule("C10-R1", "WHOCALLS", "decryption is applied at exactly the reviewed sites and branches", 6)
    sites = []
    for f in model.funcs.values():
        if isinstance(f.node, ast.Lambda):
            continue
        for c in walk_no_nested(f.node):
            if isinstance(c, ast.Call):
                d = dotted(c.func) or ""
                short = d.split(".")[-1]
                if short in ("decipher_all",) or short == "decipher" or (short.startswith("decrypt") and not f.qualname.startswith(H)) or d.endswith("cfm[name]"):
                    sites.append((f, c, d))
                if isinstance(c.func, ast.Subscript) and (dotted(c.func.value) or "").endswith(".cfm"):
                    sites.append((f, c, "self.cfm[name]"))
    allowed = {
        ("pdfminer.pdfdocument.PDFDocument.getobj", "decipher_all"): "direct objects",
        ("pdfminer.pdftypes.decipher_all", "decipher"): "strings of a direct object",
        ("pdfminer.pdftypes.decipher_all", "decipher_all"): "nested containers of a direct object",
        ("pdfminer.pdftypes.PDFStream.decode", "self.decipher"): "stream payload, once, before the filters",
        (H + "V4.decrypt", "self.cfm[name]"): "dispatch to the crypt filter method",
    }
    seen = set()
    for (f, c, d) in sites:
        key = (f.qualname, d)
        seen.add(key)
        if key in allowed:
            r1.ok(site(f, c), f.qualname, f"{d}(...)", note=allowed[key])
        else:
            r1.violation(site(f, c), f.qualname, f"{d}(...)", "decryption applied at a new place: data would be deciphered twice or with the wrong object key")
    for key in allowed:
        if key not in seen:
            raise AnchorMissing(f"decryption site {key} not found")
    go = model.func(D + "PDFDocument.getobj")
    dec_calls = [c for c in walk_no_nested(go.node) if isinstance(c, ast.Call) and (dotted(c.func) or "") == "decipher_all"]
    ok = False
    if dec_calls:
        gts = _guard_tests(go, dec_calls[0])
        in_else = any((not pol) and unparse(t).replace(" ", "") == "strmidisnotNone" for t, pol in gts) or any(pol and unparse(t).replace(" ", "") == "strmidisNone" for t, pol in gts)
        under_decipher = any(pol and unparse(t) == "self.decipher" for t, pol in gts)
        args = [unparse(a) for a in dec_calls[0].args]
        ok = in_else and under_decipher and args == ["self.decipher", "objid", "genno", "obj"]
    r1.check(ok, site(go), go.qualname, "decipher_all(self.decipher, objid, genno, obj) only for objects parsed directly from the file (not object-stream members)", why="branch placement or arguments changed")
    dec = model.func("pdfminer.pdftypes.PDFStream.decode")
    g = build_cfg(dec.node, exc_edges=False)
    dn = [n.id for n in g.nodes if n.kind == "stmt" and n.ast is not None and contains_call(n.ast, lambda c: (dotted(c.func) or "") == "self.decipher")]
    fl = [n.id for n in g.nodes if n.kind in ("stmt", "for") and n.ast is not None and contains_call(n.ast.iter if n.kind == "for" else n.ast, lambda c: (dotted(c.func) or "") == "self.get_filters")]
    dom = g.dominators()
    once = len(dn) == 1 and bool(fl) and all(isinstance(g.nodes[dn[0]].ast, ast.Assign) for _ in [0])
    before = once and dn[0] < fl[0]
    args = [unparse(a) for c in walk_no_nested(dec.node) if isinstance(c, ast.Call) and (dotted(c.func) or "") == "self.decipher" for a in c.args]
    r1.check(before and args == ["self.objid", "self.genno", "data", "self.attrs"], site(dec), dec.qualname, "the payload is deciphered once, with the stream's own (objid, genno), before the filter chain", why=f"args {args}")
    clears = [n for n in walk_no_nested(dec.node) if isinstance(n, ast.Assign) and unparse(n.targets[0]) == "self.rawdata" and unparse(n.value) == "None"]
    rets = [n for n in walk_no_nested(dec.node) if isinstance(n, ast.Return)]
    gd = model.func("pdfminer.pdftypes.PDFStream.get_data")
    okonce = len(clears) >= 1 + len(rets) - 0 and "if self.data is None" in unparse(gd.node)
    r1.check(okonce, site(dec), dec.qualname, "rawdata is dropped after decoding and get_data decodes only while data is None (no second decryption)", why="decode could run twice on the same payload")
    xs = model.func(D + "PDFXRefStream.load")
    r1.check("self.data = stream.get_data()" in unparse(xs.node), site(xs), xs.qualname, "cross-reference stream data is decoded while the sections are loaded", why="xref data would be decoded later, after the security handler exists")
    init = model.func(D + "PDFDocument.__init__")
    g = build_cfg(init.node, exc_edges=False)
    rx = [n.id for n in g.nodes if n.ast is not None and n.kind == "stmt" and contains_call(n.ast, lambda c: (dotted(c.func) or "") == "self.read_xref_from")]
    ip = [n.id for n in g.nodes if n.ast is not None and n.kind == "stmt" and contains_call(n.ast, lambda c: (dotted(c.func) or "") == "self._initialize_password")]
    r1.check(bool(rx) and bool(ip) and rx[0] < ip[0] and g.nodes[rx[0]].lineno < g.nodes[ip[0]].lineno, site(init), init.qualname, "all cross-reference sections and trailers are read before the security handler is installed", why="order changed: trailer/xref data could pass through decipher")

    # ---------------------------------------------------------------- R2
    r2 = rep.rule("C10-R2", "ORDER", "AES object data passes through PKCS#7 unpadding; key unwrapping does not", 4)
    for q in (H + "V4.decrypt_aes128", H + "V5.decrypt_aes256"):
        f = model.func(q)
        rets = [n for n in walk_no_nested(f.node) if isinstance(n, ast.Return)]
        ok = False
        why = "no return"
        for r_ in rets:
            v = r_.value
            txt = unparse(v)
            unp = isinstance(v, ast.Call) and ("unpad" in (dotted(v.func) or "").lower()) and any(".update(" in unparse(a) or "decryptor" in unparse(a) for a in v.args)
            sliced = isinstance(v, ast.Subscript) and isinstance(v.slice, ast.Slice)
            viaunpadder = "unpadder" in unparse(f.node)
            ok = unp or sliced or viaunpadder
            why = f"returns `{txt[:80]}`: the raw CBC output keeps its 1-16 padding bytes"
        r2.check(ok, site(f), q, "the plaintext returned for object data goes through a PKCS#7 removal", why=why)
    up = model.lookup_method(H + "V5", "_unpad_aes")
    if up is not None:
        src = unparse(up.node).replace(" ", "")
        okp = "n=data[-1]" in src and "1<=n<=16" in src and "data.endswith(bytes((n,))*n)" in src and "returndata[:-n]" in src
        r2.check(okp, site(up), up.qualname, "unpadding removes n bytes of value n (1 <= n <= 16) and nothing else", why="unpadding rule changed")
    au = model.func(H + "V5.authenticate")
    r2.check("unpad" not in unparse(au.node).lower() and unparse(au.node).count("cipher.decryptor().update(") == 2, site(au), au.qualname, "the file key is unwrapped from OE/UE without padding removal (AES-256 CBC, no padding, zero IV)", why="key unwrapping changed")

    # ---------------------------------------------------------------- R3
    _constants(model, rep, spec, fo)

    # ---------------------------------------------------------------- R4
    r4 = rep.rule("C10-R4", "ORDER", "a password that does not authenticate ends in PDFPasswordIncorrect and nothing else", 4)
    ik = model.func(H + ".init_key")
    src = unparse(ik.node).replace(" ", "")
    r4.check("self.key=self.authenticate(self.password)" in src and "ifself.keyisNone:raisePDFPasswordIncorrect" in "".join(src.split()), site(ik), ik.qualname, "authenticate() returning None raises PDFPasswordIncorrect", why="rejection path changed")
    a = model.func(H + ".authenticate")
    encs = [c for c in walk_no_nested(a.node) if isinstance(c, ast.Call) and isinstance(c.func, ast.Attribute) and c.func.attr == "encode"]
    guarded = all(any(isinstance(t, ast.Try) and any(x is c for b in t.body for x in ast.walk(b)) and any(h.type is not None and ("UnicodeEncodeError" in unparse(h.type) or "UnicodeError" in unparse(h.type) or "ValueError" in unparse(h.type)) for h in t.handlers) for t in walk_no_nested(a.node)) or any(k.arg == "errors" for k in c.keywords) or len(c.args) > 1 for c in encs)
    if guarded:
        r4.ok(site(a), a.qualname, "password.encode('latin1') cannot leak UnicodeEncodeError")
    else:
        r4.violation(site(a), a.qualname, "password.encode('latin1')", "a password outside Latin-1 raises UnicodeEncodeError instead of PDFPasswordIncorrect")
    sp = model.func("pdfminer._saslprep.saslprep")
    idx = [n for n in walk_no_nested(sp.node) if isinstance(n, ast.Subscript) and unparse(n.value) == "data" and not isinstance(n.slice, ast.Slice)]
    from .c13_ops import _len_checked

    okidx = all(_len_checked(sp, n, n.value) for n in idx)
    if okidx:
        r4.ok(site(sp), sp.qualname, "data[0]/data[-1] only on a non-empty string")
    else:
        r4.violation(site(sp), sp.qualname, "data[0]", "a password whose characters are all mapped to nothing raises IndexError instead of PDFPasswordIncorrect")
    a5 = model.func(H + "V5.authenticate")
    rets = [unparse(n.value) for n in walk_no_nested(a5.node) if isinstance(n, ast.Return)]
    r4.check(rets[-1:] == ["None"] and unparse(a5.node).count("== self.o_hash") == 1 and unparse(a5.node).count("== self.u_hash") == 1, site(a5), a5.qualname, "revision 5/6: the key is returned only when the owner or the user hash matches", why=f"returns {rets}")

    r9 = rep.rule("C10-R9", "NORMFORM", "the bytes tried against the document are a strict (loss-free) encoding of the password: characters that cannot be encoded make the password wrong, they are not dropped or replaced - otherwise different passwords collide with the right one", 2)
    for fq in (H + ".authenticate", H + "V5._normalize_password"):
        fa = model.func(fq)
        encs9 = [c for c in walk_no_nested(fa.node) if isinstance(c, ast.Call) and isinstance(c.func, ast.Attribute) and c.func.attr == "encode"]
        if not encs9:
            raise AnchorMissing(f"{fq}: no .encode(...) call")
        for c in encs9:
            mode = None
            if len(c.args) > 1:
                mode = c.args[1]
            for k in c.keywords:
                if k.arg == "errors":
                    mode = k.value
            strict = mode is None or (isinstance(mode, ast.Constant) and mode.value == "strict")
            r9.check(strict, site(fa, c), fa.qualname, f"`{unparse(c)}` encodes strictly", why=f"errors mode {unparse(mode) if mode is not None else None}: characters without an encoding are dropped or replaced, so e.g. the right password followed by a character outside the code page is accepted")
    # ---------------------------------------------------------------- R5
    r5 = rep.rule("C10-R5", "RANGE", "unsigned conversion of /P maps 0..2^31-1 to themselves and negatives to their two's complement", 1)
    uv = model.func("pdfminer.pdftypes.uint_value")
    tests = [n for n in walk_no_nested(uv.node) if isinstance(n, ast.If)]
    ok = False
    why = "no branch"
    if tests:
        try:
            (l, op, r), = canon_compare(tests[0].test)
            # accept  0 <= xi  /  -1 < xi  (returning xi), or xi < 0 (adding 2**n)
            body_ret = unparse(tests[0].body[0].value) if isinstance(tests[0].body[0], ast.Return) else ""
            if body_ret == "xi":
                ok = (l, op, r) in (("0", "<=", "xi"), ("-1", "<", "xi"))
            else:
                ok = (l, op, r) == ("xi", "<", "0")
            why = f"test is `{unparse(tests[0].test)}`: 0 is sent to 2**n_bits, which struct.pack('<L') rejects for /P 0"
        except ValueError:
            pass
    r5.check(ok, site(uv), uv.qualname, "xi >= 0 -> xi ; otherwise xi + 2**n_bits", why=why)
    _decipher_walk(model, rep)
    _rc4(model, rep)
    _handler_state(model, rep)
    _saslprep(model, rep)


def _constants(model: Model, rep: Report, spec: dict, fo: Folder) -> None:
    r3 = rep.rule("C10-R3", "TABLE", "standard security handler: constants, round counts, slice lengths, update order, registry, crypt filters, permission bits", 15)
    hc = model.cls(H)
    try:
        pad = fo.fold(hc.module, hc.attrs["PASSWORD_PADDING"], hc)
    except (KeyError, Unfoldable):
        raise AnchorMissing("PASSWORD_PADDING")
    r3.check(pad.hex() == spec["password_padding_hex"], site(model.func(H + ".__init__")), H + ".PASSWORD_PADDING", "the 32-byte password padding string of Algorithm 2", why=f"is {pad.hex()}")
    ck = model.func(H + ".compute_encryption_key")
    ups = [unparse(c.args[0]) for c in sorted([c for c in walk_no_nested(ck.node) if isinstance(c, ast.Call) and (dotted(c.func) or "") == "hash.update"], key=lambda c: c.lineno)]
    r3.check(ups[:3] == spec["key_update_order"] and ups[3:] == ["b'\\xff\\xff\\xff\\xff'"], site(ck), ck.qualname, "key = MD5(padded password || O || P as 4 LE bytes || ID[0] || FFFFFFFF if metadata is clear)", why=f"update order {ups}")
    src = unparse(ck.node).replace(" ", "")
    r3.check("password=(password+self.PASSWORD_PADDING)[:32]" in src and "hash=md5(password)" in src, site(ck), ck.qualname, "the password is padded/truncated to 32 bytes first", why="padding step changed")
    r3.check("ifself.r>=4:" in src and "ifnotcast(PDFStandardSecurityHandlerV4,self).encrypt_metadata:" in src, site(ck), ck.qualname, "the FFFFFFFF marker is hashed only for revision >= 4 with EncryptMetadata false", why="condition changed")
    r3.check("n=5" in src and "ifself.r>=3:" in src and "n=self.length//8" in src and f"for_inrange({spec['md5_rounds_r3']}):" in src and "result=md5(result[:n]).digest()" in src and "returnresult[:n]" in src, site(ck), ck.qualname, "revision >= 3: 50 further MD5 rounds over the first Length/8 bytes; revision 2: 5-byte key", why="round count / key length changed")
    cu = model.func(H + ".compute_u")
    s2 = unparse(cu.node).replace(" ", "")
    a, b = spec["user_xor_rounds"]
    r3.check(f"foriinrange({a},{b}):" in s2 and "k=b''.join((bytes((c^i,))forciniter(key)))" in s2 and "hash=md5(self.PASSWORD_PADDING)" in s2 and "hash.update(self.docid[0])" in s2 and "result+=result" in s2, site(cu), cu.qualname, "U (revision >= 3): RC4 of MD5(padding || ID[0]) then 19 rounds with key XOR 1..19", why="Algorithm 5 changed")
    ao = model.func(H + ".authenticate_owner_password")
    s3 = unparse(ao.node).replace(" ", "")
    x, y, z = spec["owner_xor_rounds"]
    r3.check(f"foriinrange({x},{y},{z}):" in s3 and f"for_inrange({spec['md5_rounds_r3']}):" in s3 and "hash=md5(hash.digest())" in s3 and "returnself.authenticate_user_password(user_password)" in s3, site(ao), ao.qualname, "owner password: 50 MD5 rounds, RC4 rounds with key XOR 19..0, result tried as user password", why="Algorithm 7 changed")
    vk = model.func(H + ".verify_encryption_key")
    s4 = unparse(vk.node).replace(" ", "")
    r3.check("ifself.r==2:returnu==self.u" in "".join(s4.split()) and "returnu[:16]==self.u[:16]" in s4, site(vk), vk.qualname, "U is compared in full for revision 2 and on its first 16 bytes otherwise", why="Algorithm 6 changed")
    for q, salt in ((H + ".decrypt_rc4", False), (H + "V4.decrypt_aes128", True)):
        f = model.func(q)
        s5 = unparse(f.node).replace(" ", "")
        ok = f"struct.pack('<L',objid)[:{spec['objid_bytes']}]" in s5 and f"struct.pack('<L',genno)[:{spec['genno_bytes']}]" in s5 and f"hash.digest()[:min(len(key),{spec['max_object_key']})]" in s5 and (("+b'sAlT'" in s5) == salt)
        r3.check(ok, site(f), q, f"object key = MD5(key || objid[:3] || genno[:2]{' || sAlT' if salt else ''})[:min(n + 5, 16)]", why="Algorithm 1 changed")
    a128 = model.func(H + "V4.decrypt_aes128")
    a256 = model.func(H + "V5.decrypt_aes256")
    for f in (a128, a256):
        s6 = unparse(f.node).replace(" ", "")
        r3.check("initialization_vector=data[:16]" in s6 and "ciphertext=data[16:]" in s6 and "modes.CBC(initialization_vector)" in s6, site(f), f.qualname, "AES-CBC with the first 16 bytes of the data as IV", why="IV handling changed")
    r3.check("algorithms.AES(self.key)" in unparse(a256.node), site(a256), a256.qualname, "AES-256 uses the file key directly (no per-object key)", why="changed")
    # registry, revisions, cfm, permissions
    dc = model.cls(D + "PDFDocument")
    reg = dc.attrs.get("security_handler_registry")
    regmap = {}
    if isinstance(reg, ast.Dict):
        for k, v in zip(reg.keys, reg.values):
            regmap[str(k.value)] = unparse(v)  # type: ignore[union-attr]
    r3.check(regmap == spec["registry"], site(model.func(D + "PDFDocument._initialize_password")), D + "PDFDocument.security_handler_registry", "V 1, 2 -> RC4 handler, 4 -> crypt filters, 5 -> AES-256", why=f"{regmap}")
    for cname, revs in spec["revisions"].items():
        ci = model.cls(D + cname)
        try:
            got = list(fo.fold(ci.module, ci.attrs["supported_revisions"], ci))
        except (KeyError, Unfoldable):
            got = []
        r3.check(got == revs, site(model.func(H + ".init")), D + cname, f"{cname} supports revisions {revs}", why=f"{got}")
    for cname, m in spec["cfm"].items():
        f = model.func(D + cname + ".get_cfm")
        got = {}
        for n in walk_no_nested(f.node):
            if isinstance(n, ast.If) and isinstance(n.test, ast.Compare) and isinstance(n.test.comparators[0], ast.Constant):
                rets = [unparse(s_.value) for s_ in n.body if isinstance(s_, ast.Return)]
                if rets:
                    got[n.test.comparators[0].value] = rets[0].replace("self.", "")
        r3.check(got == m, site(f), f.qualname, f"crypt filter methods {m}", why=f"{got}")
    for meth, mask in spec["permission_masks"].items():
        f = model.func(H + "." + meth)
        r3.check(f"returnbool(self.p&{mask})" in unparse(f.node).replace(" ", ""), site(f), f.qualname, f"{meth}: bit mask {mask} of /P", why="mask changed")
    ip = model.func(H + ".init_params")
    s7 = unparse(ip.node).replace(" ", "")
    r3.check("self.p=uint_value(self.param['P'],32)" in s7 and "self.length=int_value(self.param.get('Length',40))" in s7, site(ip), ip.qualname, "/P is read as a 32-bit unsigned value; /Length defaults to 40", why="parameter reading changed")
    r6 = model.func(H + "V5._r6_password")
    s8 = unparse(r6.node).replace(" ", "")
    ok6 = f"hashes=({','.join(spec['r6_hashes'])})" in s8 and f"whileround_no<{spec['r6_min_rounds']}orlast_byte_val>round_no-{spec['r6_tail']}:" in s8 and "k1=(password+k+(vectororb''))*64" in s8 and "self._aes_cbc_encrypt(key=k[:16],iv=k[16:32],data=k1)" in s8 and "next_hash=hashes[self._bytes_mod_3(e[:16])]" in s8 and "returnk[:32]" in s8
    r3.check(ok6, site(r6), r6.qualname, "Algorithm 2.B: 64 rounds minimum, continue while last byte > round - 32, hash chosen by the first 16 bytes mod 3", why="revision 6 hash changed")
    m3 = model.func(H + "V5._bytes_mod_3")
    r3.check("returnsum((b%3forbininput_bytes))%3" in unparse(m3.node).replace(" ", ""), site(m3), m3.qualname, "big-endian integer mod 3 computed as the digit sum mod 3 (256 == 1 mod 3)", why="changed")
    ip5 = model.func(H + "V5.init_params")
    s9 = unparse(ip5.node).replace(" ", "")
    r3.check(all(x in s9 for x in ("self.o_hash=self.o[:32]", "self.o_validation_salt=self.o[32:40]", "self.o_key_salt=self.o[40:]", "self.u_hash=self.u[:32]", "self.u_validation_salt=self.u[32:40]", "self.u_key_salt=self.u[40:]")), site(ip5), ip5.qualname, "O and U split into hash (32), validation salt (8), key salt (8)", why="slicing changed")
    np_ = model.func(H + "V5._normalize_password")
    r3.check("password.encode('utf-8')[:127]" in unparse(np_.node) and "saslprep(password)" in unparse(np_.node), site(np_), np_.qualname, "revision 6 password: SASLprep, UTF-8, at most 127 bytes", why="changed")


def _decipher_walk(model: Model, rep: Report) -> None:
    """C10-R6: every string of a parsed object is deciphered, at any nesting depth - the walk recurses into every list
    element and every dictionary value without filtering, and calls the handler for every non-empty byte string."""
    r6 = rep.rule("C10-R6", "NORMFORM", "decipher_all: bytes -> handler (empty strings unchanged); lists, dictionaries and stream dictionaries are walked completely (no element is skipped by type)", 4)
    f = model.func("pdfminer.pdftypes.decipher_all")
    x = f.params[-1]
    arms = {}
    for n in walk_no_nested(f.node):
        if isinstance(n, ast.If) and isinstance(n.test, ast.Call) and (dotted(n.test.func) or "") == "isinstance" and unparse(n.test.args[0]) == x:
            arms[unparse(n.test.args[1])] = n
    b = arms.get("bytes")
    okb = b is not None and "".join(unparse(ast.Module(body=b.body, type_ignores=[])).split()) == f"iflen({x})==0:return{x}returndecipher(objid,genno,{x})"
    r6.check(okb, site(f, b) if b is not None else site(f), f.qualname, "a non-empty byte string is passed to the handler with the object's number and generation", why="bytes branch changed")
    li = arms.get("list")
    okl = False
    why = "list branch not found"
    if li is not None:
        comps = [c for c in walk_no_nested(li) if isinstance(c, ast.ListComp)]
        fors = [c for c in li.body if isinstance(c, ast.For)]
        if len(comps) == 1:
            c = comps[0]
            g0 = c.generators[0]
            okl = len(c.generators) == 1 and not g0.ifs and unparse(g0.iter) == x and isinstance(c.elt, ast.Call) and (dotted(c.elt.func) or "") == "decipher_all" and unparse(c.elt.args[-1]) == unparse(g0.target)
            why = f"list elements are mapped by `{unparse(c.elt)[:70]}`" + (" under a filter" if g0.ifs else "")
        elif fors:
            okl = False
            why = "list branch is a statement loop (re-derive the rule)"
    if li is not None and okl:
        early = [n for st in li.body for n in ast.walk(st) if isinstance(n, (ast.Return, ast.Raise, ast.Continue, ast.Break))]
        first_is_walk = bool(li.body) and any(isinstance(c, ast.ListComp) for c in ast.walk(li.body[0]))
        if early and not (len(li.body) == 1 and isinstance(li.body[0], ast.Return) and first_is_walk):
            okl = False
            why = f"the list branch has a way out before / beside the walk (`{unparse(early[0])[:60]}`): lists taken that way keep their strings encrypted"
    r6.check(okl, site(f, li) if li is not None else site(f), f.qualname, "every element of a list is walked (no type filter, no condition)", why=why + ": a string nested in an array inside an array (choice-field options, name-tree pairs) would stay encrypted")
    di = arms.get("dict")
    okd = False
    if di is not None:
        loops = [c for c in di.body if isinstance(c, ast.For)]
        if len(loops) == 1 and "".join(unparse(loops[0].iter).split()) == f"{x}.items()" and len(loops[0].body) == 1:
            st = loops[0].body[0]
            okd = isinstance(st, ast.Assign) and isinstance(st.value, ast.Call) and (dotted(st.value.func) or "") == "decipher_all" and isinstance(st.targets[0], ast.Subscript) and unparse(st.targets[0].value) == x
    r6.check(okd, site(f, di) if di is not None else site(f), f.qualname, "every value of a dictionary is walked and stored back under its key", why="dict branch changed")
    # the parser produces one more container: a stream, whose dictionary holds strings like any other (7.6.1: all strings of
    # the file are encrypted, apart from the few exceptions the handler itself deals with)
    st_ = arms.get("PDFStream")
    oks = False
    if st_ is not None:
        calls = [c for n in st_.body for c in ast.walk(n) if isinstance(c, ast.Call) and (dotted(c.func) or "") == "decipher_all"]
        oks = any("".join(unparse(c.args[-1]).split()) == f"{x}.attrs" for c in calls)
    r6.check(oks, site(f, st_) if st_ is not None else site(f), f.qualname, "the dictionary of a stream is walked too (isinstance(x, PDFStream) -> x.attrs)", why="a stream object comes back from decipher_all untouched: the strings in its dictionary (/Params /ModDate and /CheckSum of an embedded file, the lookup string of an /Indexed colour space, /DecodeParms strings) stay encrypted")


def _handler_state(model: Model, rep: Report) -> None:
    """C10-R10: a security handler belongs to one document: its key, its crypt-filter table and its parameters are instance
    state.  A mutable object created in the class body is one object for every handler of the process - the table the second
    document fills is the table the first document decrypts with."""
    from .c12 import global_writes, inventory

    r = rep.rule("C10-R10", "EFFECTS", "security handlers keep nothing mutable at class level that their methods write: keys, crypt-filter tables and parameters are per document (instance attributes set in init_params / __init__)", 3)
    inv = inventory(model)
    mine = {k: v for k, v in inv.items() if k.startswith("pdfminer.pdfdocument.PDFStandardSecurityHandler")}
    writes = [(f, n, c, how) for (f, n, c, how) in global_writes(model, inv) if c in mine]
    for (f, n, c, how) in writes:
        r.violation(site(f, n), f.qualname, f"{unparse(n)[:70]} : {how} on the class-level object {c.split('.')[-2]}.{c.split('.')[-1]}", "the object was created once in the class body and is shared by every handler of the process: opening a second encrypted document rewrites what the first one decrypts with")
    n_cls = 0
    for cq, ci in sorted(model.classes.items()):
        if not cq.startswith("pdfminer.pdfdocument.PDFStandardSecurityHandler"):
            continue
        n_cls += 1
        shared = sorted(k.split(".")[-1] for k in mine if k.rsplit(".", 1)[0] == cq)
        written = sorted({c.split(".")[-1] for (_, _, c, _) in writes if c.rsplit(".", 1)[0] == cq})
        if not written:
            r.ok(f"pdfminer/pdfdocument.py:{ci.node.lineno}:{ci.name}", cq, f"{ci.name}: no class-level mutable object is written by a method" + (f" (class-level: {shared})" if shared else ""))
    if n_cls < 3:
        raise AnchorMissing("security handler classes not found")


def _rc4(model: Model, rep: Report) -> None:
    r7 = rep.rule("C10-R7", "NORMFORM", "RC4: key schedule and output generation as specified (256-entry permutation, indices mod 256, swap before the output byte); encrypt and decrypt are the same function", 3)
    A = "pdfminer.arcfour.Arcfour"
    init, proc = model.func(A + ".__init__"), model.func(A + ".process")

    def np_(f) -> str:
        return "".join(unparse(f.node).split()).replace("(", "").replace(")", "")

    s1 = np_(init)
    r7.check("s=[iforiinrange256]" in s1 and "j=0" in s1 and "klen=lenkey" in s1 and "foriinrange256:j=j+s[i]+key[i%klen]%256s[i],s[j]=s[j],s[i]" in s1 and "self.s=s" in s1 and "self.i,self.j=0,0" in s1, site(init), init.qualname, "KSA: S = identity; for i in 0..255: j = (j + S[i] + key[i mod len]) mod 256; swap S[i], S[j]; i = j = 0", why="key schedule changed")
    s2 = np_(proc)
    r7.check("i=i+1%256j=j+s[i]%256s[i],s[j]=s[j],s[i]k=s[s[i]+s[j]%256]r+=bytesc^k," in s2 and "self.i,self.j=i,j" in s2 and s2.endswith("returnr"), site(proc), proc.qualname, "PRGA: i += 1; j += S[i]; swap; output byte = data xor S[(S[i] + S[j]) mod 256]; the stream position is kept", why="output generation changed")
    ci = model.cls(A)
    al = [st for st in ci.node.body if isinstance(st, ast.Assign) and isinstance(st.value, ast.Name) and st.value.id == "process"]
    names = sorted(t.id for st in al for t in st.targets if isinstance(t, ast.Name))
    r7.check(names == ["decrypt", "encrypt"], f"{ci.module.relpath}:{ci.node.lineno}:Arcfour", A, "encrypt = decrypt = process", why=f"aliases {names}")


def _saslprep(model: Model, rep: Report) -> None:
    r8 = rep.rule("C10-R8", "TABLE", "SASLprep (R6 passwords): non-ASCII spaces (table C.1.2) become U+0020, `mapped to nothing` characters (B.1) are removed, then NFKC; prohibited tables as in RFC 4013", 3)
    f = model.func("pdfminer._saslprep.saslprep")
    al = {}
    for n in walk_no_nested(f.node):
        if isinstance(n, ast.Assign) and isinstance(n.targets[0], ast.Name) and (dotted(n.value) or "").startswith("stringprep."):
            al[n.targets[0].id] = (dotted(n.value) or "")[len("stringprep."):]
    comps = [c for c in walk_no_nested(f.node) if isinstance(c, ast.ListComp) and isinstance(c.elt, ast.IfExp)]
    ok = False
    why = "mapping comprehension not found"
    if comps:
        c = comps[0]
        def tab(e):
            return al.get(dotted(e.func) or "", (dotted(e.func) or "").replace("stringprep.", "")) if isinstance(e, ast.Call) else None
        to_space = tab(c.elt.test)
        space = isinstance(c.elt.body, ast.Constant) and c.elt.body.value == " "
        dropped = [tab(i.operand) for i in c.generators[0].ifs if isinstance(i, ast.UnaryOp) and isinstance(i.op, ast.Not)]
        ok = to_space == "in_table_c12" and space and dropped == ["in_table_b1"]
        why = f"mapped to space: {to_space}; removed: {dropped}"
    r8.check(ok, site(f), f.qualname, "C.1.2 -> SPACE, B.1 -> removed", why=why + ": a correct password containing a no-break space or a soft hyphen is prepared differently from the writer's and rejected")
    r8.check("unicodedata.ucd_3_2_0.normalize('NFKC',data)" in "".join(unparse(f.node).split()), site(f), f.qualname, "normalisation is NFKC of Unicode 3.2", why="changed")
    mod = model.module("pdfminer._saslprep")
    pro = mod.assigns.get("_PROHIBITED")
    names = sorted((dotted(e) or "").replace("stringprep.", "") for e in pro.elts) if isinstance(pro, ast.Tuple) else []
    r8.check(names == sorted(["in_table_c12", "in_table_c21_c22", "in_table_c3", "in_table_c4", "in_table_c5", "in_table_c6", "in_table_c7", "in_table_c8", "in_table_c9"]), f"{mod.relpath}:{getattr(pro, 'lineno', 0)}:_PROHIBITED", "pdfminer._saslprep", "prohibited output: C.1.2, C.2.1/C.2.2, C.3 .. C.9", why=f"{names}")


def _v5_owner_hash(model: Model, rep: Report) -> None:
    """C10-R11: ISO 32000-2 7.6.4.3.3 (algorithm 2.A): the owner hashes - validation and intermediate key - are taken over
    password + salt + the 48-byte /U string; the user hashes over password + salt alone.  Dropping U from the owner *key*
    hash leaves the password accepted (validation unchanged) and /OE decrypted with the wrong key: garbage, no error."""
    r = rep.rule("C10-R11", "BIND", "V5 authenticate: both owner hashes (validation salt, key salt) are computed with self.u as third operand, both user hashes without it", 4)
    f = model.func("pdfminer.pdfdocument.PDFStandardSecurityHandlerV5.authenticate")
    calls = [c for c in walk_no_nested(f.node) if isinstance(c, ast.Call) and (dotted(c.func) or "") == "self._password_hash"]
    if len(calls) < 4:
        raise AnchorMissing("V5 authenticate: the four _password_hash calls not found")
    seen = set()
    for c in calls:
        args = ["".join(unparse(a).split()) for a in c.args] + [f"{k.arg}={''.join(unparse(k.value).split())}" for k in c.keywords]
        salt = args[1] if len(args) > 1 else "?"
        seen.add(salt)
        if salt.startswith("self.o_"):
            ok = len(args) == 3 and args[2] in ("self.u", "vector=self.u")
            why = f"operands {args}: the owner hash is taken without /U - the owner password is still accepted when only the key hash is affected, and every string and stream decrypts to garbage"
        elif salt.startswith("self.u_"):
            ok = len(args) == 2
            why = f"operands {args}: the user hash takes no third operand"
        else:
            ok, why = False, f"salt operand {salt} is none of the four salts"
        r.check(ok, site(f, c), f.qualname, f"_password_hash({', '.join(args)})", why=why)
    r.check(seen == {"self.o_validation_salt", "self.o_key_salt", "self.u_validation_salt", "self.u_key_salt"}, site(f), f.qualname, "the four salts are used once each", why=f"salts {sorted(seen)}")


_run_r1_r10 = run


def run(model: Model, rep: Report) -> None:  # noqa: F811
    _run_r1_r10(model, rep)
    _v5_owner_hash(model, rep)

"""C15 - filesystem confinement: documents cannot steer file access outside allowed dirs."""

from __future__ import annotations

import ast
from typing import Dict, List, Optional, Set, Tuple

from ..callgraph import CallGraph
from ..cfg import build_cfg
from ..model import AnchorMissing, FuncInfo, Model, dotted, unparse, walk_no_nested
from ..prov import Leaf, Provenance
from ..report import Report
from ..util import site

FS_CALLS = {
    "open": "open", "io.open": "open", "gzip.open": "open", "bz2.open": "open", "lzma.open": "open", "codecs.open": "open",
    "os.makedirs": "create", "os.mkdir": "create", "os.remove": "delete", "os.unlink": "delete", "os.rename": "move", "os.replace": "move",
    "os.rmdir": "delete", "os.listdir": "probe", "os.scandir": "probe", "os.walk": "probe", "os.stat": "probe", "os.chmod": "modify",
    "os.path.exists": "probe", "os.path.lexists": "probe", "os.path.isfile": "probe", "os.path.isdir": "probe", "os.path.getsize": "probe",
    "shutil.copy": "create", "shutil.copyfile": "create", "shutil.move": "move", "shutil.rmtree": "delete",
    "tempfile.mkstemp": "create", "tempfile.NamedTemporaryFile": "create", "tempfile.mkdtemp": "create",
    "pathlib.Path": "path-object", "os.system": "exec", "subprocess.run": "exec", "subprocess.Popen": "exec", "subprocess.call": "exec", "os.popen": "exec",
    "pickle.load": "unpickle",
}

# (function, callee) -> role; confirmed by reading.  A site outside this table is a violation.
ALLOWED: Dict[Tuple[str, str], str] = {
    ("pdfminer.utils.open_filename.__init__", "open"): "the input file named by the caller",
    ("pdfminer.cmapdb.CMapDB._load_data", "os.path.exists"): "character-map resource lookup (confined by R2)",
    ("pdfminer.cmapdb.CMapDB._load_data", "gzip.open"): "character-map resource (confined by R2)",
    ("pdfminer.image.ImageWriter.__init__", "os.path.exists"): "caller-chosen output directory",
    ("pdfminer.image.ImageWriter.__init__", "os.makedirs"): "caller-chosen output directory",
    ("pdfminer.image.ImageWriter._save_jpeg", "open"): "image export (confined by R2/R3)",
    ("pdfminer.image.ImageWriter._save_jpeg2000", "open"): "image export (confined by R2/R3)",
    ("pdfminer.image.ImageWriter._save_jbig2", "open"): "image export (confined by R2/R3)",
    ("pdfminer.image.ImageWriter._save_bmp", "open"): "image export (confined by R2/R3)",
    ("pdfminer.image.ImageWriter._save_bytes", "open"): "image export (confined by R2/R3)",
    ("pdfminer.image.ImageWriter._save_raw", "open"): "image export (confined by R2/R3)",
    ("pdfminer.image.ImageWriter._create_unique_image_name", "os.path.exists"): "existence probe of the candidate export name",
    ("pdfminer.image.ImageWriter._create_unique_image_name", "os.path.lexists"): "existence probe of the candidate export name",
    ("pdfminer.ccitt.main", "open"): "developer entry point (python -m pdfminer.ccitt), not reachable from extraction",
    ("pdfminer.fontmetrics.convert_font_metrics", "open"): "developer converter of AFM files, not reachable from extraction",
    ("pdfminer.glyphlist.convert_glyphlist", "open"): "developer converter of the glyph list, not reachable from extraction",
}
DEV_ONLY = {"pdfminer.ccitt.main", "pdfminer.fontmetrics.convert_font_metrics", "pdfminer.glyphlist.convert_glyphlist"}
ENTRY_POINTS = ["pdfminer.high_level.extract_text", "pdfminer.high_level.extract_pages", "pdfminer.high_level.extract_text_to_fp"]

DOC_PARAM_NAMES = {"spec", "descriptor", "resources", "streams", "attrs", "param", "trailer", "xobjid_arg", "fontid", "cmapname"}


def fs_sites(model: Model) -> List[Tuple[FuncInfo, ast.Call, str, str]]:
    out = []
    for f in model.funcs.values():
        if isinstance(f.node, ast.Lambda):
            continue
        for n in walk_no_nested(f.node):
            if isinstance(n, ast.Call):
                r = model.resolve_expr(f.module, n.func, f.cls) or dotted(n.func) or ""
                d = dotted(n.func) or ""
                key = None
                for cand in (r, d):
                    if cand in FS_CALLS:
                        key = cand
                        break
                if key is None and d == "open":
                    key = "open"
                if key is not None:
                    # a local variable / parameter named like a module function is not the module's
                    if key == "open" and isinstance(n.func, ast.Attribute):
                        base = dotted(n.func.value) or ""
                        if base not in ("gzip", "io", "bz2", "lzma", "codecs"):
                            continue
                    out.append((f, n, key, FS_CALLS[key]))
    return out


def make_prov(model: Model, cg: CallGraph, path_sanitizers: bool = True) -> Provenance:
    def is_source(f: FuncInfo, e: ast.AST) -> Optional[str]:
        if isinstance(e, ast.Call):
            d = dotted(e.func) or ""
            short = d.split(".")[-1]
            if short in ("literal_name", "keyword_name", "decode_text", "resolve1", "resolve_all", "dict_value", "list_value", "str_value", "stream_value", "get_data", "get_rawdata", "nexttoken", "nextobject", "popall", "get_any"):
                return f"{short}(...): value taken from the document"
            if short == "read" and isinstance(e.func, ast.Attribute):
                return "bytes read from the input"
            if short == "pop" and d.startswith("self.") and f.cls is not None and any("Parser" in k or "Interpreter" in k for k in model.mro(f.cls.qualname)):
                return "operand popped from the parser/interpreter stack"
        return None

    def is_sanitizer(f: FuncInfo, c: ast.Call) -> bool:
        d = dotted(c.func) or ""
        if path_sanitizers and d in ("os.path.basename", "posixpath.basename", "ntpath.basename"):
            return True
        if d in ("str",) and c.args and isinstance(c.args[0], ast.Call) and (dotted(c.args[0].func) or "") == "id":
            return True
        if d in ("enc", "utils.enc", "escape", "html.escape", "quoteattr", "saxutils.escape"):
            return not path_sanitizers
        return False

    def param_source(f: FuncInfo, name: str) -> Optional[str]:
        if f.cls is not None and f.cls.qualname.endswith("PDFPageInterpreter") and f.name.startswith("do_") and name != "self":
            return f"operand `{name}` of content-stream operator {f.name}"
        if name in DOC_PARAM_NAMES and name != "self":
            return f"parameter `{name}` of {f.qualname.split('.', 1)[1]} carries a document dictionary/value"
        if f.name == "do_keyword" and name == "token":
            return "token of the parsed input"
        return None

    def public(f: FuncInfo, name: str) -> bool:
        q = f.qualname
        if q.startswith("pdfminer.high_level."):
            return True
        if f.name == "__init__" and name in ("outdir", "outfp", "codec", "filename", "fp", "laparams", "password", "caching", "imagewriter", "rsrcmgr", "pageno", "stripcontrol", "scale", "layoutmode", "showpageno"):
            return True
        return False

    return Provenance(model, cg, is_source, is_sanitizer, param_source, public)


def _confinement_guard(f: FuncInfo, call: ast.Call) -> Optional[str]:
    """A test dominating the sink that compares the realpath of the candidate with the realpath of the directory
    (startswith(dir + os.sep) or commonpath) and leaves on failure."""
    g = build_cfg(f.node, exc_edges=False)
    target = None
    for n in g.nodes:
        if n.ast is not None and n.kind in ("stmt", "test", "with") and any(x is call for x in ast.walk(n.ast if n.kind != "with" else ast.Module(body=[], type_ignores=[]) if False else n.ast)):
            if n.kind == "with":
                # only the header
                if not any(x is call for it in n.ast.items for x in ast.walk(it.context_expr)):  # type: ignore[attr-defined]
                    continue
            target = n.id
            break
    if target is None:
        return None
    dom = g.dominators()
    for d in dom.get(target, set()):
        n = g.nodes[d]
        if n.kind != "test" or n.ast is None:
            continue
        t = unparse(n.ast)
        if ("realpath" in t or "abspath" in t or "commonpath" in t or "resolved" in t) and ("startswith" in t or "commonpath" in t or "is_relative_to" in t):
            # failing edge must not reach the sink
            fail_label = "true" if (t.startswith("not ") or "!=" in t) else "false"
            for (m, lab) in g.succ[d]:
                if lab == fail_label:
                    if target in g.reachable(m, skip_labels=("loop",)) and not isinstance(g.nodes[m].ast, (ast.Continue, ast.Raise, ast.Return)):
                        return None
            # the compared values must be realpath()s: look at the definitions of the names used
            names = {x.id for x in ast.walk(n.ast) if isinstance(x, ast.Name)}
            srcs = " ".join(unparse(a.value) for a in walk_no_nested(f.node) if isinstance(a, ast.Assign) and any(isinstance(tg, ast.Name) and tg.id in names for tg in a.targets))
            # both sides must be symlink-resolved: abspath/normpath are lexical, and `link/../x` passes a lexical prefix test while
            # the operating system resolves `link` first and leaves the directory
            defs = [a.value for a in walk_no_nested(f.node) if isinstance(a, ast.Assign) and any(isinstance(tg, ast.Name) and tg.id in names for tg in a.targets)]
            resolved = [d for d in defs if "realpath(" in unparse(d) or ".resolve(" in unparse(d)]
            inline = t.count("realpath(") + t.count(".resolve(")
            if len(resolved) + inline >= 2 and not any(("abspath(" in unparse(d) or "normpath(" in unparse(d)) and "realpath(" not in unparse(d) for d in defs):
                if not _bound_to_sink(f, n.ast, call):
                    # a containment test exists, but not of the path that is opened against the directory it was joined to
                    return None
                return t
    return None


def _single_def(f: FuncInfo, name: str) -> Optional[ast.expr]:
    ds = [a.value for a in walk_no_nested(f.node) if isinstance(a, ast.Assign) and any(isinstance(tg, ast.Name) and tg.id == name for tg in a.targets)]
    return ds[0] if len(ds) == 1 else None


def _realpath_arg(f: FuncInfo, e: ast.AST) -> Optional[ast.AST]:
    """e is realpath(X) (directly, or a name defined once as realpath(X)): X."""
    if isinstance(e, ast.Name):
        d = _single_def(f, e.id)
        return _realpath_arg(f, d) if d is not None and not isinstance(d, ast.Name) else None
    if isinstance(e, ast.Call) and (dotted(e.func) or "").endswith("realpath") and len(e.args) == 1:
        return e.args[0]
    return None


def _bound_to_sink(f: FuncInfo, test: ast.AST, call: ast.Call) -> bool:
    """The containment test `realpath(P).startswith(realpath(D) + os.sep)` is about the very path P handed to the sink, and D
    is the directory P was joined to (P = os.path.join(D, ...))."""
    sw = [c for c in ast.walk(test) if isinstance(c, ast.Call) and isinstance(c.func, ast.Attribute) and c.func.attr == "startswith" and c.args]
    if not sw:
        return True  # commonpath / is_relative_to spellings: not analysed further
    c = sw[0]
    cand = _realpath_arg(f, c.func.value)
    pre = c.args[0]
    if isinstance(pre, ast.BinOp) and isinstance(pre.op, ast.Add):
        pre = pre.left
    dire = _realpath_arg(f, pre)
    if cand is None or dire is None or not call.args:
        return False
    sink = call.args[0]
    if unparse(cand) != unparse(sink):
        return False
    pdef = _single_def(f, sink.id) if isinstance(sink, ast.Name) else sink
    if not (isinstance(pdef, ast.Call) and (dotted(pdef.func) or "").endswith("path.join") and pdef.args):
        return False
    return unparse(pdef.args[0]) == unparse(dire)


def run(model: Model, rep: Report) -> None:
    rep.explanation = (
        "C15: complete inventory of file-system effects in the package (every call of open/gzip.open/os.*/shutil/tempfile/subprocess is listed "
        "and must be in a table confirmed by reading), a backward provenance analysis from the path argument of every such call to its origins "
        "(through locals, parameters and all their resolved call sites, fields, callee returns) showing that no document-controlled string "
        "reaches it unconfined, and dominance of the unique-name loop over every write-mode open. Complete relative to the source/sanitizer tables."
    )
    rep.assumptions += ["the call graph resolves every package-internal caller of the functions on the paths (fan-out over-approximates)", "os.path.basename/realpath behave as documented"]
    cg = CallGraph(model)
    rep.analysed.update(cg.stats)
    sites = fs_sites(model)
    for e in ENTRY_POINTS:
        model.func(e)
    reach = cg.reachable(ENTRY_POINTS)
    rep.analysed["reachable_from_entry_points"] = len(reach)
    # ---------------------------------------------------------------- R1
    r1 = rep.rule("C15-R1", "INVENTORY", "every file-system effect in the package is a known site with a reviewed role", 10)
    for (f, c, key, kind) in sorted(sites, key=lambda s: (s[0].qualname, s[1].lineno)):
        role = ALLOWED.get((f.qualname, key))
        if role is not None and f.qualname in DEV_ONLY and f.qualname in reach:
            r1.violation(site(f, c), f.qualname, f"{key}(...) [{kind}]", "a developer-only file access became reachable from the extraction entry points")
        elif role is not None:
            r1.ok(site(f, c), f.qualname, f"{key}(...) [{kind}]", note=role)
        else:
            r1.violation(site(f, c), f.qualname, f"{key}(...) [{kind}]", f"new file-system access `{unparse(c)[:100]}` outside the reviewed set: processing a document may touch the file system here")
    # module-level statements
    for m in model.modules.values():
        for n in ast.walk(m.tree):
            if isinstance(n, (ast.FunctionDef, ast.AsyncFunctionDef, ast.ClassDef, ast.Lambda)):
                continue
        for st in m.tree.body:
            if isinstance(st, (ast.FunctionDef, ast.AsyncFunctionDef, ast.ClassDef)):
                continue
            for n in ast.walk(st):
                if isinstance(n, ast.Call) and (dotted(n.func) or "") in FS_CALLS:
                    r1.violation(f"{m.relpath}:{n.lineno}:<module>", m.name, unparse(n)[:100], "file-system access at import time")

    # ---------------------------------------------------------------- R2
    r2 = rep.rule("C15-R2", "TAINT", "no document-controlled string reaches a path argument unconfined", 8)
    prov = make_prov(model, cg)
    for (f, c, key, kind) in sorted(sites, key=lambda s: (s[0].qualname, s[1].lineno)):
        if kind in ("path-object",) or not c.args:
            continue
        if (f.qualname, key) not in ALLOWED:
            continue
        if f.qualname in DEV_ONLY:
            r2.safe(site(f, c), f.qualname, unparse(c)[:100], "developer entry point (unreachable from extraction, checked by R1): path given by the developer")
            continue
        leaves = prov.trace(f, c.args[0])
        docs = sorted({(l.desc, l.site, l.trail) for l in leaves if l.tag in ("DOC", "UNKNOWN")}, key=lambda d: (len(d[2]), d))
        guard = _confinement_guard(f, c)
        construct = f"{unparse(c)[:80]}"
        if docs and guard is None:
            d0 = docs[0]
            via = " <- ".join(d0[2][-4:])
            r2.violation(site(f, c), f.qualname, construct, f"document-controlled data reaches the path: {d0[0]} at {d0[1]}" + (f" via {via}" if via else "") + f" ({len(docs)} origin(s)); no basename()/realpath-prefix confinement dominates the call")
        elif docs:
            r2.ok(site(f, c), f.qualname, construct, note=f"document data reaches the path but the call is dominated by the confinement test `{guard[:80]}`")
        else:
            r2.ok(site(f, c), f.qualname, construct, note=f"path built from caller-supplied/constant parts only ({len(leaves)} leaves)")
    # positive control: the analysis must see the document origin of image names
    lt = model.func("pdfminer.layout.LTImage.__init__")
    ctl = prov.trace(lt, ast.parse("name", mode="eval").body)
    if not any(l.tag == "DOC" for l in ctl):
        from ..report import AnalysisError

        raise AnalysisError("positive control failed: provenance of LTImage.name does not reach the content-stream operand")
    r2.ok(site(lt), lt.qualname, "positive control: LTImage.name originates from the Do operand", note=f"{sum(1 for l in ctl if l.tag == 'DOC')} document origins found", nontrivial=False)

    # resource directories: the fallback for CMAP_PATH is a fixed absolute directory (an empty string would make the current
    # working directory a resource directory, and a relative one would depend on where the program is started)
    ld = model.func("pdfminer.cmapdb.CMapDB._load_data")
    envs = [c for c in walk_no_nested(ld.node) if isinstance(c, ast.Call) and (dotted(c.func) or "") == "os.environ.get" and c.args and isinstance(c.args[0], ast.Constant) and c.args[0].value == "CMAP_PATH"]
    dflt = envs[0].args[1].value if envs and len(envs[0].args) > 1 and isinstance(envs[0].args[1], ast.Constant) else None
    r2.check(isinstance(dflt, str) and dflt.startswith("/") and len(dflt) > 1, site(ld, envs[0]) if envs else site(ld), ld.qualname, f"CMAP_PATH falls back to the absolute directory {dflt!r}", why=f"default is {dflt!r}: the document-chosen CMap name is then looked up (and unpickled) relative to the current working directory")
    # ---------------------------------------------------------------- R3
    unique_name_rule(model, rep, "C15-R3")


def unique_name_rule(model: Model, rep: Report, rid: str) -> None:
    """Image export never opens an existing file for writing (shared by C15-R3 and C18-R5)."""
    sites = fs_sites(model)
    r3 = rep.rule(rid, "ORDER", "no overwrite: every write-mode open uses the name produced by the unique-name loop", 7)
    un = model.func("pdfminer.image.ImageWriter._create_unique_image_name")
    loops = [n for n in walk_no_nested(un.node) if isinstance(n, ast.While)]
    probe = unparse(loops[0].test).replace(" ", "") if len(loops) == 1 else ""
    okl = probe in ("os.path.exists(path)", "os.path.lexists(path)")
    rets = [n for n in walk_no_nested(un.node) if isinstance(n, ast.Return)]
    okr = bool(rets) and unparse(rets[-1].value).replace(" ", "") in ("(name,path)", "name,path") and (not loops or rets[-1].lineno > (loops[0].end_lineno or 0))
    # path is rebuilt from name inside the loop
    okb = bool(loops) and any(isinstance(s, ast.Assign) and unparse(s.targets[0]) == "path" for s in loops[0].body) and any(isinstance(s, ast.AugAssign) and isinstance(s.op, ast.Add) for s in loops[0].body)
    r3.check(okl and okr and okb, site(un), un.qualname, "candidate names are tried until os.path.exists(path) is false; the returned path is the tested one", why=f"loop={okl} return={okr} rebuild={okb}")
    # a name taken by a symbolic link is taken, whatever the link points at: open(path, "wb") follows a dangling link and
    # creates its target - a file outside the output directory.  os.path.exists() answers False for a dangling link.
    probes = [c for lp in loops for c in ast.walk(lp.test) if isinstance(c, ast.Call) and (dotted(c.func) or "") in ("os.path.exists", "os.path.lexists")]
    for c in probes:
        r3.check((dotted(c.func) or "") == "os.path.lexists", site(un, c), un.qualname, f"{unparse(c)} : the existence probe of a candidate name does not follow symbolic links", why="a dangling symbolic link in the output directory counts as a free name; open(path, 'wb') then creates the link's target outside the output directory")
    # what is probed is the directory entry itself: the path variable is bound to os.path.join(<directory>, <name>) and nothing
    # that follows links (realpath / abspath of a link's target / Path.resolve) lies between the join and the probe
    for c in probes:
        a0 = c.args[0] if c.args else None
        defs_ = [n.value for n in walk_no_nested(un.node) if isinstance(n, ast.Assign) and isinstance(a0, ast.Name) and any(isinstance(t, ast.Name) and t.id == a0.id for t in n.targets)]
        direct = bool(defs_) and all(isinstance(v, ast.Call) and (dotted(v.func) or "") == "os.path.join" for v in defs_)
        r3.check(direct, site(un, c), un.qualname, f"{unparse(c)} : `{unparse(a0) if a0 is not None else ''}` is os.path.join(directory, name) itself at every assignment", why="the probed path went through a function that follows symbolic links (" + ", ".join(sorted({unparse(v)[:50] for v in defs_ if not (isinstance(v, ast.Call) and (dotted(v.func) or '') == 'os.path.join')})) + "): for a dangling link the probe then looks at the missing target, finds the name free, and the export creates the target outside the output directory")
    # path-sensitive form: on every path into a return, the last event on the returned path variable is the false edge of the
    # existence test - no assignment to it (or to the name it is built from) lies between the test and the return
    g = build_cfg(un.node, exc_edges=False)
    ret_nodes = [g.node_of(r) for r in rets if g.node_of(r) is not None]
    pvars: set = set()
    for r in rets:
        if isinstance(r.value, ast.Tuple):
            pvars |= {e.id for e in r.value.elts if isinstance(e, ast.Name)}
        elif isinstance(r.value, ast.Name):
            pvars.add(r.value.id)

    def _is_exists_test(n) -> bool:
        return n.kind == "test" and n.ast is not None and any(isinstance(c, ast.Call) and (dotted(c.func) or "") in ("os.path.exists", "os.path.lexists") and c.args and isinstance(c.args[0], ast.Name) and c.args[0].id in pvars for c in ast.walk(n.ast))

    def _assigned(n) -> set:
        out: set = set()
        if n.kind == "stmt" and isinstance(n.ast, (ast.Assign, ast.AugAssign, ast.AnnAssign)):
            for t in n.ast.targets if isinstance(n.ast, ast.Assign) else [n.ast.target]:
                out |= {x.id for x in ast.walk(t) if isinstance(x, ast.Name)}
        return out

    tests = [n for n in g.nodes if _is_exists_test(n)]
    bad_paths = []
    for n in g.nodes:
        if _assigned(n) & pvars:
            w = g.all_path_pass(n.id, _is_exists_test, until=ret_nodes)
            if w is not None:
                bad_paths.append(f"line {n.lineno}: `{unparse(n.ast)[:60]}` reaches the return without an existence test")
    for t in tests:
        for (m, lab) in g.succ[t.id]:
            if lab == "true":
                if m in ret_nodes or g.all_path_pass(m, lambda x: bool(_assigned(x) & pvars) or _is_exists_test(x), until=ret_nodes) is not None and not (_assigned(g.nodes[m]) & pvars):
                    bad_paths.append(f"line {t.lineno}: the return is reachable on the branch where the file exists")
    r3.check(bool(tests) and bool(ret_nodes) and not bad_paths, site(un), un.qualname, "every assignment of the returned name/path is followed by the os.path.exists test on all paths to the return, and the return lies on its false edge", why="; ".join(bad_paths) or "existence test or return not found")
    for (f, c, key, kind) in sites:
        if key != "open" or not f.qualname.startswith("pdfminer.image."):
            continue
        mode = c.args[1].value if len(c.args) > 1 and isinstance(c.args[1], ast.Constant) else None
        if mode is None or not any(ch in str(mode) for ch in "wax+"):
            continue
        if "x" in str(mode):
            r3.ok(site(f, c), f.qualname, unparse(c), note="exclusive creation")
            continue
        pv = unparse(c.args[0])
        defs = [a for a in walk_no_nested(f.node) if isinstance(a, ast.Assign) and any(pv in [unparse(e) for e in (t.elts if isinstance(t, ast.Tuple) else [t])] for t in a.targets)]
        ok = len(defs) == 1 and isinstance(defs[0].value, ast.Call) and (dotted(defs[0].value.func) or "") == "self._create_unique_image_name" and defs[0].lineno < c.lineno
        r3.check(ok, site(f, c), f.qualname, f"{unparse(c)} : `{pv}` comes from _create_unique_image_name", why="an existing file could be overwritten")

"""Rules on pdfinterp.PDFPageInterpreter shared by C05 and C16."""

from __future__ import annotations

import ast
import json
import os
from typing import Dict, List, Optional, Sequence, Set, Tuple

from ..cfg import CFG, build_cfg, contains_call
from ..model import AnchorMissing, FuncInfo, Model, dotted, unparse, walk_no_nested
from ..report import VERIF, Report, Rule
from ..util import site

INTERP = "pdfminer.pdfinterp.PDFPageInterpreter"


def load_ops() -> dict:
    with open(os.path.join(VERIF, "spec", "pdf_operators.json")) as f:
        return json.load(f)


def mangle(op: str, table: Dict[str, str]) -> str:
    name = op
    for k, v in table.items():
        name = name.replace(k, v)
    return "do_" + name


def extract_mangling(model: Model) -> Tuple[Dict[str, str], FuncInfo]:
    ex = model.func(INTERP + ".execute")
    out: Dict[str, str] = {}
    for n in walk_no_nested(ex.node):
        if isinstance(n, ast.Call) and isinstance(n.func, ast.Attribute) and n.func.attr == "replace" and len(n.args) == 2 and all(isinstance(a, ast.Constant) for a in n.args):
            out[n.args[0].value] = n.args[1].value  # type: ignore[attr-defined]
    return out, ex


def handler(model: Model, op: str, table: Dict[str, str]) -> Optional[FuncInfo]:
    return model.lookup_method(INTERP, mangle(op, table))


def arity_rule(model: Model, rep: Report, rid: str, ops: Sequence[str]) -> None:
    spec = load_ops()
    r = rep.rule(rid, "ARITY", "every operator has a handler taking the spec'd number of operands; dispatch by operand count with a short-stack guard", len(ops))
    table, ex = extract_mangling(model)
    r.check(table == spec["mangling"], site(ex), ex.qualname, "operator-name mangling in execute is {*: _a, \": _w, ': _q}", why=f"found {table}")
    for op in ops:
        want = spec["operands"][op]
        h = handler(model, op, spec["mangling"])
        if h is None:
            r.violation(site(ex), INTERP, f"operator `{op}` -> {mangle(op, spec['mangling'])}", "no handler method: the operator would be ignored and its operands left on the stack")
            continue
        a = h.node.args  # type: ignore[attr-defined]
        n = len(a.posonlyargs) + len(a.args) - 1
        var = a.vararg is not None
        r.check(n == want and not var, site(h), h.qualname, f"operator `{op}` takes {want} operand(s)", why=f"handler declares {n}{' + *args' if var else ''}")
    # dispatch: nargs from co_argcount - 1, args = self.pop(nargs), call only if len(args) == nargs
    src = unparse(ex.node)
    ok_count = "co_argcount - 1" in src
    guard = None
    for n in walk_no_nested(ex.node):
        if isinstance(n, ast.If) and isinstance(n.test, ast.Compare) and unparse(n.test).replace(" ", "") in ("len(args)==nargs", "nargs==len(args)"):
            if any(isinstance(c, ast.Call) and isinstance(c.func, ast.Name) and c.func.id == "func" and any(isinstance(x, ast.Starred) for x in c.args) for st in n.body for c in [st] + list(walk_no_nested(st))):
                guard = n
    r.check(ok_count and "self.pop(nargs)" in src, site(ex), ex.qualname, "operand count is the handler's arity; operands are popped from the argument stack", why="co_argcount/pop(nargs) idiom not found")
    r.check(guard is not None, site(ex), ex.qualname, "a handler is invoked only when all its operands are present (len(args) == nargs)", why="guard missing: an operator with missing operands would raise TypeError or run on a short list")
    # pop(n) takes the last n operands (fewer if fewer are there) and always removes what it returns
    pp = model.func(INTERP + ".pop")
    pn = pp.params[1] if len(pp.params) > 1 else "n"
    exits = [n for n in walk_no_nested(pp.node) if isinstance(n, ast.If) and any(isinstance(x, ast.Return) for x in n.body)]
    ex_ok = all("".join(unparse(e.test).split()) in (f"{pn}==0", f"0=={pn}", f"not{pn}") for e in exits)
    ps = "".join(unparse(pp.node).split())
    r.check(ex_ok and f"x=self.argstack[-{pn}:]" in ps and f"self.argstack=self.argstack[:-{pn}]" in ps and ps.endswith("returnx"), site(pp), pp.qualname, "pop(n): returns argstack[-n:] and leaves argstack[:-n]; the only shortcut is n == 0", why=f"early exits {[unparse(e.test) for e in exits]}: operands of an operator that is short of operands must still be consumed, otherwise they are taken by a later operator")


def stmt_node_of_call(g: CFG, pred) -> List[int]:
    return [n.id for n in g.nodes if n.ast is not None and n.kind in ("stmt", "test") and contains_call(n.ast, pred)]


def calls_in_order(f: FuncInfo, names: Sequence[str]) -> Tuple[bool, str]:
    """Every path entry->exit executes calls to the named callees (dotted suffix match) in this order."""
    g = build_cfg(f.node, exc_edges=False)
    dom = g.dominators()
    prev: Optional[int] = None
    for nm in names:
        def pred(c: ast.Call, nm=nm) -> bool:
            d = dotted(c.func) or ""
            return d == nm or d.endswith("." + nm)
        wit = g.all_path_pass(g.entry, lambda n: n.ast is not None and n.kind in ("stmt", "test") and contains_call(n.ast, pred))
        if wit is not None:
            return False, f"a path from entry to exit does not call {nm}"
        nodes = stmt_node_of_call(g, pred)
        if prev is not None:
            later = [x for x in nodes if prev in dom.get(x, set()) and x != prev]
            if not later:
                # same statement?  then order inside the statement is by position
                if prev in nodes:
                    pass
                else:
                    return False, f"{nm} is not called after the previous step on every path"
            prev = later[0] if later else prev
        else:
            # the first of the dominating nodes
            cands = [x for x in nodes if all(x in dom.get(y, set()) or x == y for y in nodes)]
            prev = cands[0] if cands else nodes[0]
    return True, ""


def assigns_to(f: FuncInfo, target_text: str) -> List[ast.stmt]:
    out = []
    for n in walk_no_nested(f.node):
        if isinstance(n, ast.Assign) and any(unparse(t) == target_text for t in n.targets):
            out.append(n)
        elif isinstance(n, (ast.AugAssign, ast.AnnAssign)) and unparse(n.target) == target_text:
            out.append(n)
    out.sort(key=lambda n: (n.lineno, n.col_offset))
    return out


def must_assign(f: FuncInfo, target_text: str) -> bool:
    """Is `target_text` assigned on every path from entry to normal exit?"""
    g = build_cfg(f.node, exc_edges=False)

    def hit(n) -> bool:
        a = n.ast
        if a is None or n.kind != "stmt":
            return False
        if isinstance(a, ast.Assign):
            return any(unparse(t) == target_text or (isinstance(t, ast.Tuple) and any(unparse(e) == target_text for e in t.elts)) for t in a.targets)
        return False

    return g.all_path_pass(g.entry, hit) is None


OPTIONAL_NUMBER_CALLS = {"safe_float", "safe_int"}


def optional_number_truth_rule(model: Model, rep: Report, rid: str, funcs: Sequence[FuncInfo], min_instances: int) -> None:
    """Operands converted by safe_float/safe_int are None when unusable and may legitimately be 0: wherever such a value
    decides a branch it must be compared with None by identity; a truth test treats the number 0 as invalid."""
    r = rep.rule(rid, "GUARD", "numbers converted with safe_float/safe_int (None = unusable, 0 = a value) are tested with `is None`, never for truth", min_instances)
    for f in funcs:
        if isinstance(f.node, ast.Lambda):
            continue
        opt: Set[str] = set()
        for n in walk_no_nested(f.node):
            if isinstance(n, ast.Assign) and isinstance(n.value, ast.Call) and (dotted(n.value.func) or "").split(".")[-1] in OPTIONAL_NUMBER_CALLS:
                opt |= {t.id for t in n.targets if isinstance(t, ast.Name)}
            elif isinstance(n, ast.NamedExpr) and isinstance(n.value, ast.Call) and (dotted(n.value.func) or "").split(".")[-1] in OPTIONAL_NUMBER_CALLS and isinstance(n.target, ast.Name):
                opt.add(n.target.id)
        if not opt:
            continue
        ctx: List[ast.AST] = []
        for n in walk_no_nested(f.node):
            if isinstance(n, (ast.If, ast.While, ast.IfExp, ast.Assert)):
                ctx.append(n.test)
            elif isinstance(n, ast.BoolOp):
                ctx += n.values
            elif isinstance(n, ast.UnaryOp) and isinstance(n.op, ast.Not):
                ctx.append(n.operand)
            elif isinstance(n, ast.comprehension):
                ctx += n.ifs
        seen: Set[int] = set()
        for t in ctx:
            if id(t) in seen:
                continue
            seen.add(id(t))
            if isinstance(t, ast.Name) and t.id in opt:
                r.violation(site(f, t), f.qualname, f"`{t.id}` tested for truth", f"`{t.id}` comes from safe_float/safe_int: 0 is a legitimate operand (e.g. `0 w` selects the thinnest line) but is falsy, so it is rejected like an unparsable one")
            elif isinstance(t, ast.Compare) and len(t.ops) == 1 and isinstance(t.ops[0], (ast.Is, ast.IsNot)) and isinstance(t.left, ast.Name) and t.left.id in opt and isinstance(t.comparators[0], ast.Constant) and t.comparators[0].value is None:
                r.ok(site(f, t), f.qualname, f"`{unparse(t)}`")

"""C11 - converters: text output is the tree's text; XML is well-formed and faithful."""

from __future__ import annotations

import ast
import re
from typing import Dict, List, Optional, Set, Tuple

from ..callgraph import CallGraph
from ..model import AnchorMissing, FuncInfo, Model, dotted, unparse, walk_no_nested
from ..report import Report
from ..util import site
from .c15 import make_prov
from .tokenizer import _guard_tests

CV = "pdfminer.converter."

# interpolations reviewed as safe in XMLConverter writes: expression -> reason (each verified below where possible)
SAFE_XML_EXPR = {
    "item.ncs.name": "colour-space names are constants of PREDEFINED_COLORSPACE or a literal that compared equal to 'ICCBased'/'DeviceN' (verified: every PDFColorSpace(name, ...) built from a document name is under `name == <constant>`)",
    "item.graphicstate.ncolor": "floats produced by safe_float/safe_rgb/safe_cmyk or None",
    "item.get_pts()": "numbers formatted with %.3f",
    "wmode": "one of two constant strings",
    "self.codec": "caller-supplied codec name",
    "item.pageid": "page counter (int)",
    "item.rotate": "number",
    "item.index": "int",
    "item.linewidth": "number",
    "item.size": "number",
    "item.width": "number",
    "item.height": "number",
}


def _interpolations(e: ast.AST) -> List[Tuple[ast.AST, str]]:
    """(value expression, format code) for every value interpolated into a written string."""
    out: List[Tuple[ast.AST, str]] = []
    if isinstance(e, ast.JoinedStr):
        for v in e.values:
            if isinstance(v, ast.FormattedValue):
                spec = "".join(x.value for x in v.format_spec.values if isinstance(x, ast.Constant)) if isinstance(v.format_spec, ast.JoinedStr) else ""
                out.append((v.value, spec[-1:] if spec else "s"))
    elif isinstance(e, ast.BinOp) and isinstance(e.op, ast.Mod) and isinstance(e.left, ast.Constant) and isinstance(e.left.value, str):
        specs = [s for s in re.findall(r"%[-+ #0]*\d*(?:\.\d+)?([a-zA-Z%])", e.left.value) if s != "%"]
        args = list(e.right.elts) if isinstance(e.right, ast.Tuple) else [e.right]
        for i, a in enumerate(args):
            out.append((a, specs[i] if i < len(specs) else "s"))
    elif isinstance(e, ast.BinOp) and isinstance(e.op, ast.Add):
        out += _interpolations(e.left) + _interpolations(e.right)
    elif isinstance(e, ast.Constant):
        pass
    elif isinstance(e, ast.Name):
        out.append((e, "name"))
    else:
        out.append((e, "s"))
    return out


def _const_text(e: ast.AST) -> str:
    """Literal part of a written string with holes replaced by a placeholder."""
    if isinstance(e, ast.Constant) and isinstance(e.value, str):
        return e.value
    if isinstance(e, ast.JoinedStr):
        return "".join(v.value if isinstance(v, ast.Constant) else "X" for v in e.values)
    if isinstance(e, ast.BinOp) and isinstance(e.op, ast.Mod) and isinstance(e.left, ast.Constant) and isinstance(e.left.value, str):
        return re.sub(r"%[-+ #0]*\d*(?:\.\d+)?[a-zA-Z]", "X", e.left.value)
    if isinstance(e, ast.BinOp) and isinstance(e.op, ast.Add):
        return _const_text(e.left) + _const_text(e.right)
    return "X"


def _chain(fn: ast.AST) -> List[Tuple[Optional[ast.AST], List[ast.stmt]]]:
    """The top-level if/elif/else chain of a render function as (test, body) pairs."""
    top = [s for s in fn.body if isinstance(s, ast.If)]  # type: ignore[attr-defined]
    best: List[Tuple[Optional[ast.AST], List[ast.stmt]]] = []
    for t in top:
        out: List[Tuple[Optional[ast.AST], List[ast.stmt]]] = []
        cur: Optional[ast.stmt] = t
        while isinstance(cur, ast.If):
            out.append((cur.test, cur.body))
            if len(cur.orelse) == 1 and isinstance(cur.orelse[0], ast.If):
                cur = cur.orelse[0]
            else:
                if cur.orelse:
                    out.append((None, cur.orelse))
                cur = None
        if len(out) > len(best):
            best = out
    return best


def _isinstance_classes(model: Model, f: FuncInfo, test: Optional[ast.AST]) -> List[str]:
    if not (isinstance(test, ast.Call) and (dotted(test.func) or "") == "isinstance" and len(test.args) == 2):
        return []
    t = test.args[1]
    elts = t.elts if isinstance(t, ast.Tuple) else [t]
    out = []
    for e in elts:
        r = model.resolve_expr(f.module, e, f.cls)
        if r in model.classes:
            out.append(r)
    return out


def _escaping_helper(model: Model, q: str) -> bool:
    """A method all of whose returns are enc(<something>)."""
    h = model.funcs.get(q)
    if h is None or isinstance(h.node, ast.Lambda):
        return False
    rets = [n for n in walk_no_nested(h.node) if isinstance(n, ast.Return)]
    return bool(rets) and all(isinstance(r.value, ast.Call) and (dotted(r.value.func) or "") in ("enc", "utils.enc") for r in rets)


def _filters_control(h) -> bool:
    """The function applies self.CONTROL.sub('', ...) to a str value (on the way to enc)."""
    return any(isinstance(c, ast.Call) and "".join((dotted(c.func) or "").split()) in ("self.CONTROL.sub", "XMLConverter.CONTROL.sub") and c.args and isinstance(c.args[0], ast.Constant) and c.args[0].value == "" for c in ast.walk(h.node))


def run(model: Model, rep: Report) -> None:
    _round8(model, rep)
    rep.explanation = (
        "C11: decides the structural part of the converter property: every value interpolated into an XMLConverter write is escaped, numeric, "
        "reviewed-safe or shown by backward provenance not to be document-controlled; every converter encodes with its codec on binary sinks; "
        "isinstance dispatch never shadows a subclass behind its superclass and covers every item class; the literal XML written per branch is "
        "tag-balanced; the text converter renders children in order, one newline per text box and one form feed per page. Equality of the output "
        "characters with the tree's text beyond the traversal shape is not decided."
    )
    cg = CallGraph(model)
    prov = make_prov(model, cg, path_sanitizers=False)
    xml = model.cls(CV + "XMLConverter")
    # ---------------------------------------------------------------- R1
    r1 = rep.rule("C11-R1", "TAINT", "XMLConverter: every interpolated value is escaped, numeric, reviewed-safe or provably not document-controlled", 20)
    writers = [f for q, f in model.funcs.items() if q.startswith(CV + "XMLConverter.")]
    nwrites = 0
    for f in writers:
        for c in walk_no_nested(f.node):
            if not (isinstance(c, ast.Call) and (dotted(c.func) or "") == "self.write" and c.args):
                continue
            if f.name == "write":
                continue
            nwrites += 1
            arg = c.args[0]
            # a local holding the string: s = '...' % (...); self.write(s)
            exprs = [arg]
            if isinstance(arg, ast.Name):
                defs = [a.value for a in walk_no_nested(f.node) if isinstance(a, ast.Assign) and any(isinstance(t, ast.Name) and t.id == arg.id for t in a.targets) and a.lineno <= c.lineno]
                # nearest preceding definition in the same branch
                defs = sorted(defs, key=lambda d: d.lineno)
                exprs = defs[-1:] if defs else [arg]
            for ex in exprs:
                for (val, code) in _interpolations(ex):
                    txt = unparse(val)
                    where = site(f, c)
                    if code in "dfeEgGxXoi" and code != "s":
                        r1.ok(where, f.qualname, f"{txt} [%{code}]", note="numeric format")
                        continue
                    if isinstance(val, ast.Call) and (dotted(val.func) or "") in ("enc", "utils.enc", "escape", "html.escape"):
                        r1.ok(where, f.qualname, txt, note="escaped")
                        continue
                    if isinstance(val, ast.Call) and (dotted(val.func) or "").startswith("self.") and _escaping_helper(model, CV + "XMLConverter." + (dotted(val.func) or "")[5:]):
                        r1.ok(where, f.qualname, txt, note="escaped by a helper whose every return is enc(...)")
                        continue
                    if isinstance(val, ast.Call) and (dotted(val.func) or "") in ("bbox2str", "matrix2str", "str", "len", "int", "float", "repr") and (dotted(val.func) or "") in ("bbox2str", "matrix2str", "len", "int", "float"):
                        r1.ok(where, f.qualname, txt, note="numeric formatter")
                        continue
                    if txt in SAFE_XML_EXPR:
                        r1.safe(where, f.qualname, txt, SAFE_XML_EXPR[txt])
                        continue
                    if txt == "item.get_text()":
                        # only acceptable in the branch that can only see LTAnno: LTChar/LTTextLine/LTTextBox tested before LTText
                        gts = _guard_tests(f, c)
                        in_lttext = any(pol and "isinstance(item, LTText)" == unparse(t) for t, pol in gts)
                        prior = {cl for t, pol in gts if not pol for cl in _isinstance_classes(model, f, t)}
                        need = {"pdfminer.layout.LTChar", "pdfminer.layout.LTTextLine", "pdfminer.layout.LTTextBox"}
                        if in_lttext and need <= prior:
                            r1.safe(where, f.qualname, txt, "branch reached only by LTAnno (LTChar, LTTextLine, LTTextBox are handled before): its text is a constant inserted by layout analysis")
                            continue
                    leaves = prov.trace(f, val)
                    docs = sorted({(l.desc, l.site, l.trail) for l in leaves if l.tag in ("DOC", "UNKNOWN")}, key=lambda d: (len(d[2]), d))
                    if docs:
                        d0 = docs[0]
                        r1.violation(where, f.qualname, f"{txt} interpolated unescaped", f"document-controlled data reaches the XML output unescaped: {d0[0]} at {d0[1]}" + (f" via {' <- '.join(d0[2][-3:])}" if d0[2] else ""))
                    else:
                        r1.ok(where, f.qualname, txt, note="provenance: no document-controlled origin")
    rep.analysed["xml_write_calls"] = nwrites
    wt = model.func(CV + "XMLConverter.write_text")
    okwt = any(isinstance(c, ast.Call) and (dotted(c.func) or "") == "self.write" and c.args and isinstance(c.args[0], ast.Call) and (dotted(c.args[0].func) or "") == "enc" for c in walk_no_nested(wt.node))
    r1.check(okwt, site(wt), wt.qualname, "character data goes through enc()", why="write_text does not escape")
    enc = model.func("pdfminer.utils.enc")
    r1.check("return escape(x)" in unparse(enc.node) and "from html import escape" in model.module("pdfminer.utils").src, site(enc), enc.qualname, "enc() is html.escape (escapes & < > and both quotes)", why="enc changed")
    # colour-space names: every PDFColorSpace built from a document name sits under an equality test with a constant
    ir = model.func("pdfminer.pdfinterp.PDFPageInterpreter.init_resources.get_colorspace")
    okcs = True
    for c in walk_no_nested(ir.node):
        if isinstance(c, ast.Call) and (dotted(c.func) or "") == "PDFColorSpace" and c.args and not isinstance(c.args[0], ast.Constant):
            nm = unparse(c.args[0])
            gts = _guard_tests(ir, c)
            if not any(pol and isinstance(p, ast.Compare) and unparse(p.left) == nm and isinstance(p.ops[0], ast.Eq) and isinstance(p.comparators[0], ast.Constant) for t, pol in gts for p in ([t] if not isinstance(t, ast.BoolOp) else t.values)):
                okcs = False
    r1.check(okcs, site(ir), ir.qualname, "a colour space named by the document is only constructed under `name == <constant>`", why="PDFColorSpace built from an unconstrained document name: its name is written unescaped by XMLConverter")

    # ---------------------------------------------------------------- R11: attribute values cannot carry control characters at all
    r11 = rep.rule("C11-R11", "TAINT", "XML attributes filled from the document (figure name, font name, image file name) lose the C0 control characters XML 1.0 cannot carry, whatever strip_control says - escaping alone leaves them in and the output is not well-formed", 3)
    for f in writers:
        if f.name in ("write", "write_text"):
            continue
        for c in walk_no_nested(f.node):
            if not (isinstance(c, ast.Call) and c.args):
                continue
            d = dotted(c.func) or ""
            if d in ("enc", "utils.enc"):
                a0 = c.args[0]
                filtered = isinstance(a0, ast.Call) and "".join((dotted(a0.func) or "").split()) in ("self.CONTROL.sub", "XMLConverter.CONTROL.sub")
                # enc() inside the filtering helper itself
                if _filters_control(f):
                    continue
                r11.check(filtered, site(f, c), f.qualname, f"{unparse(c)} : control characters are removed before escaping", why=f"`{unparse(a0)}` comes from the document (a name such as /X#01Y is legal PDF); html.escape leaves U+0001..U+001F in, and no XML parser accepts them in an attribute value")
            elif d.startswith("self.") and _escaping_helper(model, CV + "XMLConverter." + d[5:]):
                h = model.funcs[CV + "XMLConverter." + d[5:]]
                r11.check(_filters_control(h), site(f, c), f.qualname, f"{unparse(c)} : the helper removes control characters before escaping", why=f"{h.qualname} escapes but does not remove the characters XML cannot carry")

    # ---------------------------------------------------------------- R2
    r2 = rep.rule("C11-R2", "SIBLING", "every converter encodes with self.codec when it writes to a binary sink", 5)
    for q, f in sorted(model.funcs.items()):
        if not (q.startswith(CV) or q.startswith("pdfminer.pdfdevice.TagExtractor.")):
            continue
        for c in walk_no_nested(f.node):
            if isinstance(c, ast.Call) and isinstance(c.func, ast.Attribute) and c.func.attr == "write" and c.args:
                recv = unparse(c.func.value)
                if "outfp" not in recv:
                    continue
                encs = [x for x in [c.args[0]] + list(walk_no_nested(c.args[0])) if isinstance(x, ast.Call) and isinstance(x.func, ast.Attribute) and x.func.attr == "encode"]
                for e_ in encs:
                    a0 = unparse(e_.args[0]) if e_.args else next((unparse(k.value) for k in e_.keywords if k.arg == "encoding"), "")
                    r2.check(a0 == "self.codec", site(f, c), f.qualname, f"{unparse(c)[:90]}", why=f"encodes with `{a0 or 'the default (utf-8)'}` instead of the configured codec: a binary sink and a text sink get different characters")
        # an encoded local: encoded_text = text.encode(self.codec)
        for a in walk_no_nested(f.node):
            if isinstance(a, ast.Assign) and isinstance(a.value, ast.Call) and isinstance(a.value.func, ast.Attribute) and a.value.func.attr == "encode" and unparse(a.value.func.value) in ("text", "s"):
                a0 = unparse(a.value.args[0]) if a.value.args else ""
                r2.check(a0 == "self.codec", site(f, a), f.qualname, unparse(a)[:90], why=f"encodes with `{a0 or 'the default'}`")

    # ---------------------------------------------------------------- R3
    r3 = rep.rule("C11-R3", "DISPATCH", "render dispatch: no subclass test is shadowed by an earlier superclass test; every item class is handled", 3)
    concrete = [CV.replace("converter.", "layout.") + n for n in ("LTPage", "LTLine", "LTRect", "LTCurve", "LTFigure", "LTImage", "LTTextLineHorizontal", "LTTextLineVertical", "LTTextBoxHorizontal", "LTTextBoxVertical", "LTChar", "LTAnno")]
    for cname, must_cover in (("XMLConverter", True), ("HTMLConverter", False), ("TextConverter", False), ("HOCRConverter", False)):
        q = CV + cname + ".receive_layout.render"
        if q not in model.funcs:
            raise AnchorMissing(q)
        f = model.funcs[q]
        ch = _chain(f.node)
        seen: List[Tuple[str, ast.AST]] = []
        shadow = []
        for (t, body) in ch:
            for cl in _isinstance_classes(model, f, t):
                for (prev, pt) in seen:
                    if model.is_subclass(cl, prev) and cl != prev:
                        # shadowed unless the earlier test sits in a different (non-isinstance) arm
                        shadow.append(f"{cl.split('.')[-1]} after {prev.split('.')[-1]}")
                seen.append((cl, t))
        r3.check(not shadow, site(f), f.qualname, f"{cname}.render: subclass tests precede superclass tests ({[c.split('.')[-1] for c, _ in seen]})", why=f"unreachable branch(es): {shadow}")
        if must_cover:
            handled = [c for c in concrete if any(model.is_subclass(c, s) for s, _ in seen)]
            missing = [c.split(".")[-1] for c in concrete if c not in handled]
            r3.check(not missing, site(f), f.qualname, f"{cname}.render handles every layout item class", why=f"falls into `assert False`: {missing}")

    # ---------------------------------------------------------------- R4
    r4 = rep.rule("C11-R4", "PAIR", "XML: the literal text written by each branch is tag-balanced around its children", 8)
    for fname in ("receive_layout.render", "receive_layout.show_group"):
        f = model.func(CV + "XMLConverter." + fname)
        for (t, body) in _chain(f.node):
            texts: List[str] = []
            mod_ = ast.Module(body=body, type_ignores=[])
            calls = sorted([c for c in walk_no_nested(mod_) if isinstance(c, ast.Call) and (dotted(c.func) or "") in ("self.write", "self.write_text") and c.args], key=lambda c: (c.lineno, c.col_offset))
            for c in calls:
                if (dotted(c.func) or "") == "self.write_text":
                    texts.append("X")
                    continue
                arg = c.args[0]
                if isinstance(arg, ast.Name):
                    defs = sorted([a for a in walk_no_nested(mod_) if isinstance(a, ast.Assign) and any(isinstance(tg, ast.Name) and tg.id == arg.id for tg in a.targets)], key=lambda a: a.lineno)
                    arg = defs[-1].value if defs else arg
                texts.append(_const_text(arg))
            if not texts:
                continue
            stack: List[str] = []
            bad = ""
            # optional parts written under an inner `if` (layout groups, image src) are balanced on their own: analysed as one sequence here
            for m in re.finditer(r"<(/?)([A-Za-z]+)((?:[^<>\"]|\"[^\"]*\")*?)(/?)>", "".join(texts)):
                close, tag, _, selfc = m.group(1), m.group(2), m.group(3), m.group(4)
                if selfc:
                    continue
                if close:
                    if not stack or stack[-1] != tag:
                        bad = f"</{tag}> closes {stack[-1] if stack else 'nothing'}"
                        break
                    stack.pop()
                else:
                    stack.append(tag)
            if stack and not bad:
                bad = f"unclosed <{stack[-1]}>"
            label = unparse(t)[:50] if t is not None else "else"
            r4.check(not bad, site(f, body[0]), f.qualname, f"branch `{label}` writes balanced tags: {re.sub(r'X+', '…', ''.join(texts))[:110]!r}", why=bad)
    hd, ft = model.func(CV + "XMLConverter.write_header"), model.func(CV + "XMLConverter.write_footer")
    hs = "".join(_const_text(c.args[0]) for c in sorted([c for c in walk_no_nested(hd.node) if isinstance(c, ast.Call) and (dotted(c.func) or "") == "self.write"], key=lambda c: c.lineno))
    fs = "".join(_const_text(c.args[0]) for c in walk_no_nested(ft.node) if isinstance(c, ast.Call) and (dotted(c.func) or "") == "self.write")
    r4.check("<pages>" in hs and fs.strip() == "</pages>" and hs.count("<?xml") >= 1, site(hd), hd.qualname, "document element <pages> opened by the header and closed by the footer", why=f"header {hs!r} footer {fs!r}")
    cl = model.func(CV + "XMLConverter.close")
    r4.check("self.write_footer()" in unparse(cl.node) and "self.write_header()" in unparse(model.func(CV + "XMLConverter.__init__").node), site(cl), cl.qualname, "header written on construction, footer on close", why="changed")

    # ---------------------------------------------------------------- R5
    r5 = rep.rule("C11-R5", "ORDER", "TextConverter: children in order, text of every LTText, one newline per text box, one form feed per page", 4)
    f = model.func(CV + "TextConverter.receive_layout.render")
    src = unparse(f.node)
    ifs = [s for s in f.node.body if isinstance(s, ast.If)]  # type: ignore[attr-defined]
    ok1 = False
    ok2 = False
    if ifs:
        first = ifs[0]
        ok1 = unparse(first.test) == "isinstance(item, LTContainer)" and "".join(unparse(first.body[0]).split()) == "forchildinitem:render(child)"
        el = first.orelse[0] if first.orelse and isinstance(first.orelse[0], ast.If) else None
        ok2 = el is not None and unparse(el.test) == "isinstance(item, LTText)" and "".join(unparse(el.body[0]).split()) == "self.write_text(item.get_text())"
    r5.check(ok1, site(f), f.qualname, "a container renders its children in iteration order", why="container branch changed")
    r5.check(ok2, site(f), f.qualname, "a text item that is not a container writes its text", why="text branch changed")
    nl = [s for s in ifs[1:] if unparse(s.test) == "isinstance(item, LTTextBox)"] if ifs else []
    ok3 = len(nl) == 1 and "".join(unparse(nl[0].body[0]).split()) in ("self.write_text('\\n')",) and f.node.body.index(nl[0]) > f.node.body.index(ifs[0])  # type: ignore[attr-defined]
    r5.check(ok3, site(f), f.qualname, "exactly one newline after each text box (after its children)", why="newline rule changed")
    rl = model.func(CV + "TextConverter.receive_layout")
    tail = [unparse(s) for s in rl.node.body if isinstance(s, ast.Expr)]  # type: ignore[attr-defined]
    ok4 = tail[-2:] == ["render(ltpage)", "self.write_text('\\x0c')"]
    r5.check(ok4, site(rl), rl.qualname, "the page is rendered, then exactly one form feed is written", why=f"tail statements {tail[-2:]}")
    _control_chars(model, rep)
    _xml_attribute_bindings(model, rep)
    _sinks_and_selection(model, rep)


def _control_chars(model: Model, rep: Report) -> None:
    """C11-R6: with strip_control the XML converter removes exactly the characters XML 1.0 cannot carry."""
    from ..fold import Folder, Regex, Unfoldable

    r6 = rep.rule("C11-R6", "TABLE", "strip_control removes every C0 control character that XML 1.0 forbids (all but tab, line feed, carriage return) and nothing printable; write_text applies it before escaping", 2)
    ci = model.cls(CV + "XMLConverter")
    v = ci.attrs.get("CONTROL")
    if v is None:
        raise AnchorMissing("XMLConverter.CONTROL not found")
    try:
        rx = Folder(model).fold(ci.module, v)
    except Unfoldable as e:
        raise AnchorMissing(f"XMLConverter.CONTROL is not a constant pattern: {e}")
    got = rx.byteset() if isinstance(rx, Regex) else frozenset()
    want = frozenset(c for c in range(0x20) if c not in (0x09, 0x0A, 0x0D))
    missing = sorted(want - got)
    extra = sorted(c for c in got - want)
    r6.check(not missing and not extra, f"{ci.module.relpath}:{getattr(v, 'lineno', 0)}:XMLConverter.CONTROL", ci.qualname, "CONTROL matches exactly U+0000-0008, 000B, 000C, 000E-001F", why=(f"not removed: {[hex(c) for c in missing]} (illegal in XML 1.0: the document would not be well-formed); " if missing else "") + (f"removed although legal: {[hex(c) for c in extra[:8]]}" if extra else ""))
    wt = model.func(CV + "XMLConverter.write_text")
    s = "".join(unparse(wt.node).split())
    r6.check("ifself.stripcontrol:text=self.CONTROL.sub('',text)" in s and s.endswith("self.write(enc(text))"), site(wt), wt.qualname, "write_text strips (when asked) and then escapes what it writes", why="write_text changed")


def _xml_attribute_bindings(model: Model, rep: Report) -> None:
    """C11-R7: each XML attribute is filled from the item field of the same meaning (attribute name -> field)."""
    r7 = rep.rule("C11-R7", "BIND", "XML attributes are filled from the corresponding fields of the layout item (font <- fontname, size <- size, bbox <- bbox, ...)", 12)
    WANT = {
        ("page", "id"): "item.pageid", ("page", "bbox"): "item.bbox", ("page", "rotate"): "item.rotate", ("textgroup", "bbox"): "item.bbox",
        ("line", "linewidth"): "item.linewidth", ("line", "bbox"): "item.bbox",
        ("rect", "linewidth"): "item.linewidth", ("rect", "bbox"): "item.bbox",
        ("curve", "linewidth"): "item.linewidth", ("curve", "bbox"): "item.bbox", ("curve", "pts"): "item.get_pts()",
        ("figure", "name"): "item.name", ("figure", "bbox"): "item.bbox",
        ("textline", "bbox"): "item.bbox",
        ("textbox", "id"): "item.index", ("textbox", "bbox"): "item.bbox",
        ("text", "font"): "item.fontname", ("text", "bbox"): "item.bbox", ("text", "colourspace"): "item.ncs.name", ("text", "ncolour"): "item.graphicstate.ncolor", ("text", "size"): "item.size",
        ("image", "src"): "name", ("image", "width"): "item.width", ("image", "height"): "item.height",
    }
    WRAPPERS = {"enc", "bbox2str", "str", "repr", "enc_attr"}

    def core(e: ast.AST) -> str:
        while isinstance(e, ast.Call) and (dotted(e.func) or "").split(".")[-1] in WRAPPERS and len(e.args) == 1:
            e = e.args[0]
        return "".join(unparse(e).split())

    seen = set()
    for q, f in sorted(model.funcs.items()):
        if not q.startswith(CV + "XMLConverter.") or isinstance(f.node, ast.Lambda):
            continue
        for n in walk_no_nested(f.node):
            if isinstance(n, ast.JoinedStr):
                # f-string: attribute name = the `name="` that ends the literal part before each hole
                lits = [v.value if isinstance(v, ast.Constant) else None for v in n.values]
                head = next((x for x in lits if x), "")
                m0 = re.match(r"\s*<(\w+)", head)
                if not m0:
                    continue
                tag0 = m0.group(1)
                for i, v in enumerate(n.values):
                    if isinstance(v, ast.FormattedValue) and i > 0 and isinstance(n.values[i - 1], ast.Constant):
                        ma = re.search(r'(\w+)="$', str(n.values[i - 1].value))
                        if ma:
                            a0 = ma.group(1)
                            want0 = WANT.get((tag0, a0))
                            got0 = core(v.value)
                            seen.add((tag0, a0))
                            if want0 is None:
                                r7.violation(site(f, n), q, f"<{tag0} {a0}=...> filled from `{got0}`", "attribute not in the reviewed binding table: add it to the table after reading")
                            else:
                                r7.check(got0 == want0, site(f, v), q, f"<{tag0} {a0}=...> <- {want0}", why=f"filled from `{got0}`")
                continue
            if not (isinstance(n, ast.BinOp) and isinstance(n.op, ast.Mod) and isinstance(n.left, ast.Constant) and isinstance(n.left.value, str)):
                # implicit concatenation of literals is folded by the parser into one Constant
                continue
            fmt = n.left.value
            m = re.match(r"\s*<(\w+)", fmt)
            if not m:
                continue
            tag = m.group(1)
            attrs = re.findall(r'(\w+)="%[-+ #0]*\d*(?:\.\d+)?[a-zA-Z]"', fmt)
            args = list(n.right.elts) if isinstance(n.right, ast.Tuple) else [n.right]
            if len(attrs) != len(args) or len(attrs) != len(re.findall(r"%[-+ #0]*\d*(?:\.\d+)?[a-zA-Z]", fmt)):
                continue  # holes outside attribute values: not an attribute list
            for a, e in zip(attrs, args):
                want = WANT.get((tag, a))
                got = core(e)
                seen.add((tag, a))
                if want is None:
                    r7.violation(site(f, n), q, f"<{tag} {a}=...> filled from `{got}`", "attribute not in the reviewed binding table: add it to the table after reading")
                else:
                    r7.check(got == want, site(f, e), q, f"<{tag} {a}=...> <- {want}", why=f"filled from `{got}`: the XML reports another quantity than the tree holds (e.g. for vertical fonts LTChar.size is the glyph's width, not its height)")
    missing = sorted(set(WANT) - seen)
    r7.check(not missing, CV + "XMLConverter", CV + "XMLConverter", "every attribute of the reviewed table is written", why=f"not found: {missing}")


def _sinks_and_selection(model: Model, rep: Report) -> None:
    """C11-R8: which converter serves which output type, with the caller's codec / laparams / strip_control / imagewriter, and
    how a sink is classified as binary or text."""
    r8 = rep.rule("C11-R8", "BIND", "extract_text_to_fp: output type -> converter with the caller's options passed under their own names; sinks: a mode containing 'b' / BytesIO are binary, a mode without 'b' / StringIO / TextIOBase are text", 6)
    f = model.func("pdfminer.high_level.extract_text_to_fp")
    want = {
        "text": ("TextConverter", {"codec": "codec", "laparams": "laparams", "imagewriter": "imagewriter"}),
        "xml": ("XMLConverter", {"codec": "codec", "laparams": "laparams", "imagewriter": "imagewriter", "stripcontrol": "strip_control"}),
        "html": ("HTMLConverter", {"codec": "codec", "scale": "scale", "layoutmode": "layoutmode", "laparams": "laparams", "imagewriter": "imagewriter"}),
        "hocr": ("HOCRConverter", {"codec": "codec", "laparams": "laparams", "stripcontrol": "strip_control"}),
        "tag": ("TagExtractor", {"codec": "codec"}),
    }
    found = {}
    for n in walk_no_nested(f.node):
        if isinstance(n, ast.If) and isinstance(n.test, ast.Compare) and unparse(n.test.left) == "output_type" and isinstance(n.test.ops[0], ast.Eq) and isinstance(n.test.comparators[0], ast.Constant):
            calls = [c for st in n.body for c in [st] + list(walk_no_nested(st)) if isinstance(c, ast.Call) and isinstance(c.func, ast.Name) and c.func.id.endswith(("Converter", "Extractor"))]
            if calls:
                found[n.test.comparators[0].value] = calls[0]
    for ot, (cls, kws) in want.items():
        c = found.get(ot)
        if c is None:
            r8.violation(site(f), f.qualname, f"output_type == {ot!r}", "branch not found")
            continue
        got = {k.arg: "".join(unparse(k.value).split()) for k in c.keywords}
        pos = ["".join(unparse(a).split()).replace("cast(BinaryIO,outfp)", "outfp") for a in c.args]
        r8.check(c.func.id == cls and pos[:2] == ["rsrcmgr", "outfp"] and got == kws, site(f, c), f.qualname, f"{ot!r} -> {cls}(rsrcmgr, outfp, {', '.join(k + '=' + v for k, v in kws.items())})", why=f"got {c.func.id}({', '.join(pos)}, {got})")
    bs = model.func(CV + "PDFConverter._is_binary_stream")
    arms = []
    cur = next((n for n in bs.node.body if isinstance(n, ast.If)), None)  # type: ignore[attr-defined]
    while isinstance(cur, ast.If):
        ret = [s for s in cur.body if isinstance(s, ast.Return)]
        arms.append(("".join(unparse(cur.test).split()), unparse(ret[0].value) if ret else None))
        cur = cur.orelse[0] if len(cur.orelse) == 1 and isinstance(cur.orelse[0], ast.If) else None
    want_arms = [("'b'ingetattr(outfp,'mode','')", "True"), ("hasattr(outfp,'mode')", "False"), ("isinstance(outfp,io.BytesIO)", "True"), ("isinstance(outfp,io.StringIO)orisinstance(outfp,io.TextIOBase)", "False")]
    r8.check(arms == want_arms, site(bs), bs.qualname, "mode with 'b' -> binary; any other mode -> text; BytesIO -> binary; StringIO / TextIOBase -> text; otherwise binary", why=f"{arms}")


def _round8(model: Model, rep: Report) -> None:
    from ..util import guard_conjuncts

    r9 = rep.rule("C11-R9", "NORMFORM", "text for a text sink is handed over as it is: compatible_encode_method returns a str unchanged (no encode/decode round trip that would drop what the codec cannot represent)", 1)
    f = model.func("pdfminer.utils.compatible_encode_method")
    p0 = f.params[0]
    rets = [n for n in walk_no_nested(f.node) if isinstance(n, ast.Return) and "isinstance(%s,str)" % p0 in guard_conjuncts(f, n)]
    stores = [n for n in walk_no_nested(f.node) if isinstance(n, ast.Name) and isinstance(n.ctx, ast.Store) and n.id == p0]
    r9.check(len(rets) == 1 and isinstance(rets[0].value, ast.Name) and rets[0].value.id == p0 and not stores, site(f), f.qualname, f"under isinstance({p0}, str): return {p0}", why="a str goes through the codec: characters outside it are silently dropped from text that is written to a text sink, which never needed the codec")
    r10 = rep.rule("C11-R10", "NORMFORM", "coordinates are written in fixed-point notation with three decimals (bbox2str): the attribute reproduces the layout tree's numbers for pages of any size", 1)
    b = model.func("pdfminer.utils.bbox2str")
    specs = []
    for n in walk_no_nested(b.node):
        if isinstance(n, ast.FormattedValue):
            specs.append("".join(x.value for x in n.format_spec.values if isinstance(x, ast.Constant)) if n.format_spec is not None else "")
        if isinstance(n, ast.BinOp) and isinstance(n.op, ast.Mod) and isinstance(n.left, ast.Constant) and isinstance(n.left.value, str):
            import re as _re

            specs += _re.findall(r"%([0-9.]*[a-zA-Z])", n.left.value)
    r10.check(len(specs) == 4 and all(s_ == ".3f" for s_ in specs), site(b), b.qualname, "four fields, each formatted .3f", why=f"format specs {specs}: a general/short format keeps six significant digits only, so a coordinate of 1234.567 on a large page is written as 1234.57")


def _enc_attr_unconditional(model: Model, rep: Report) -> None:
    """C11-R12: a control character cannot stand in an XML attribute, escaped or not, whatever `stripcontrol` says (that option
    is about character *content*).  enc_attr removes them under no condition besides the type test of its operand."""
    from ..util import guard_conjuncts

    r = rep.rule("C11-R12", "GUARD", "XMLConverter.enc_attr removes control characters from every string operand: the CONTROL.sub call stands under the isinstance test only, never under an option", 1)
    f = model.func("pdfminer.converter.XMLConverter.enc_attr")
    subs = [c for c in walk_no_nested(f.node) if isinstance(c, ast.Call) and (dotted(c.func) or "").endswith("CONTROL.sub")]
    if not subs:
        raise AnchorMissing("enc_attr: CONTROL.sub not found")
    for c in subs:
        g = guard_conjuncts(f, c)
        r.check(all(x.startswith("isinstance(value,") for x in g), site(f, c), f.qualname, f"CONTROL.sub under {sorted(g) or 'no condition'}", why=f"conditions {sorted(g)}: with the option off a font or XObject name holding a control character is written into an attribute as it is and the output is not well-formed XML")


_run_r1_r11 = run


def run(model: Model, rep: Report) -> None:  # noqa: F811
    _run_r1_r11(model, rep)
    _enc_attr_unconditional(model, rep)

"""C07 - composite fonts: segmentation, CID, Unicode follow CMap, ToUnicode, W/DW."""

from __future__ import annotations

import ast
from typing import Dict, List, Optional, Tuple

from ..fold import Folder, Unfoldable
from ..model import AnchorMissing, Model, dotted, unparse, walk_no_nested
from ..report import Report
from ..util import guard_conjuncts, site
from .c13_ops import _struct_sized

CM = "pdfminer.cmapdb."
F = "pdfminer.pdffont."


def run(model: Model, rep: Report) -> None:
    rep.explanation = (
        "C07: decides the structural part only - and it is a small part of this property: identity CMaps segment two (resp. one) bytes big-endian "
        "with the writing mode of their name and the buffer cut to whole codes; the CMap parser pairs each begin/end keyword, clears the stack at "
        "begin and consumes it in the right chunk size; range expansions (bfrange in increment and array form, cidrange, W, W2) depend on the "
        "loop index on both sides and are inclusive; DW2/W2 bind (w, (vx, vy)). CJK code segmentation and the Unicode values of the predefined "
        "CMaps live in pickled data files, not in source, and agreement with platform codecs is value level: not decided."
    )
    fo = Folder(model)
    # ---------------------------------------------------------------- R1
    r1 = rep.rule("C07-R1", "DISPATCH", "identity CMaps: code width, byte order and writing mode; DLIdent aliases", 6)
    gc = model.func(CM + "CMapDB.get_cmap")
    arms = {}
    for n in walk_no_nested(gc.node):
        if isinstance(n, ast.If) and isinstance(n.test, ast.Compare) and unparse(n.test.left) == gc.params[1] and isinstance(n.test.comparators[0], ast.Constant):
            r_ = next((unparse(s.value) for s in n.body if isinstance(s, ast.Return)), "")
            arms[n.test.comparators[0].value] = r_
    want = {"Identity-H": "IdentityCMap(WMode=0)", "Identity-V": "IdentityCMap(WMode=1)", "OneByteIdentityH": "IdentityCMapByte(WMode=0)", "OneByteIdentityV": "IdentityCMapByte(WMode=1)"}
    for k, w in want.items():
        r1.check(arms.get(k) == w, site(gc), gc.qualname, f"{k} -> {w}", why=f"got {arms.get(k)!r}")
    for cls, fmt, k in (("IdentityCMap", ">%dH", 2), ("IdentityCMapByte", ">%dB", 1)):
        f = model.func(CM + cls + ".decode")
        calls = [c for c in walk_no_nested(f.node) if isinstance(c, ast.Call) and (dotted(c.func) or "") == "struct.unpack"]
        okf = bool(calls) and isinstance(calls[0].args[0], ast.BinOp) and isinstance(calls[0].args[0].left, ast.Constant) and calls[0].args[0].left.value == fmt
        cnt = "".join(unparse(next((a.value for a in walk_no_nested(f.node) if isinstance(a, ast.Assign) and unparse(a.targets[0]) == "n"), ast.Constant(0))).split())
        okn = cnt == (f"len({f.params[1]})//2" if k == 2 else f"len({f.params[1]})")
        r1.check(okf and okn, site(f), f.qualname, f"{cls}: {k}-byte big-endian codes ({fmt})", why=f"format/count changed: n = {cnt}")
    iv = model.func(CM + "CMapBase.is_vertical")
    r1.check("return self.attrs.get('WMode', 0) != 0" in unparse(iv.node), site(iv), iv.qualname, "a CMap is vertical iff WMode is non-zero", why="changed")
    pm = model.module("pdfminer.pdffont")
    try:
        ie = fo.fold(pm, pm.assigns["IDENTITY_ENCODER"])
    except (KeyError, Unfoldable):
        ie = None
    r1.check(ie == {"DLIdent-H": "Identity-H", "DLIdent-V": "Identity-V"}, f"pdfminer/pdffont.py:{pm.assigns['IDENTITY_ENCODER'].lineno if 'IDENTITY_ENCODER' in pm.assigns else 0}:IDENTITY_ENCODER", F + "IDENTITY_ENCODER", "DLIdent-H/V are aliases of Identity-H/V", why=f"{ie}")
    # ---------------------------------------------------------------- R2
    r2 = rep.rule("C07-R2", "UNITS", "a struct.unpack whose count is len(buf) // k is applied to exactly n * k bytes", 1)
    f = model.func(CM + "IdentityCMap.decode")
    calls = [c for c in walk_no_nested(f.node) if isinstance(c, ast.Call) and (dotted(c.func) or "") == "struct.unpack"]
    if calls and _struct_sized(calls[0]):
        r2.ok(site(f, calls[0]), f.qualname, unparse(calls[0]), note="buffer cut to n * 2 bytes")
    else:
        r2.violation(site(f), f.qualname, unparse(calls[0]) if calls else "struct.unpack", "the count is len(code) // 2 but the whole string is unpacked: a string of odd length raises struct.error")
    # ---------------------------------------------------------------- R3
    r3 = rep.rule("C07-R3", "PAIR", "CMap parser: every begin keyword clears the stack; every end keyword consumes it in its chunk size", 10)
    dk = model.func(CM + "CMapParser.do_keyword")
    arms2: Dict[str, str] = {}
    for n in dk.node.body:  # type: ignore[attr-defined]
        if isinstance(n, ast.If) and isinstance(n.test, ast.Compare) and unparse(n.test.left) == "token" and isinstance(n.test.ops[0], ast.Is):
            arms2[unparse(n.test.comparators[0]).replace("self.KEYWORD_", "")] = "".join(unparse(ast.Module(body=n.body, type_ignores=[])).split())
    for kw in ("BEGINCODESPACERANGE", "BEGINCIDRANGE", "BEGINCIDCHAR", "BEGINBFRANGE", "BEGINBFCHAR", "BEGINNOTDEFRANGE"):
        r3.check(arms2.get(kw) == "self.popall()return", site(dk), dk.qualname, f"{kw.lower()} clears the operand stack", why=f"{arms2.get(kw)!r}")
    chunk = {"ENDCIDRANGE": ("choplist(3,objs)", "self.cmap.add_cid2unichr(cid+i,x)"), "ENDCIDCHAR": ("choplist(2,objs)", "self.cmap.add_cid2unichr(cid,code)"), "ENDBFRANGE": ("choplist(3,objs)", "self.cmap.add_cid2unichr(start+i,x)"), "ENDBFCHAR": ("choplist(2,objs)", "self.cmap.add_cid2unichr(nunpack(cid),code)")}
    for kw, (cl, add) in chunk.items():
        body = arms2.get(kw, "")
        r3.check("objs=[objfor(__,obj)inself.popall()]" in body.replace("for__,objin", "for(__,obj)in") and cl in body and add in body and body.endswith("return"), site(dk), dk.qualname, f"{kw.lower()} consumes the stack in groups ({cl}) and records {add}", why="changed")
    kws = model.cls(CM + "CMapParser").attrs
    pairs_ok = all((fo.fold(model.module("pdfminer.cmapdb"), kws["KEYWORD_" + a]).name, fo.fold(model.module("pdfminer.cmapdb"), kws["KEYWORD_" + b]).name) == (("begin" + x).encode(), ("end" + x).encode()) for a, b, x in (("BEGINCIDRANGE", "ENDCIDRANGE", "cidrange"), ("BEGINCIDCHAR", "ENDCIDCHAR", "cidchar"), ("BEGINBFRANGE", "ENDBFRANGE", "bfrange"), ("BEGINBFCHAR", "ENDBFCHAR", "bfchar"), ("BEGINCODESPACERANGE", "ENDCODESPACERANGE", "codespacerange")))
    r3.check(pairs_ok, site(dk), CM + "CMapParser", "keyword constants spell begin<x>/end<x>", why="keyword spelling changed")
    # ---------------------------------------------------------------- R4
    r4 = rep.rule("C07-R4", "DEPEND", "range expansions depend on the loop index on both sides and are inclusive", 6)
    _bfrange_checks(r4, dk, arms2)
    cr = arms2.get("ENDCIDRANGE", "")
    r4.check("foriinrange(end-start+1):x=start_prefix+struct.pack('>L',start+i)[-vlen:]self.cmap.add_cid2unichr(cid+i,x)" in cr, site(dk), dk.qualname, "cidrange: code start + i maps to cid + i, inclusive", why="changed")
    gw = model.func(F + "get_widths")
    s = "".join(unparse(gw.node).split())
    r4.check("foriinrange(cast(int,char1),cast(int,char2)+1):widths[i]=w" in s and "fori,winenumerate(v):widths[cast(int,char1)+i]=w" in s.replace("for(i,w)in", "fori,win"), site(gw), gw.qualname, "W: c_first c_last w covers c_first..c_last inclusive; c [w1 ... wn] assigns w_i to c + i", why="changed")
    gw2 = model.func(F + "get_widths2")
    s2 = "".join(unparse(gw2.node).split())
    r4.check("foriinrange(cast(int,char1),cast(int,char2)+1):widths[i]=(w,(vx,vy))" in s2 and "fori,(w,vx,vy)inenumerate(choplist(3,v)):widths[cast(int,char1)+i]=(w,(vx,vy))" in s2.replace("for(i,(w,vx,vy))in", "fori,(w,vx,vy)in"), site(gw2), gw2.qualname, "W2: ranges inclusive; array form takes (w, vx, vy) triples", why="changed")
    r12 = rep.rule("C07-R12", "GUARD", "W / W2 ranges: `c_first c_last w` is applied whenever both ends are integers - no further condition (a range of one CID, c_first == c_last, is a range)", 2)
    for fn in (gw, gw2):
        loops = [n for n in walk_no_nested(fn.node) if isinstance(n, ast.For) and isinstance(n.iter, ast.Call) and (dotted(n.iter.func) or "") == "range" and len(n.iter.args) == 2 and "char2" in unparse(n.iter.args[1])]
        if not loops:
            raise AnchorMissing(f"{fn.qualname}: range loop over char1..char2 not found")
        g = guard_conjuncts(fn, loops[0], innermost=True)
        extra = sorted(x for x in g if x not in ("isinstance(char1,int)", "isinstance(char2,int)", "len(r)==3", "3==len(r)", "len(r)==5", "5==len(r)"))
        r12.check(not extra, site(fn, loops[0]), fn.qualname, "range loop runs under isinstance(char1, int) and isinstance(char2, int) only", why=f"further condition(s) {extra}: a valid range that fails them is skipped and its CIDs fall back to DW")
    r14 = rep.rule("C07-R14", "SIBLING", "W and W2 readers agree: every element of the array is resolved (it may be an indirect reference) before the number / array dispatch", 2)
    for fn in (gw, gw2):
        outer = [n for n in fn.node.body if isinstance(n, ast.For) and isinstance(n.target, ast.Name)]  # type: ignore[attr-defined]
        if not outer:
            raise AnchorMissing(f"{fn.qualname}: loop over the array not found")
        lp = outer[0]
        v = lp.target.id
        it = "".join(unparse(lp.iter).split())
        resolved_iter = it in (f"map(resolve1,{fn.params[0]})", f"(resolve1(x)forxin{fn.params[0]})", f"[resolve1(x)forxin{fn.params[0]}]")
        first = lp.body[0] if lp.body else None
        resolved_first = isinstance(first, ast.Assign) and len(first.targets) == 1 and unparse(first.targets[0]) == v and "".join(unparse(first.value).split()) == f"resolve1({v})"
        r14.check(resolved_iter or resolved_first, site(fn, lp), fn.qualname, f"`{v} = resolve1({v})` is the first thing done with an element", why=f"an element of the array that is an indirect reference is neither a number nor a list for the isinstance dispatch and is skipped: the entries after it are attached to the wrong CIDs (the sibling reader resolves its elements)")
    r13 = rep.rule("C07-R13", "GUARD", "Unicode source of a CID font without ToUnicode: the embedded TrueType cmap is consulted only for the Adobe-Identity / Adobe-UCS orderings (where CID = glyph id); every other collection uses its own CID-to-Unicode map", 2)
    ci = model.func(F + "PDFCIDFont.__init__")
    tt = [c for c in walk_no_nested(ci.node) if isinstance(c, ast.Call) and (dotted(c.func) or "").endswith("create_unicode_map")]
    gu = [c for c in walk_no_nested(ci.node) if isinstance(c, ast.Call) and (dotted(c.func) or "") == "CMapDB.get_unicode_map"]
    if not tt or not gu:
        raise AnchorMissing("PDFCIDFont.__init__: unicode map sources not found")
    g1 = guard_conjuncts(ci, tt[0])
    g2 = guard_conjuncts(ci, gu[0])
    r13.check(g1 == {"'ToUnicode'notinspec", "self.cidcoding=='Adobe-Identity'orself.cidcoding=='Adobe-UCS'", "ttf"}, site(ci, tt[0]), ci.qualname, "ttf.create_unicode_map() runs under: no ToUnicode, cidcoding in (Adobe-Identity, Adobe-UCS), an embedded TrueType program", why=f"conditions {sorted(g1)}: for a real collection (Adobe-Japan1 ...) the TrueType cmap is keyed by glyph id, not by CID, and would be read with the wrong key")
    r13.check(g2 == {"'ToUnicode'notinspec", "self.cidcoding!='Adobe-Identity'", "self.cidcoding!='Adobe-UCS'"}, site(ci, gu[0]), ci.qualname, "CMapDB.get_unicode_map(...) runs under: no ToUnicode and any other ordering", why=f"conditions {sorted(g2)}")
    # ---------------------------------------------------------------- R6
    char_width_rule(model, rep, "C07-R6")
    _decode_fsm(model, rep)
    _tounicode_targets(model, rep)
    _truetype_cmap(model, rep)
    # collection Unicode maps are memoised per name: the stored pair must not depend on the orientation requested first (shared with C12-R7)
    from .c12 import memo_purity_rule

    memo_purity_rule(model, rep, "C07-R9")
    # Type0: the descendant dictionary handed to the CID font is this font's own copy
    from .c12 import doc_mutation_rule

    doc_mutation_rule(model, rep, "C07-R7", only=("pdfminer.pdfinterp.PDFResourceManager.get_font", "pdfminer.pdffont.PDFCIDFont.__init__"), min_instances=1)
    # ---------------------------------------------------------------- R5
    r5 = rep.rule("C07-R5", "BIND", "vertical metrics: DW2 = [vy w]; W2 entries become (w, (vx, vy)); writing mode comes from the CMap", 3)
    ci = model.func(F + "PDFCIDFont.__init__")
    s3 = "".join(unparse(ci.node).split())
    r5.check("self.vertical=self.cmap.is_vertical()" in s3 and "self.cmap:CMapBase=self.get_cmap_from_spec(spec,strict)" in s3, site(ci), ci.qualname, "the font is vertical iff its encoding CMap is", why="changed")
    r5.check("vy,w=resolve1(spec.get('DW2',[880,-1000]))" in s3.replace("(vy,w)", "vy,w") and "self.default_disp=(None,vy)" in s3 and "default_width=w" in s3, site(ci), ci.qualname, "DW2 = [vy w] with default [880 -1000]", why="changed")
    r5.check("self.disps={cid:(vx,vy)for(cid,(_,(vx,vy)))inwidths2.items()}" in s3.replace("forcid,(_,(vx,vy))in", "for(cid,(_,(vx,vy)))in") and "cid:wfor(cid,(w,_))inwidths2.items()" in s3.replace("forcid,(w,_)in", "for(cid,(w,_))in") and "default_width=spec.get('DW',1000)" in s3, site(ci), ci.qualname, "W2 gives per-CID displacement (vx, vy) and width; horizontal fonts use W and DW (default 1000)", why="changed")


def _arms(model: Model):
    dk = model.func(CM + "CMapParser.do_keyword")
    arms2: Dict[str, str] = {}
    for n in dk.node.body:  # type: ignore[attr-defined]
        if isinstance(n, ast.If) and isinstance(n.test, ast.Compare) and unparse(n.test.left) == "token" and isinstance(n.test.ops[0], ast.Is):
            arms2[unparse(n.test.comparators[0]).replace("self.KEYWORD_", "")] = "".join(unparse(ast.Module(body=n.body, type_ignores=[])).split())
    return dk, arms2


def _bfrange_checks(r4, dk, arms2) -> None:
    bf = arms2.get("ENDBFRANGE", "")
    r4.check("foriinrange(end-start+1):x=prefix+struct.pack('>L',base+i)[-vlen:]self.cmap.add_cid2unichr(start+i,x)" in bf, site(dk), dk.qualname, "bfrange (increment form): code start + i maps to base + i for i = 0..end - start", why="changed")
    r4.check("forcid,unicode_valueinzip(range(start,end+1),code):self.cmap.add_cid2unichr(cid,unicode_value)" in bf.replace("for(cid,unicode_value)in", "forcid,unicode_valuein"), site(dk), dk.qualname, "bfrange (array form): codes start..end inclusive paired with the array elements", why="changed")
    r4.check("var=code[-4:]base=nunpack(var)prefix=code[:-4]vlen=len(var)" in bf and "start=nunpack(start_byte)end=nunpack(end_byte)" in bf, site(dk), dk.qualname, "the incremented part is the last (up to 4) bytes of the target; the rest is a fixed prefix", why="changed")


def tounicode_ranges_rule(model: Model, rep: Report, rid: str) -> None:
    """ToUnicode CMaps of simple fonts are parsed by the same CMapParser: the bfchar/bfrange expansions (shared with C07-R4)."""
    r = rep.rule(rid, "DEPEND", "ToUnicode parsing: bfrange expansions are inclusive and depend on the loop index on both sides; bfchar maps the code to its target", 4)
    dk, arms2 = _arms(model)
    _bfrange_checks(r, dk, arms2)
    r.check("self.cmap.add_cid2unichr(nunpack(cid),code)" in arms2.get("ENDBFCHAR", ""), site(dk), dk.qualname, "bfchar: code -> target", why="changed")


def char_width_rule(model: Model, rep: Report, rid: str) -> None:
    r6 = rep.rule(rid, "GUARD", "advances follow the width tables: a width found in Widths/W (also 0) wins over the default", 2)
    cw = model.func(F + "PDFFont.char_width")
    tests = [n for n in walk_no_nested(cw.node) if isinstance(n, ast.If) and "cid_width" in unparse(n.test)]
    okt = bool(tests) and all(unparse(t.test).replace(" ", "") == "cid_widthisnotNone" for t in tests)
    r6.check(okt, site(cw), cw.qualname, "a looked-up width is used whenever it is present (`is not None`), including an explicit 0", why=f"tests {[unparse(t.test) for t in tests]}: a zero width in the table falls through to the default width")
    s6 = "".join(unparse(cw.node).split())
    r6.check("cid_width=safe_float(self.widths.get(cid))" in s6 and "returnself.default_width*self.hscale" in s6, site(cw), cw.qualname, "width of a code/CID = table entry if present, else the default, times the glyph-space scale", why="changed")


def _decode_fsm(model: Model, rep: Report) -> None:
    """C07-R8: segmentation of a string by a variable-length CMap is a walk down the nested code table; every byte either
    descends, emits (and returns to the root) or - when it has no entry - returns to the root."""
    from ..cfg import build_cfg

    r8 = rep.rule("C07-R8", "TYPESTATE", "CMap.decode: every byte moves the table cursor - descend, emit and restart, or restart on an unassigned byte; no path leaves the cursor where it was", 3)
    f = model.func(CM + "CMap.decode")
    loops = [n for n in walk_no_nested(f.node) if isinstance(n, ast.For)]
    if len(loops) != 1:
        raise AnchorMissing("CMap.decode: loop not found")
    lp = loops[0]
    pre = [n for n in f.node.body if isinstance(n, ast.Assign) and isinstance(n.targets[0], ast.Name) and unparse(n.value) == "self.code2cid"]  # type: ignore[attr-defined]
    if not pre:
        raise AnchorMissing("CMap.decode: cursor initialisation not found")
    cur = pre[0].targets[0].id
    fn = ast.FunctionDef(name="_iter", args=f.node.args, body=lp.body, decorator_list=[], lineno=lp.lineno, col_offset=0)  # type: ignore[attr-defined]
    g = build_cfg(fn, exc_edges=False)

    def assigns_cur(n) -> bool:
        return n.kind == "stmt" and isinstance(n.ast, (ast.Assign, ast.AnnAssign)) and unparse(n.ast.targets[0] if isinstance(n.ast, ast.Assign) else n.ast.target) == cur

    wit = g.all_path_pass(g.entry, assigns_cur)
    r8.check(wit is None, site(f, lp), f.qualname, f"every path through the loop body assigns the cursor `{cur}`", why="a path leaves the cursor unchanged: after a lead byte followed by a byte without an entry, the next bytes are read as trail bytes of the stale lead byte")
    ys = [n for n in g.nodes if n.kind == "stmt" and n.ast is not None and any(isinstance(x, ast.Yield) for x in ast.walk(n.ast))]
    ok = bool(ys)
    for y in ys:
        w = g.all_path_pass(y.id, lambda n: assigns_cur(n) and unparse(n.ast.value) == "self.code2cid")
        ok = ok and w is None
    r8.check(ok, site(f, ys[0].ast) if ys else site(f), f.qualname, "after emitting a CID the cursor returns to the root table", why="a yield is not followed by the reset on every path")
    # the only non-root value the cursor takes is the entry just looked up
    vals = {"".join(unparse(n.ast.value).split()) for n in g.nodes if assigns_cur(n)}
    r8.check(vals <= {"self.code2cid", "cast(Dict[int,object],x)", "x"} and "self.code2cid" in vals and len(vals) >= 2, site(f, lp), f.qualname, "the cursor is either the root or the sub-table found for the byte", why=f"cursor values {sorted(vals)}")


def _tounicode_targets(model: Model, rep: Report) -> None:
    r10 = rep.rule("C07-R10", "DISPATCH", "ToUnicode targets: a name is an Adobe glyph name, a string is UTF-16BE text, an integer is a code point; the CMap of a CID font comes from /Encoding (name, or CMapName of a stream), DLIdent aliases Identity", 4)
    f = model.func(CM + "FileUnicodeMap.add_cid2unichr")
    arms = {}
    for n in walk_no_nested(f.node):
        if isinstance(n, ast.If) and isinstance(n.test, ast.Call) and (dotted(n.test.func) or "") == "isinstance" and unparse(n.test.args[0]) == "code":
            arms[unparse(n.test.args[1])] = "".join(unparse(ast.Module(body=n.body, type_ignores=[])).split())
    r10.check("unichr=name2unicode(code.name)" in arms.get("PSLiteral", "") and arms.get("bytes") == "unichr=code.decode('UTF-16BE','ignore')" and arms.get("int") == "unichr=chr(code)", site(f), f.qualname, "PSLiteral -> name2unicode(name); bytes -> UTF-16BE; int -> chr", why=f"{arms}")
    s_ = "".join(unparse(f.node).split())
    r10.check(s_.endswith("self.cid2unichr[cid]=unichr") and "ifunichr=='\\xa0'andself.cid2unichr.get(cid)=='':return" in s_, site(f), f.qualname, "the text is stored under the CID (a no-break space does not replace a space already mapped)", why="store changed")
    g = model.func(F + "PDFCIDFont._get_cmap_name")
    sg = "".join(unparse(g.node).split())
    r10.check("spec_encoding=spec['Encoding']" in sg and "ifhasattr(spec_encoding,'name'):cmap_name=literal_name(spec['Encoding'])else:cmap_name=literal_name(spec_encoding['CMapName'])" in sg and "returnIDENTITY_ENCODER.get(cmap_name,cmap_name)" in sg, site(g), g.qualname, "CMap name = /Encoding if it is a name, else its /CMapName; DLIdent-H/V alias Identity-H/V", why="changed")
    h = model.func(F + "PDFCIDFont.get_cmap_from_spec")
    sh = "".join(unparse(h.node).split())
    r10.check("cmap_name=self._get_cmap_name(spec,strict)" in sh and "returnCMapDB.get_cmap(cmap_name)" in sh and "exceptCMapDB.CMapNotFoundase:" in sh and sh.endswith("returnCMap()"), site(h), h.qualname, "the named CMap is loaded; an unknown name falls back to an empty CMap (strict: PDFFontError)", why="changed")


def _truetype_cmap(model: Model, rep: Report) -> None:
    r11 = rep.rule("C07-R11", "NORMFORM", "embedded TrueType cmap (format 4): glyph ids are computed modulo 65536 (idDelta is signed), both with and without idRangeOffset; the Unicode map is the inverse of char -> glyph", 3)
    f = model.func(F + "TrueTypeFont.create_unicode_map")
    asg = [n for n in walk_no_nested(f.node) if isinstance(n, ast.Assign) and isinstance(n.targets[0], ast.Subscript) and unparse(n.targets[0].value) == "char2gid" and "idd" in unparse(n.value)]
    masked = [n for n in asg if isinstance(n.value, ast.BinOp) and isinstance(n.value.op, ast.BitAnd) and isinstance(n.value.right, ast.Constant) and n.value.right.value == 0xFFFF]
    r11.check(len(asg) == 2 and len(masked) == 2, site(f, asg[0]) if asg else site(f), f.qualname, "char2gid[c] = (<offset or code> + idDelta) & 0xFFFF in both branches", why=f"{[unparse(n)[:60] for n in asg]}: without the 16-bit wrap a negative sum (idDelta is read as a signed short) gives a negative glyph id and the character is lost")
    s_ = "".join(unparse(f.node).split())
    r11.check("struct.unpack('>%dh'%segcount,fp.read(2*segcount))" in s_, site(f), f.qualname, "idDelta is unpacked as signed 16-bit values", why="idDelta format changed")
    r11.check("forchar,gidinchar2gid.items():unicode_map.add_cid2unichr(gid,char)" in s_.replace("for(char,gid)in", "forchar,gidin"), site(f), f.qualname, "the Unicode map sends each glyph id back to its character code", why="inverse map changed")


def _vx_absent(model: Model, rep: Report) -> None:
    """C07-R15: the default position vector (half the glyph width, here fontsize/2) stands in only for a CID that W2 does not
    list - `None` from char_disp.  A listed x component of 0 is a value: a truth test replaces it by fontsize/2 and the glyph
    moves half an em."""
    r = rep.rule("C07-R15", "GUARD", "LTChar places a vertical glyph with the default x displacement only when the font gave none (`vx is None`), never on a truth test (vx = 0 is a displacement)", 1)
    f = model.func("pdfminer.layout.LTChar.__init__")
    tests = [n.test for n in walk_no_nested(f.node) if isinstance(n, (ast.If, ast.IfExp)) and any(isinstance(x, ast.Name) and x.id == "vx" for x in ast.walk(n.test))]
    if not tests:
        raise AnchorMissing("LTChar.__init__: no test of vx")
    for t in tests:
        s = "".join(unparse(t).split())
        r.check(s in ("vxisNone", "vxisnotNone"), site(f, t), f.qualname, f"test `{unparse(t)}`", why="the test is true for vx == 0 as well: a CID whose W2 entry has the position vector x = 0 is placed as if it had none")


_run_r1_r14 = run


def run(model: Model, rep: Report) -> None:  # noqa: F811
    _run_r1_r14(model, rep)
    _vx_absent(model, rep)

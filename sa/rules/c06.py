"""C06 - simple fonts: code -> Unicode/width follow encoding, glyph names, ToUnicode."""

from __future__ import annotations

import ast
from typing import Dict, List, Optional, Set, Tuple

from ..cfg import build_cfg
from ..fold import Folder, Unfoldable
from ..model import AnchorMissing, Model, dotted, unparse, walk_no_nested
from ..report import Report
from ..util import site
from .tokenizer import _guard_tests

F = "pdfminer.pdffont."
# Annex D.1/D.2 footnotes: codes where the PDF encodings deliberately differ from the platform code pages
# codes the platform code page defines but the PDF encoding leaves undefined (ISO 32000-1 Annex D.2: MacRomanEncoding has none of the
# Mac OS Roman mathematical symbols: not-equal, infinity, <=, >=, partial, sum, product, pi, integral, Omega, sqrt, approx, Delta, lozenge)
DOCUMENTED_ABSENT = {"mac_roman": ["0xad", "0xb0", "0xb2", "0xb3", "0xb6", "0xb7", "0xb8", "0xb9", "0xba", "0xbd", "0xc3", "0xc5", "0xc6", "0xd7"], "cp1252": []}
DOCUMENTED_DIFFS = {"mac_roman": {0xCA: " ", 0xDB: "¤"}, "cp1252": {0xA0: " ", 0xAD: "-"}}


def run(model: Model, rep: Report) -> None:
    rep.explanation = (
        "C06: decides the structural part: ToUnicode takes precedence over the encoding and a missing mapping becomes the (cid:N) placeholder; the "
        "WinAnsi and MacRoman columns of the encoding table, folded through the glyph list, agree with Python's own cp1252 / mac_roman codecs on "
        "every defined code except the four documented deviations, every column is injective per code and every glyph name resolves; the "
        "Differences overlay follows 9.6.6.1 on a copy of the shared table; glyph-name hex parts are validated on their whole length; font "
        "subtypes reach the right classes; width lookups bind FirstChar/Widths/MissingWidth/FontMatrix as specified. The AGL algorithm as a "
        "string function, the standard-14 metric values and Type 1 header parsing are not decided."
    )
    fo = Folder(model)
    # ---------------------------------------------------------------- R1
    r1 = rep.rule("C06-R1", "ORDER", "text of a code: ToUnicode first, then the encoding, then the placeholder", 3)
    tu = model.func(F + "PDFSimpleFont.to_unichr")
    body = [s for s in tu.node.body if not isinstance(s, ast.Expr)]  # type: ignore[attr-defined]
    s = "".join(unparse(ast.Module(body=body, type_ignores=[])).split())
    c = tu.params[1]
    ok = s == f"ifself.unicode_map:try:returnself.unicode_map.get_unichr({c})exceptKeyError:passtry:returnself.cid2unicode[{c}]exceptKeyError:raisePDFUnicodeNotDefined(None,{c})"
    r1.check(ok, site(tu), tu.qualname, "ToUnicode entry if there is one, else the encoding's character, else PDFUnicodeNotDefined", why="precedence changed")
    rc = model.func("pdfminer.converter.PDFLayoutAnalyzer.render_char")
    s2 = "".join(unparse(rc.node).split())
    r1.check("try:text=font.to_unichr(cid)" in s2 and "exceptPDFUnicodeNotDefined:text=self.handle_undefined_char(font,cid)" in s2, site(rc), rc.qualname, "an undefined code is rendered through handle_undefined_char", why="changed")
    hu = model.func("pdfminer.converter.PDFLayoutAnalyzer.handle_undefined_char")
    r1.check("return '(cid:%d)' % cid" in unparse(hu.node), site(hu), hu.qualname, "the placeholder is (cid:N)", why="changed")
    si = model.func(F + "PDFSimpleFont.__init__")
    s3 = "".join(unparse(si.node).split())
    r1.check("if'ToUnicode'inspec:strm=stream_value(spec['ToUnicode'])self.unicode_map=FileUnicodeMap()CMapParser(self.unicode_map,BytesIO(strm.get_data())).run()" in s3, site(si), si.qualname, "a ToUnicode stream is parsed into a fresh map", why="changed")

    r13 = rep.rule("C06-R13", "GUARD", "Type 1 built-in encoding: the font program's own encoding is read whenever the font has no /Encoding and a FontFile is present - independently of ToUnicode (codes ToUnicode does not cover still go through it)", 1)
    t1 = model.func(F + "PDFType1Font.__init__")
    uses = [n for n in walk_no_nested(t1.node) if isinstance(n, ast.Call) and (dotted(n.func) or "") == "Type1FontHeaderParser"]
    if not uses:
        raise AnchorMissing("PDFType1Font.__init__: Type1FontHeaderParser(...) not found")
    from ..util import guard_conjuncts

    g13 = guard_conjuncts(t1, uses[0])
    want13 = {"'Encoding'notinspec", "'FontFile'indescriptor"}
    r13.check(g13 == want13, site(t1, uses[0]), t1.qualname, "header parser runs under: 'Encoding' not in spec and 'FontFile' in descriptor", why=f"conditions are {sorted(g13)}: with a further condition the built-in encoding is skipped for some fonts and their uncovered codes fall back to StandardEncoding")
    r14 = rep.rule("C06-R14", "ALIAS", "width lookup is read-only: PDFFont.char_width stores nothing into self.widths (for the standard 14 fonts that dictionary is the process-wide metrics table, shared by every font of the same name)", 1)
    cw = model.func(F + "PDFFont.char_width")
    wr = [n for n in walk_no_nested(cw.node) if (isinstance(n, ast.Subscript) and isinstance(n.ctx, (ast.Store, ast.Del)) and unparse(n.value) == "self.widths") or (isinstance(n, ast.Call) and isinstance(n.func, ast.Attribute) and unparse(n.func.value) == "self.widths" and n.func.attr in ("update", "setdefault", "pop", "clear", "popitem", "__setitem__"))]
    r14.check(not wr, site(cw, wr[0]) if wr else site(cw), cw.qualname, "char_width reads self.widths only", why=f"`{unparse(wr[0]) if wr else ''}`: a width found under the character of one font's encoding is memoised under the code in a table that other fonts (other encodings, other documents) read")
    # ---------------------------------------------------------------- R7 (shared with C07-R4)
    from .c07 import tounicode_ranges_rule

    tounicode_ranges_rule(model, rep, "C06-R7")
    encoding_table_rule(model, rep, "C06-R8")
    _type1_header(model, rep)
    from .c12 import font_cache_key_rule

    font_cache_key_rule(model, rep, "C06-R11")
    _surrogates(model, rep)
    init_order_rule(model, rep, "C06-R9", ["pdfminer.pdffont.PDFType1Font", "pdfminer.pdffont.PDFTrueTypeFont", "pdfminer.pdffont.PDFType3Font", "pdfminer.pdffont.PDFCIDFont", "pdfminer.pdffont.PDFSimpleFont"])
    # ---------------------------------------------------------------- R2
    r2 = rep.rule("C06-R2", "TABLE", "WinAnsi/MacRoman columns agree with Python's cp1252/mac_roman except the documented codes; columns are functions of the code; names resolve", 6)
    em = model.module("pdfminer.latin_enc")
    gm = model.module("pdfminer.glyphlist")
    try:
        enc = fo.fold(em, em.assigns["ENCODING"])
        gl = fo.fold(gm, gm.assigns["glyphname2unicode"])
    except (KeyError, Unfoldable) as ex:
        raise AnchorMissing(f"encoding tables not foldable: {ex}")
    rep.analysed["encoding_rows"] = len(enc)
    rep.analysed["glyph_list_entries"] = len(gl)
    unresolved = [row[0] for row in enc if row[0] not in gl]
    r2.check(not unresolved, f"pdfminer/latin_enc.py:{em.assigns['ENCODING'].lineno}:ENCODING", "pdfminer.latin_enc.ENCODING", f"every glyph name of the {len(enc)} rows is in the glyph list", why=f"{unresolved[:5]}")
    cols = {"std": 1, "mac": 2, "win": 3, "pdf": 4}
    tables: Dict[str, Dict[int, str]] = {}
    for cname, ci in cols.items():
        t: Dict[int, List[str]] = {}
        for row in enc:
            if row[ci]:
                t.setdefault(row[ci], []).append(row[0])
        # the class body keeps the last row per code (dict assignment order)
        tables[cname] = {code: gl.get(names[-1], "?") for code, names in t.items()}
        dups = {code: names for code, names in t.items() if len(names) > 1}
        ok_dups = all(set(n) <= {"space", "nbspace", "hyphen", "sfthyphen", "nonbreakingspace"} or len({gl.get(x) for x in n}) == 1 for n in dups.values())
        r2.check(ok_dups, f"pdfminer/latin_enc.py:{em.assigns['ENCODING'].lineno}:ENCODING", "pdfminer.latin_enc.ENCODING", f"column {cname}: a code is claimed by one glyph (documented space/hyphen aliases apart)", why=f"{ {hex(k): v for k, v in dups.items()} }")
    for cname, codec in (("mac", "mac_roman"), ("win", "cp1252")):
        diffs = {}
        agree = 0
        # every printable character the platform code page defines must be present in the column
        absent = []
        for code in range(0x20, 0x100):
            try:
                py = bytes((code,)).decode(codec)
            except UnicodeDecodeError:
                continue
            if py.isprintable() and not py.isspace() and code not in tables[cname] and code != 0x7F:
                absent.append(hex(code))
        r2.check(absent == DOCUMENTED_ABSENT[codec], f"pdfminer/latin_enc.py:{em.assigns['ENCODING'].lineno}:ENCODING", "pdfminer.latin_enc.ENCODING", f"column {cname} defines every printable code of {codec} (except the {len(DOCUMENTED_ABSENT[codec])} documented omissions)", why=f"missing codes {absent}")
        for code, ch in tables[cname].items():
            try:
                py = bytes((code,)).decode(codec)
            except UnicodeDecodeError:
                continue
            if py == ch:
                agree += 1
            else:
                diffs[code] = ch
        r2.check(diffs == DOCUMENTED_DIFFS[codec], f"pdfminer/latin_enc.py:{em.assigns['ENCODING'].lineno}:ENCODING", "pdfminer.latin_enc.ENCODING", f"column {cname} == Python codec {codec} on {agree} codes; only the documented deviations differ ({ {hex(k) for k in DOCUMENTED_DIFFS[codec]} })", why=f"unexpected differences: { {hex(k): v for k, v in diffs.items() if DOCUMENTED_DIFFS[codec].get(k) != v} } missing: { {hex(k) for k in DOCUMENTED_DIFFS[codec] if k not in diffs} }")
    # ASCII block of StandardEncoding / PDFDocEncoding columns (no independent codec): printable ASCII letters and digits are themselves
    for cname in ("std", "pdf"):
        bad = [hex(c) for c, ch in tables[cname].items() if (0x30 <= c <= 0x39 or 0x41 <= c <= 0x5A or 0x61 <= c <= 0x7A) and ch != chr(c)]
        r2.check(not bad, f"pdfminer/latin_enc.py:{em.assigns['ENCODING'].lineno}:ENCODING", "pdfminer.latin_enc.ENCODING", f"column {cname}: letters and digits sit at their ASCII codes", why=f"{bad}")
    db = model.cls("pdfminer.encodingdb.EncodingDB")
    encs = db.attrs.get("encodings")
    encmap = {k.value: unparse(v) for k, v in zip(encs.keys, encs.values)} if isinstance(encs, ast.Dict) else {}  # type: ignore[union-attr]
    r2.check(encmap == {"StandardEncoding": "std2unicode", "MacRomanEncoding": "mac2unicode", "WinAnsiEncoding": "win2unicode", "PDFDocEncoding": "pdf2unicode"}, f"pdfminer/encodingdb.py:{db.node.lineno}:EncodingDB", "pdfminer.encodingdb.EncodingDB.encodings", "encoding names map to their columns", why=f"{encmap}")
    loop = next((n for n in db.node.body if isinstance(n, ast.For)), None)
    sl = "".join(unparse(loop).split()) if loop is not None else ""
    r2.check("forname,std,mac,win,pdfinENCODING:c=name2unicode(name)ifstd:std2unicode[std]=cifmac:mac2unicode[mac]=cifwin:win2unicode[win]=cifpdf:pdf2unicode[pdf]=c" in sl.replace("(name,std,mac,win,pdf)", "name,std,mac,win,pdf"), f"pdfminer/encodingdb.py:{db.node.lineno}:EncodingDB", "pdfminer.encodingdb.EncodingDB", "each row feeds column k of the table into encoding k", why="table construction changed")

    # ---------------------------------------------------------------- R3
    r3 = rep.rule("C06-R3", "ORDER", "Differences overlay: integers set the code, names assign and increment, on a copy of the shared table", 3)
    ge = model.func("pdfminer.encodingdb.EncodingDB.get_encoding")
    s4 = "".join(unparse(ge.node).split())
    r3.check("cid2unicode=cls.encodings.get(name,cls.std2unicode)" in s4, site(ge), ge.qualname, "the base table is looked up by name, StandardEncoding by default", why="changed")
    r3.check("ifisinstance(x,int):cid=xelifisinstance(x,PSLiteral):try:cid2unicode[cid]=name2unicode(cast(str,x.name))except(KeyError,ValueError)ase:log.debug(str(e))cid+=1" in s4, site(ge), ge.qualname, "an integer sets the current code; each name is assigned to it and the code is incremented (also when the name is unknown)", why="overlay changed")
    r3.check("ifdiff:cid2unicode=cid2unicode.copy()cid=0" in s4, site(ge), ge.qualname, "the overlay works on a copy (shared tables stay untouched; see C12-R2)", why="copy missing")

    # ---------------------------------------------------------------- R4
    r4 = rep.rule("C06-R4", "GUARD", "glyph names: the region validated by the regex is the region converted (anchored match)", 2)
    nu = model.func("pdfminer.encodingdb.name2unicode")
    for n in walk_no_nested(nu.node):
        if isinstance(n, ast.Call) and (dotted(n.func) or "") == "int" and any(k.arg == "base" for k in n.keywords) or (isinstance(n, ast.Call) and (dotted(n.func) or "") == "int" and len(n.args) == 2):
            arg = n.args[0]
            root = arg
            while isinstance(root, ast.Subscript):
                root = root.value
            anchored = False
            prefix_only = False
            for (t, pol) in _guard_tests(nu, n):
                for c in [t] + list(ast.walk(t)):
                    if isinstance(c, ast.Call) and isinstance(c.func, ast.Attribute) and c.args and unparse(c.args[0]) == unparse(root):
                        if c.func.attr == "fullmatch":
                            anchored = True
                        elif c.func.attr == "match":
                            prefix_only = True
            if anchored:
                r4.ok(site(nu, n), nu.qualname, unparse(n), note="guarded by fullmatch")
            else:
                r4.violation(site(nu, n), nu.qualname, unparse(n), "the hexadecimal part is validated with a prefix match but converted as a whole: 'uni0041zzzz' raises ValueError instead of 'no mapping'" if prefix_only else "conversion without validation")
    s5 = "".join(unparse(nu.node).split())
    r4.check("name=name.split('.')[0]components=name.split('_')iflen(components)>1:return''.join(map(name2unicode,components))elifnameinglyphname2unicode:returnglyphname2unicode[name]" in s5, site(nu), nu.qualname, "AGL order: drop the suffix after '.', split at '_', then glyph list, then uniXXXX, then uXXXX", why="algorithm order changed")

    # the part that is validated is the name without exactly its prefix
    r15 = rep.rule("C06-R15", "GUARD", "glyph names uniXXXX / uXXXX: the hexadecimal part is the name with exactly the prefix removed (a slice or removeprefix) - str.strip takes its argument as a set of characters and works at both ends", 2)
    for n in walk_no_nested(nu.node):
        if not (isinstance(n, ast.Assign) and len(n.targets) == 1 and isinstance(n.targets[0], ast.Name)):
            continue
        pre = None
        for (t, pol) in _guard_tests(nu, n):
            if pol and isinstance(t, ast.Call) and isinstance(t.func, ast.Attribute) and t.func.attr == "startswith" and t.args and isinstance(t.args[0], ast.Constant) and isinstance(t.args[0].value, str):
                pre = (unparse(t.func.value), t.args[0].value)
        if pre is None:
            continue
        v = n.value
        base, prefix = pre
        if not ((isinstance(v, ast.Subscript) and unparse(v.value) == base) or (isinstance(v, ast.Call) and isinstance(v.func, ast.Attribute) and unparse(v.func.value) == base)):
            continue  # not the prefix removal
        exact = False
        if isinstance(v, ast.Subscript) and unparse(v.value) == base and isinstance(v.slice, ast.Slice) and v.slice.upper is None and v.slice.step is None and v.slice.lower is not None:
            lo = v.slice.lower
            exact = (isinstance(lo, ast.Constant) and lo.value == len(prefix)) or "".join(unparse(lo).split()) == f"len({prefix!r})"
        elif isinstance(v, ast.Call) and isinstance(v.func, ast.Attribute) and v.func.attr == "removeprefix" and unparse(v.func.value) == base and v.args and isinstance(v.args[0], ast.Constant) and v.args[0].value == prefix:
            exact = True
        r15.check(exact, site(nu, n), nu.qualname, f"{unparse(n)} : under {base}.startswith({prefix!r})", why=f"`{unparse(v)}` does not remove exactly the prefix {prefix!r}: names outside the grammar ({prefix}{prefix}0041, {prefix}0041{prefix[-1]}) are accepted and mapped instead of getting the placeholder")

    # ---------------------------------------------------------------- R5
    r5 = rep.rule("C06-R5", "DISPATCH", "font subtypes reach their classes; Type0 delegates to its descendant with Encoding/ToUnicode copied down", 6)
    gf = model.func("pdfminer.pdfinterp.PDFResourceManager.get_font")
    arms: Dict[str, str] = {}
    for n in walk_no_nested(gf.node):
        if isinstance(n, ast.If) and isinstance(n.test, ast.Compare) and unparse(n.test.left) == "subtype":
            keys = [n.test.comparators[0].value] if isinstance(n.test.comparators[0], ast.Constant) else [e.value for e in getattr(n.test.comparators[0], "elts", [])]
            val = next((unparse(s_.value) for s_ in n.body if isinstance(s_, ast.Assign) and unparse(s_.targets[0]) == "font"), "")
            for k in keys:
                arms.setdefault(k, val)
    want = {"Type1": "PDFType1Font(self, spec)", "MMType1": "PDFType1Font(self, spec)", "TrueType": "PDFTrueTypeFont(self, spec)", "Type3": "PDFType3Font(self, spec)", "CIDFontType0": "PDFCIDFont(self, spec)", "CIDFontType2": "PDFCIDFont(self, spec)", "Type0": "self.get_font(None, subspec)"}
    for k, w in want.items():
        r5.check(arms.get(k) == w, site(gf), gf.qualname, f"/Subtype /{k} -> {w}", why=f"got {arms.get(k)!r}")
    s6 = "".join(unparse(gf.node).split())
    r5.check("forkin('Encoding','ToUnicode'):ifkinspec:subspec[k]=resolve1(spec[k])" in s6 and "subspec=dict_value(dfonts[0]).copy()" in s6, site(gf), gf.qualname, "Type0: the first descendant's dictionary (copied) inherits Encoding and ToUnicode", why="changed")

    # ---------------------------------------------------------------- R6
    r6 = rep.rule("C06-R6", "BIND", "widths: Widths[i] belongs to code FirstChar + i; MissingWidth default; standard-14 metrics; Type3 scale from FontMatrix", 6)
    pf0 = model.func("pdfminer.pdffont.PDFFont.__init__")
    wa = [n for n in walk_no_nested(pf0.node) if isinstance(n, (ast.Assign, ast.AnnAssign)) and unparse(n.targets[0] if isinstance(n, ast.Assign) else n.target) == "self.widths"]
    if not wa:
        raise AnchorMissing("PDFFont.__init__: assignment of self.widths not found")
    for n in wa:
        v = n.value
        r6.check(isinstance(v, ast.Call) and (dotted(v.func) or "") == "resolve_all", site(pf0, n), pf0.qualname, f"{unparse(n)[:80]} : the width table is stored with every element resolved", why="a subclass (Type3) hands over the /Widths array as written: an element given as an indirect reference stays a PDFObjRef, is no number for char_width, and the glyph gets MissingWidth")
    t1 = model.func(F + "PDFType1Font.__init__")
    s7 = "".join(unparse(t1.node).split())
    r6.check("firstchar=int_value(spec.get('FirstChar',0))" in s7 and "widths={i+firstchar:resolve1(w)for(i,w)inenumerate(width_list)}" in s7.replace("fori,win", "for(i,w)in"), site(t1), t1.qualname, "width of code FirstChar + i is Widths[i]", why="changed")
    r6.check("descriptor,int_widths=FontMetricsDB.get_metrics(self.basefont)" in s7.replace("(descriptor,int_widths)", "descriptor,int_widths") and "exceptKeyError:descriptor=dict_value(spec.get('FontDescriptor',{}))" in s7, site(t1), t1.qualname, "a standard-14 BaseFont uses the built-in metrics; otherwise the font's own descriptor and widths", why="changed")
    t3 = model.func(F + "PDFType3Font.__init__")
    s8 = "".join(unparse(t3.node).split())
    r6.check("i+firstchar:wfor(i,w)inenumerate(width_list)" in s8.replace("fori,win", "for(i,w)in") and "self.hscale,self.vscale=apply_matrix_norm(self.matrix,(1,1))" in s8.replace("(self.hscale,self.vscale)", "self.hscale,self.vscale") and "self.matrix=cast(Matrix,tuple(list_value(spec.get('FontMatrix'))))" in s8, site(t3), t3.qualname, "Type3: widths by FirstChar + i, scaled by the FontMatrix", why="changed")
    cw = model.func(F + "PDFFont.char_width")
    s9 = "".join(unparse(cw.node).split())
    r6.check("cid_width=safe_float(self.widths.get(cid))ifcid_widthisnotNone:returncid_width*self.hscale" in s9 and "returnself.default_width*self.hscale" in s9 and "str_cid=self.to_unichr(cid)" in s9, site(cw), cw.qualname, "char_width: the code's width, else the width keyed by its character (standard-14), else the default width, all times hscale", why="changed")
    pf = model.func(F + "PDFFont.__init__")
    s10 = "".join(unparse(pf.node).split())
    r6.check("self.default_width=num_value(descriptor.get('MissingWidth',0))" in s10 and "self.hscale=self.vscale=0.001" in s10, site(pf), pf.qualname, "the default width is /MissingWidth (0 if absent); glyph space is 1/1000 of text space", why="changed")
    fm = model.func(F + "FontMetricsDB.get_metrics")
    r6.check("return FONT_METRICS[fontname]" in unparse(fm.node), site(fm), fm.qualname, "standard-14 metrics are looked up by font name", why="changed")


def encoding_table_rule(model: Model, rep: Report, rid: str) -> None:
    """A font's code -> text table may be the shared table of its base encoding (EncodingDB.get_encoding copies only when
    there are Differences): fonts rebind the attribute, they never write into the table."""
    r = rep.rule(rid, "ALIAS", "fonts never write into their encoding table in place (it may be the table shared by every font of that base encoding)", 3)
    MUT = {"update", "setdefault", "pop", "popitem", "clear", "__setitem__", "__delitem__"}
    binds = 0
    for q, f in sorted(model.funcs.items()):
        if not q.startswith("pdfminer.pdffont.") or isinstance(f.node, ast.Lambda):
            continue
        for n in walk_no_nested(f.node):
            bad = None
            if isinstance(n, (ast.Assign, ast.AugAssign)):
                for t in n.targets if isinstance(n, ast.Assign) else [n.target]:
                    if isinstance(t, ast.Subscript) and isinstance(t.value, ast.Attribute) and t.value.attr == "cid2unicode":
                        bad = n
                    elif isinstance(t, ast.Attribute) and t.attr == "cid2unicode":
                        binds += 1
                        r.ok(site(f, n), q, f"rebinding: {unparse(n)[:70]}")
            elif isinstance(n, ast.Delete):
                if any(isinstance(t, ast.Subscript) and isinstance(t.value, ast.Attribute) and t.value.attr == "cid2unicode" for t in n.targets):
                    bad = n
            elif isinstance(n, ast.Call) and isinstance(n.func, ast.Attribute) and n.func.attr in MUT and isinstance(n.func.value, ast.Attribute) and n.func.value.attr == "cid2unicode":
                bad = n
            if bad is not None:
                r.violation(site(f, bad), q, unparse(bad)[:80], "writes into the font's encoding table in place: for a font without Differences this is the process-wide table of the base encoding, so the entries leak into every later font (and document) using that encoding")
    if binds == 0:
        raise AnchorMissing("no assignment to .cid2unicode found in pdffont")


def init_order_rule(model: Model, rep: Report, rid: str, classes) -> None:
    """A field that the base-class initialiser (transitively) assigns must be assigned by the subclass after the base call -
    otherwise the base call overwrites it (Type3: hscale/vscale from the FontMatrix vs the 0.001 default of PDFFont)."""
    from ..util import self_fields_written

    r = rep.rule(rid, "ORDER", "subclass initialisers assign the fields their base initialiser also assigns only after calling it", 2)

    def base_writes(fq: str, seen: Set[str]) -> Set[str]:
        if fq in seen or fq not in model.funcs:
            return set()
        seen.add(fq)
        f = model.funcs[fq]
        w = set(self_fields_written(f))
        for c in walk_no_nested(f.node):
            if isinstance(c, ast.Call) and isinstance(c.func, ast.Attribute) and c.func.attr == "__init__":
                tgt = model.resolve_expr(f.module, c.func, f.cls)
                if tgt in model.funcs:
                    w |= base_writes(tgt, seen)
        return w

    for cq in classes:
        f = model.func(cq + ".__init__")
        calls = [c for c in walk_no_nested(f.node) if isinstance(c, ast.Call) and isinstance(c.func, ast.Attribute) and c.func.attr == "__init__" and model.resolve_expr(f.module, c.func, f.cls) in model.funcs]
        if not calls:
            continue
        order = {id(n): i for i, n in enumerate(walk_no_nested(f.node))}
        first_call = min(calls, key=lambda c: order[id(c)])
        bw: Set[str] = set()
        for c in calls:
            bw |= base_writes(model.resolve_expr(f.module, c.func, f.cls), set())
        early = []
        for fld, stmts in self_fields_written(f).items():
            for st in stmts:
                if fld in bw and order.get(id(st), 10**9) < order[id(first_call)]:
                    early.append((fld, st))
        r.check(not early, site(f, early[0][1]) if early else site(f), f.qualname, f"{cq.split('.')[-1]}: fields also set by the base initialiser are set after `{unparse(first_call.func)}`", why=f"`self.{early[0][0]}` is assigned before the base initialiser, which assigns it again: the subclass value is lost" if early else "")


def _type1_header(model: Model, rep: Report) -> None:
    r10 = rep.rule("C06-R10", "BIND", "Type 1 built-in encoding: every `dup <code> /<name> put` of the font program maps the code to the glyph name's text; unknown names are skipped", 3)
    P = "pdfminer.pdffont.Type1FontHeaderParser"
    dk, ge = model.func(P + ".do_keyword"), model.func(P + ".get_encoding")
    s1 = "".join(unparse(dk.node).split()).replace("(_,key),(_,value)=", "((_,key),(_,value))=")
    r10.check("iftokenisself.KEYWORD_PUT:((_,key),(_,value))=self.pop(2)ifisinstance(key,int)andisinstance(value,PSLiteral):self.add_results((key,literal_name(value)))" in s1, site(dk), dk.qualname, "`put` takes (code, /name) off the stack and reports the pair when the code is an integer and the value a name", why="changed")
    kw = model.cls(P).attrs.get("KEYWORD_PUT")
    r10.check(kw is not None and "".join(unparse(kw).split()) == "KWD(b'put')", site(dk), P, "the keyword is `put`", why="keyword changed")
    s2 = "".join(unparse(ge.node).split()).replace("cid,name=self.nextobject()", "(cid,name)=self.nextobject()")
    r10.check("(cid,name)=self.nextobject()" in s2 and "exceptPSEOF:break" in s2 and "self._cid2unicode[cid]=name2unicode(cast(str,name))" in s2 and "exceptKeyErrorase:" in s2 and s2.endswith("returnself._cid2unicode"), site(ge), ge.qualname, "each reported pair is stored as code -> name2unicode(name); names without a Unicode value are left out; the table built is returned", why="changed")


def _surrogates(model: Model, rep: Report) -> None:
    r12 = rep.rule("C06-R12", "RANGE", "glyph names uniXXXX / uXXXX: exactly the surrogate code points D800..DFFF are refused", 1)
    f = model.func("pdfminer.encodingdb.raise_key_error_for_invalid_unicode")
    p = f.params[0]
    found = None
    lo = hi = None
    for n in walk_no_nested(f.node):
        if found is not None:
            break
        if isinstance(n, ast.If) and any(isinstance(x, ast.Raise) for x in n.body):
            lo = hi = None
            t = n.test
            # d in the open interval (a, b)  |  a < d and d < b  |  a <= d <= b ...
            cmps = []
            if isinstance(t, ast.Compare):
                ops, items = t.ops, [t.left] + list(t.comparators)
                cmps = [(items[i], ops[i], items[i + 1]) for i in range(len(ops))]
            elif isinstance(t, ast.BoolOp) and isinstance(t.op, ast.And):
                for v in t.values:
                    if isinstance(v, ast.Compare) and len(v.ops) == 1:
                        cmps.append((v.left, v.ops[0], v.comparators[0]))
            for a, op, b in cmps:
                def cv(x):
                    if isinstance(x, ast.Name) and x.id in f.module.assigns:
                        x = f.module.assigns[x.id]  # a named module constant
                    return x.value if isinstance(x, ast.Constant) and isinstance(x.value, int) else None
                if isinstance(b, ast.Name) and b.id == p and cv(a) is not None:  # const OP d
                    if isinstance(op, ast.Lt):
                        lo = cv(a) + 1
                    elif isinstance(op, ast.LtE):
                        lo = cv(a)
                    elif isinstance(op, ast.Gt):
                        hi = cv(a) - 1
                    elif isinstance(op, ast.GtE):
                        hi = cv(a)
                elif isinstance(a, ast.Name) and a.id == p and cv(b) is not None:  # d OP const
                    if isinstance(op, ast.Lt):
                        hi = cv(b) - 1
                    elif isinstance(op, ast.LtE):
                        hi = cv(b)
                    elif isinstance(op, ast.Gt):
                        lo = cv(b) + 1
                    elif isinstance(op, ast.GtE):
                        lo = cv(b)
            if lo is not None and hi is not None:
                found = (lo, hi)
    lo, hi = found if found is not None else (None, None)
    r12.check((lo, hi) == (0xD800, 0xDFFF), site(f), f.qualname, "refused range is [0xD800, 0xDFFF]", why=f"refused range is [{lo if lo is None else hex(lo)}, {hi if hi is None else hex(hi)}]: a glyph name such as uniD800 or uDFFF yields a lone surrogate instead of the (cid:N) placeholder")

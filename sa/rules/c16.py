"""C16 - painted paths become shapes with the right points, class and graphics state."""

from __future__ import annotations

import ast
from typing import Dict, List, Optional, Set, Tuple

from ..cfg import build_cfg, contains_call
from ..fold import Folder, Unfoldable
from ..model import AnchorMissing, FuncInfo, Model, dotted, unparse, walk_no_nested
from ..norm import NotPolynomial, Poly, SymEval, env_before
from ..report import Report
from ..util import self_fields_written, site
from . import interp as I

INTERP = I.INTERP


def _need(f: Optional[FuncInfo], what: str) -> FuncInfo:
    if f is None:
        raise AnchorMissing(f"{what} not found")
    return f


def bind_args(call: ast.Call, callee: FuncInfo, skip_self: bool = True) -> Dict[str, ast.AST]:
    params = callee.params[1:] if skip_self else callee.params
    args = list(call.args)
    out: Dict[str, ast.AST] = {}
    # explicit-self call style: Base.__init__(self, ...)
    if args and isinstance(args[0], ast.Name) and args[0].id == "self" and isinstance(call.func, ast.Attribute) and call.func.attr == callee.name and not (isinstance(call.func.value, ast.Name) and call.func.value.id == "self"):
        args = args[1:]
    for p, a in zip(params, args):
        out[p] = a
    for k in call.keywords:
        if k.arg:
            out[k.arg] = k.value
    return out


def run(model: Model, rep: Report) -> None:
    rep.explanation = (
        "C16: decides the structural part of path painting: operator arities, the (stroke, fill, even-odd) flags each painting operator passes "
        "and that every painting/ending operator clears the current path on all paths, the expansion of `re`, the write sets of the colour and "
        "line-state operators, the parameter bindings from paint_path into LTLine/LTRect/LTCurve down to the stored fields, the classification "
        "sets, and which interpreter state q/Q saves. Transformed coordinates as numbers are not decided."
    )
    spec = I.load_ops()
    table = spec["mangling"]
    I.arity_rule(model, rep, "C16-R1", spec["c16_operators"])
    H = lambda op: _need(I.handler(model, op, table), f"handler of {op}")  # noqa: E731

    # ---------------------------------------------------------------- R2
    r2 = rep.rule("C16-R2", "TABLE", "painting operators pass the spec'd (stroke, fill, even-odd), close first where required, and leave no residue", 10)

    def effect(h: FuncInfo, depth: int = 0) -> Tuple[Optional[Tuple[object, ...]], bool, bool]:
        """(flags passed to paint_path, closes the subpath first, clears curpath on all paths)"""
        flags = None
        closes = False
        g = build_cfg(h.node, exc_edges=False)
        clears = g.all_path_pass(g.entry, lambda n: n.kind == "stmt" and isinstance(n.ast, ast.Assign) and unparse(n.ast.targets[0]) == "self.curpath" and unparse(n.ast.value) == "[]") is None
        order: List[str] = []
        for st in h.node.body:  # type: ignore[attr-defined]
            for c in [st] + list(walk_no_nested(st)):
                if isinstance(c, ast.Call):
                    d = dotted(c.func) or ""
                    if d == "self.device.paint_path":
                        order.append("paint")
                        if len(c.args) >= 5 and unparse(c.args[0]) == "self.graphicstate" and unparse(c.args[4]) == "self.curpath":
                            try:
                                flags = tuple(ast.literal_eval(a) for a in c.args[1:4])
                            except ValueError:
                                flags = ("?",)
                        else:
                            flags = ("?args",)
                    elif d.startswith("self.do_") and depth < 3:
                        sub = model.lookup_method(INTERP, d[5:])
                        if sub is not None:
                            if sub.name == "do_h":
                                if "paint" not in order:
                                    closes = True
                                order.append("h")
                            else:
                                f2, c2, cl2 = effect(sub, depth + 1)
                                if f2 is not None:
                                    flags = f2
                                    order.append("paint")
                                closes = closes or c2
                                clears = clears or cl2
        return flags, closes, clears

    for op, (st_, fi, eo, cl) in ((k, v) for k, v in spec["paint"].items() if k != "comment"):
        h = H(op)
        flags, closes, clears = effect(h)
        r2.check(flags == (st_, fi, eo), site(h), h.qualname, f"`{op}` paints with (stroke, fill, evenodd) = ({st_}, {fi}, {eo}) on (graphicstate, curpath)", why=f"passes {flags}")
        r2.check(closes == cl, site(h), h.qualname, f"`{op}` {'closes the subpath before painting' if cl else 'does not close the subpath'}", why=f"closes-first={closes}")
        r2.check(clears, site(h), h.qualname, f"`{op}` clears the current path on every path after painting", why="self.curpath = [] is not reached on every path: the next path would start with this one's segments")
    # closing a subpath that is closed already adds nothing (8.5.2.1: "if the current subpath is already closed, h shall do
    # nothing"): `re s`, `re b`, `... h s` must not end in two close segments, or the shape no longer matches the closed
    # quadrilateral / single line patterns of paint_path
    from .c13_ops import _guard_tests as _gt16, _prior_exits as _pe16

    r15 = rep.rule("C16-R15", "TYPESTATE", "h closes an open subpath only: the close segment is appended under a test that the last segment is not a close segment already", 1)
    hh = H("h")
    apps = [c for c in walk_no_nested(hh.node) if isinstance(c, ast.Call) and (dotted(c.func) or "") == "self.curpath.append"]
    if not apps:
        raise AnchorMissing("do_h: append of the close segment not found")
    for c in apps:
        tests = [unparse(t) for (t, pol) in _gt16(hh, c)] + [unparse(t) for t in _pe16(hh, c)]
        guarded = any("self.curpath[-1][0]" in t.replace(" ", "") and "'h'" in t for t in tests)
        r15.check(guarded, site(hh, c), hh.qualname, f"{unparse(c)} : only when the last segment of the current path is not 'h'", why="a second close segment is appended to a closed subpath: `re s`, `re b`, `re h f` and `m l l l h s` end in `hh`, paint_path does not recognise the rectangle (or the single line) and reports a curve with the start point twice")
    r16 = rep.rule("C16-R16", "GUARD", "paint_path drops the point before a closing h only when the segment that ends there is a straight line back to the start (`l h`): the end point of a curve segment is never dropped", 1)
    from ..util import guard_conjuncts as _gc16

    pp16 = model.func("pdfminer.converter.PDFLayoutAnalyzer.paint_path")
    pops = [c for c in walk_no_nested(pp16.node) if isinstance(c, ast.Call) and (dotted(c.func) or "") == "pts.pop"]
    if not pops:
        raise AnchorMissing("paint_path: pts.pop() not found")
    for c in pops:
        g16 = _gc16(pp16, c, innermost=True)
        r16.check(any(x.replace('"', "'") in ("shape[-2:]=='lh'", "'lh'==shape[-2:]") for x in g16), site(pp16, c), pp16.qualname, "pts.pop() runs under shape[-2:] == 'lh'", why=f"guards {sorted(g16)}: a closed subpath whose last *curve* segment ends on the start point (a circle of four Beziers closed with h) loses that segment's end point")
    hn = H("n")
    _, _, clears = effect(hn)
    r2.check(clears, site(hn), hn.qualname, "`n` ends the path: clears it without painting", why="curpath not cleared")
    r2.check(not any(isinstance(c, ast.Call) and (dotted(c.func) or "").endswith("paint_path") for c in walk_no_nested(hn.node)), site(hn), hn.qualname, "`n` paints nothing", why="n calls paint_path")

    # ---------------------------------------------------------------- R3
    r3 = rep.rule("C16-R3", "NORMFORM", "path construction: each operator appends (op, operands in order); `re` expands to m l l l h", 7)
    se = SymEval(opaque_ok=True)
    se.calls = {"safe_float": lambda x: x}

    def appended(h: FuncInfo) -> List[Tuple[str, Tuple[object, ...]]]:
        out = []
        calls = sorted([c for c in walk_no_nested(h.node) if isinstance(c, ast.Call) and (dotted(c.func) or "") == "self.curpath.append"], key=lambda c: (c.lineno, c.col_offset))
        for c in calls:
            stmt = None
            for n in walk_no_nested(h.node):
                if isinstance(n, ast.Expr) and n.value is c:
                    stmt = n
            env = env_before(h.node, stmt, se, {}) if stmt is not None else {}
            arg = c.args[0]
            if isinstance(arg, ast.Name):
                # point = ("m", x_f, y_f); self.curpath.append(point)
                defs = [a for a in I.assigns_to(h, arg.id) if a.lineno < c.lineno]
                # the definition in the same block
                chain = None
                for a in reversed(defs):
                    from ..norm import path_to

                    pa, pc = path_to(h.node, a), path_to(h.node, stmt) if stmt is not None else None
                    if pa and pc and pa[-1][0] is pc[-1][0]:
                        arg = a.value  # type: ignore[attr-defined]
                        env = env_before(h.node, a, se, {})
                        break
            if isinstance(arg, ast.Tuple) and arg.elts and isinstance(arg.elts[0], ast.Constant):
                coords = tuple(se.expr(e, env) for e in arg.elts[1:])
                out.append((arg.elts[0].value, coords))
            else:
                out.append(("?", ()))
        return out

    for op in ("m", "l", "c", "v", "y", "h"):
        h = H(op)
        try:
            got = appended(h)
        except NotPolynomial as ex:
            r3.violation(site(h), h.qualname, f"`{op}` appends ({op!r}, operands...)", f"cannot evaluate: {ex}")
            continue
        want = [(op, tuple(Poly.var(p) for p in h.params[1:]))]
        r3.check(got == want, site(h), h.qualname, f"`{op}` appends ({op!r}, {', '.join(h.params[1:])}) to the current path", why=f"appends {got}")
    h = H("re")
    try:
        got = appended(h)
        x, y, w, hh = (Poly.var(p) for p in h.params[1:5])
        want = [("m", (x, y)), ("l", (x + w, y)), ("l", (x + w, y + hh)), ("l", (x, y + hh)), ("h", ())]
        r3.check(got == want, site(h), h.qualname, "`re` x y w h == m(x,y) l(x+w,y) l(x+w,y+h) l(x,y+h) h", why=f"appends {got}")
    except NotPolynomial as ex:
        r3.violation(site(h), h.qualname, "`re` expansion", f"cannot evaluate: {ex}")

    # ---------------------------------------------------------------- R4
    r4 = rep.rule("C16-R4", "WRITESET", "colour and line-state operators write the spec'd graphics-state fields", 14)
    for op, (cfield, csfield, space) in ((k, v) for k, v in spec["colour"].items() if k != "comment"):
        h = H(op)
        w = self_fields_written(h)
        gs_written = {k.split(".", 1)[1] for k in w if k.startswith("graphicstate.")}
        cs_written = {k for k in w if k in ("scs", "ncs")}
        want_gs = {cfield} if cfield else set()
        want_cs = {csfield} if csfield else set()
        ok = gs_written == want_gs and cs_written == want_cs
        why = f"writes graphicstate.{sorted(gs_written)} and {sorted(cs_written)}"
        if ok and space:
            vals = {unparse(s.value) for s in w.get(csfield, []) if isinstance(s, ast.Assign)}  # type: ignore[arg-type]
            ok = vals == {f"self.csmap['{space}']"}
            why = f"colour space set from {sorted(vals)}"
        if ok and op in ("SCN", "scn"):
            # number of components comes from the matching current colour space
            src = unparse(h.node)
            want_cs_read = "self.scs" if op == "SCN" else "self.ncs"
            other = "self.ncs" if op == "SCN" else "self.scs"
            ok = want_cs_read + ".ncomponents" in src and other not in src
            why = f"component count must come from {want_cs_read}"
        if ok and op in ("CS", "cs"):
            vals = {unparse(s.value) for s in w.get(csfield, []) if isinstance(s, ast.Assign)}  # type: ignore[arg-type]
            ok = vals == {f"self.csmap[literal_name({h.params[1]})]"}
            why = f"colour space looked up as {sorted(vals)}"
        r4.check(ok, site(h), h.qualname, f"`{op}` writes {('graphicstate.' + cfield) if cfield else ''}{' + ' if cfield and csfield else ''}{csfield or ''}{(' = ' + space) if space else ''}", why=why)
    for op, fld in spec["gstate_fields"].items():
        h = H(op)
        w = self_fields_written(h)
        r4.check(set(w) == {f"graphicstate.{fld}"}, site(h), h.qualname, f"`{op}` writes graphicstate.{fld} only", why=f"writes {sorted(w)}")
    hd = H("d")
    dv = [unparse(s.value).replace(" ", "") for s in self_fields_written(hd).get("graphicstate.dash", []) if isinstance(s, ast.Assign)]
    r4.check(dv == [f"({hd.params[1]},{hd.params[2]})"], site(hd), hd.qualname, "`d` stores (dash array, phase)", why=f"stores {dv}")

    # ---------------------------------------------------------------- R5
    _shapes(model, rep)
    # colour spaces named by one resource dictionary must not outlive it: the interpreter's table is its own copy
    ir = model.func("pdfminer.pdfinterp.PDFPageInterpreter.init_resources")
    v = [unparse(n.value) for n in walk_no_nested(ir.node) if isinstance(n, (ast.Assign, ast.AnnAssign)) and unparse(n.targets[0] if isinstance(n, ast.Assign) else n.target) == "self.csmap"]
    r8 = rep.rule("C16-R8", "ALIAS", "the colour-space table consulted by cs/CS/sc/scn is a per-interpreter copy of the predefined table", 1)
    r8.check(len(v) == 1 and v[0] in ("PREDEFINED_COLORSPACE.copy()", "dict(PREDEFINED_COLORSPACE)", "{**PREDEFINED_COLORSPACE}"), site(ir), ir.qualname, "self.csmap = PREDEFINED_COLORSPACE.copy()", why=f"self.csmap = {v}: names bound by one page's or form's /ColorSpace resources are written into the shared table, so a later `cs` with that name sees another stream's colour space (and component count)")
    # q / Q: every q pushes, every Q pops when there is something to pop
    r9 = rep.rule("C16-R9", "PAIR", "q saves the graphics state on every path; Q restores the most recent one whenever the stack is not empty", 2)
    dq, dQ = model.func("pdfminer.pdfinterp.PDFPageInterpreter.do_q"), model.func("pdfminer.pdfinterp.PDFPageInterpreter.do_Q")
    gq = build_cfg(dq.node, exc_edges=False)
    wq = gq.all_path_pass(gq.entry, lambda n: n.ast is not None and n.kind == "stmt" and "".join(unparse(n.ast).split()) == "self.gstack.append(self.get_current_state())")
    r9.check(wq is None and not any(isinstance(n, (ast.If, ast.Return)) for n in walk_no_nested(dq.node)), site(dq), dq.qualname, "do_q: self.gstack.append(self.get_current_state()), unconditionally", why="a path through do_q does not push: the matching Q then restores an outer level's line width, dash, colours and CTM")
    sQ = "".join(unparse(dQ.node).split())
    r9.check("ifself.gstack:self.set_current_state(self.gstack.pop())" in sQ and len([n for n in walk_no_nested(dQ.node) if isinstance(n, ast.If)]) == 1, site(dQ), dQ.qualname, "do_Q: pops and restores iff the stack is non-empty", why="changed")
    from .c13 import lenient_accessors_rule

    lenient_accessors_rule(model, rep, "C16-R10")
    from .interp import optional_number_truth_rule

    optional_number_truth_rule(model, rep, "C16-R7", [f for q, f in sorted(model.funcs.items()) if q.startswith("pdfminer.pdfinterp.PDFPageInterpreter.do_")], 8)

    # ---------------------------------------------------------------- R6
    r11 = rep.rule("C16-R11", "COPYFIELDS", "the graphics-state snapshot pushed by q is complete: PDFGraphicState.copy() transfers every field the state has (line width, cap, join, miter limit, dash, intent, flatness, colours)", 1)
    from .c05 import state_copy_instances

    state_copy_instances(model, r11, ("PDFGraphicState",))
    from .c05 import cm_order_rule

    cm_order_rule(model, rep, "C16-R14")
    colour_ops_guarded_rule(model, rep, "C16-R12")
    colourspace_resource_rule(model, rep, "C16-R13")
    r6 = rep.rule("C16-R6", "COPYFIELDS", "q saves every piece of graphics state that the state operators write", 3)
    gcs = model.func(INTERP + ".get_current_state")
    ret = [n for n in walk_no_nested(gcs.node) if isinstance(n, ast.Return)]
    saved = {unparse(e).split(".copy")[0].replace("self.", "") for e in (ret[0].value.elts if ret and isinstance(ret[0].value, ast.Tuple) else [])}
    written: Dict[str, Set[str]] = {}
    state_ops = list(spec["colour"].keys()) + list(spec["gstate_fields"].keys()) + ["cm"] + list(spec["textstate_fields"].keys()) + ["Tf"]
    for op in state_ops:
        if op == "comment":
            continue
        h = I.handler(model, op, table)
        if h is None:
            continue
        for k in self_fields_written(h):
            written.setdefault(k.split(".")[0], set()).add(op)
    for fld, ops_ in sorted(written.items()):
        if fld in saved:
            r6.ok(site(gcs), gcs.qualname, f"`{fld}` (written by {sorted(ops_)}) is part of the q/Q snapshot")
        else:
            r6.violation(site(gcs), gcs.qualname, f"`{fld}` is written by {sorted(ops_)} but is not part of the q/Q snapshot", "Table 52: the current colour space is part of the graphics state; `q /DeviceRGB cs Q 0.5 sc` still expects three operands after Q")


def _shapes(model: Model, rep: Report) -> None:
    r5 = rep.rule("C16-R5", "BIND", "paint_path: points, classification sets and the bindings of every shape constructor down to the stored fields", 14)
    pp = model.func("pdfminer.converter.PDFLayoutAnalyzer.paint_path")
    L = "pdfminer.layout."
    want_common = {
        "linewidth": "gstate.linewidth",
        "stroke": "stroke",
        "fill": "fill",
        "evenodd": "evenodd",
        "stroking_color": "gstate.scolor",
        "non_stroking_color": "gstate.ncolor",
        "original_path": "transformed_path",
        "dashing_style": "gstate.dash",
    }
    extra = {"LTLine": {"p0": "pts[0]", "p1": "pts[1]"}, "LTRect": {"bbox": "(*pts[0], *pts[2])"}, "LTCurve": {"pts": "pts"}}
    seen = set()
    for c in sorted([c for c in walk_no_nested(pp.node) if isinstance(c, ast.Call) and (dotted(c.func) or "") in ("LTLine", "LTRect", "LTCurve")], key=lambda c: c.lineno):
        cname = dotted(c.func) or ""
        seen.add(cname)
        init = model.func(L + cname + ".__init__")
        b = {k: unparse(v) for k, v in bind_args(c, init).items()}
        want = dict(want_common)
        want.update(extra[cname])
        bad = [f"{k}: got {b.get(k)!r}, want {v!r}" for k, v in want.items() if b.get(k) != v]
        r5.check(not bad, site(pp, c), pp.qualname, f"{cname}(...) at line-class `{_branch_of(pp, c)}` receives linewidth, flags, colours, path and dash from the graphics state in force", why="; ".join(bad))
    r5.check(seen == {"LTLine", "LTRect", "LTCurve"}, site(pp), pp.qualname, "paint_path builds lines, rectangles and curves", why=f"constructors used: {sorted(seen)}")
    # LTLine / LTRect forward to LTCurve.__init__ in order; LTCurve stores each parameter in its field
    cur = model.func(L + "LTCurve.__init__")
    for cname in ("LTLine", "LTRect"):
        init = model.func(L + cname + ".__init__")
        calls = [c for c in walk_no_nested(init.node) if isinstance(c, ast.Call) and (dotted(c.func) or "") == "LTCurve.__init__"]
        ok = False
        why = "no LTCurve.__init__ call"
        if calls:
            b = {k: unparse(v) for k, v in bind_args(calls[0], cur).items()}
            bad = [f"{k}<-{b.get(k)}" for k in want_common if b.get(k) != k]
            ok = not bad
            why = "; ".join(bad)
            if cname == "LTLine":
                ok = ok and b.get("pts", "").replace(" ", "") == "[p0,p1]"
            else:
                ok = ok and b.get("pts", "").replace(" ", "") == "[(x0,y0),(x1,y0),(x1,y1),(x0,y1)]"
            if not ok and not why:
                why = f"pts bound to {b.get('pts')}"
        r5.check(ok, site(init), init.qualname, f"{cname}.__init__ forwards every attribute to LTCurve.__init__ under its own name", why=why)
    stored = {unparse(t)[5:]: unparse(n.value) for n in walk_no_nested(cur.node) if isinstance(n, ast.Assign) for t in n.targets if unparse(t).startswith("self.")}
    bad = [f"self.{k} = {stored.get(k)}" for k in list(want_common) + ["pts"] if stored.get(k) != k]
    r5.check(not bad, site(cur), cur.qualname, "LTCurve stores linewidth, stroke, fill, evenodd, colours, original_path, dashing_style, pts under their own names", why="; ".join(bad))
    # classification sets
    sets = []
    for n in walk_no_nested(pp.node):
        if isinstance(n, ast.If) and isinstance(n.test, ast.Compare) and unparse(n.test.left) == "shape" and isinstance(n.test.ops[0], ast.In) and isinstance(n.test.comparators[0], ast.Set):
            try:
                s = frozenset(ast.literal_eval(n.test.comparators[0]))
            except ValueError:
                s = frozenset()
            ctor = {dotted(c.func) for st in n.body for c in [st] + list(walk_no_nested(st)) if isinstance(c, ast.Call) and (dotted(c.func) or "") in ("LTLine", "LTRect", "LTCurve")}
            sets.append((s, ctor, n))
    line = [x for x in sets if x[0] == frozenset({"ml", "mlh"})]
    rect = [x for x in sets if x[0] == frozenset({"mlllh", "mllll"})]
    r5.check(len(line) == 1 and line[0][1] == {"LTLine"}, site(pp), pp.qualname, "one straight segment ({ml, mlh}) -> LTLine", why=f"sets found: {[(sorted(s), sorted(c)) for s, c, _ in sets]}")
    okr = len(rect) == 1 and rect[0][1] == {"LTRect", "LTCurve"}
    if okr:
        src = unparse(rect[0][2])
        okr = "pts[0] == pts[4]" in src and "x0 == x1 and y1 == y2 and x2 == x3 and y3 == y0" in src.replace("(", "").replace(")", "") and "y0 == y1 and x1 == x2 and y2 == y3 and x3 == x0" in src.replace("(", "").replace(")", "")
    r5.check(okr, site(pp), pp.qualname, "closed axis-aligned quadrilateral ({mlllh, mllll}) -> LTRect, else LTCurve", why="rectangle test changed")
    # points: transformed end points; h -> start point
    src = unparse(pp.node)
    pts_ok = "apply_matrix_pt(self.ctm, pt) for pt in raw_pts" in src and "p[-2:] if p[0] != 'h' else path[0][-2:]" in src
    r5.check(pts_ok, site(pp), pp.qualname, "points are apply_matrix_pt(ctm, last two operands of each segment); h contributes the start point", why="point computation changed")
    # device space only: the untransformed points feed nothing but the transformation, and the coordinates the rectangle test
    # compares are destructured from the transformed points
    xf = [n for n in walk_no_nested(pp.node) if isinstance(n, ast.Assign) and isinstance(n.value, ast.ListComp) and isinstance(n.value.elt, ast.Call) and unparse(n.value.elt).startswith("apply_matrix_pt(self.ctm") and len(n.value.generators) == 1 and isinstance(n.value.generators[0].iter, ast.Name)]
    if len(xf) != 1 or not isinstance(xf[0].targets[0], ast.Name):
        raise AnchorMissing("paint_path: transformed point list not found")
    dev, raw = xf[0].targets[0].id, xf[0].value.generators[0].iter.id
    raw_uses = [n for n in ast.walk(pp.node) if isinstance(n, ast.Name) and n.id == raw and isinstance(n.ctx, ast.Load)]
    r5.check(len(raw_uses) == 1, site(pp, raw_uses[-1] if raw_uses else pp.node), pp.qualname, f"user-space points `{raw}` are read only to compute the device-space points `{dev}`", why=f"`{raw}` is read at lines {sorted(n.lineno for n in raw_uses)}: a shape decision or geometry taken from untransformed operands ignores the CTM (a rotated rectangle would be classified by its user-space sides)")
    coord_defs = [n for n in walk_no_nested(pp.node) if isinstance(n, ast.Assign) and isinstance(n.targets[0], ast.Tuple) and {"x0", "y0", "x3", "y3"} <= {x.id for x in ast.walk(n.targets[0]) if isinstance(x, ast.Name)}]
    okc = len(coord_defs) == 1 and {x.id for x in ast.walk(coord_defs[0].value) if isinstance(x, ast.Name)} == {dev}
    r5.check(okc, site(pp, coord_defs[0] if coord_defs else pp.node), pp.qualname, f"the corner coordinates tested for axis-alignment are taken from `{dev}`", why=f"corners come from `{unparse(coord_defs[0].value) if coord_defs else None}`")
    # several m: one shape per subpath, by recursion on strictly shorter subpaths
    rec = [n for n in walk_no_nested(pp.node) if isinstance(n, ast.Call) and (dotted(n.func) or "") == "self.paint_path"]
    multi = any(isinstance(n, ast.If) and "shape.count('m') > 1" in unparse(n.test) for n in walk_no_nested(pp.node))
    rx_ok = "re.finditer('m[^m]+', shape)" in src
    okrec = bool(rec) and multi and rx_ok and [unparse(a) for a in rec[0].args] == ["gstate", "stroke", "fill", "evenodd", "subpath"] and "path[m.start(0):m.end(0)]" in src
    r5.check(okrec, site(pp), pp.qualname, "a path with several m is split at each m and every subpath painted with the same state", why="sub-path split changed")
    first = any(isinstance(n, ast.If) and unparse(n.test).replace(" ", "") == "shape[:1]!='m'" and all(isinstance(s, ast.Pass) for s in n.body) for n in walk_no_nested(pp.node))
    r5.check(first, site(pp), pp.qualname, "a path that does not start with m yields nothing", why="guard changed")


def _branch_of(f: FuncInfo, node: ast.AST) -> str:
    from ..rules.tokenizer import _guard_tests

    gts = _guard_tests(f, node)
    return " & ".join((("" if pol else "not ") + unparse(t))[:40] for t, pol in gts[-2:])


def colour_ops_guarded_rule(model: Model, rep: Report, rid: str) -> None:
    """g/G/rg/RG/k/K: an operator whose operands are ill-typed changes nothing - neither the colour nor the colour space."""
    r = rep.rule(rid, "GUARD", "G g RG rg K k write the colour and the colour space only under the validity test of their operands (an ill-typed operand leaves both as they were)", 12)
    from ..util import guard_conjuncts

    for op in ("G", "g", "RG", "rg", "K", "k"):
        f = model.func(f"pdfminer.pdfinterp.PDFPageInterpreter.do_{op}")
        stores = [n for n in walk_no_nested(f.node) if isinstance(n, ast.Attribute) and isinstance(n.ctx, ast.Store) and unparse(n) in ("self.scs", "self.ncs", "self.graphicstate.scolor", "self.graphicstate.ncolor")]
        if len(stores) < 2:
            raise AnchorMissing(f"do_{op}: colour / colour-space stores not found")
        for st in stores:
            g = guard_conjuncts(f, st)
            r.check(any(x.endswith("isnotNone") for x in g), site(f, st), f.qualname, f"`{unparse(st)} = ...` runs under `<operands> is not None`", why=f"conditions {sorted(g)}: the store also happens when the operands could not be read, so a malformed operator switches the colour space that the following sc/scn operands are counted against")


def colourspace_resource_rule(model: Model, rep: Report, rid: str) -> None:
    r = rep.rule(rid, "BIND", "colour-space resources are resolved before they are interpreted: get_colorspace receives resolve1(spec), so an entry given as an indirect reference (to an array or to a name) defines the name like a direct one", 1)
    f = model.func("pdfminer.pdfinterp.PDFPageInterpreter.init_resources")
    calls = [c for c in walk_no_nested(f.node) if isinstance(c, ast.Call) and (dotted(c.func) or "") == "get_colorspace"]
    top = [c for c in calls if not any(c is x for g in model.funcs.values() if g.parent is f for x in ast.walk(g.node))]
    if not top:
        raise AnchorMissing("init_resources: call of get_colorspace not found")
    for c in top:
        a = c.args[0] if c.args else None
        ok = isinstance(a, ast.Call) and (dotted(a.func) or "") == "resolve1"
        r.check(bool(ok), site(f, c), f.qualname, f"`{unparse(c)}` passes a resolved specification", why="the raw dictionary value is passed: for `/CS0 5 0 R` the helper sees a reference, finds no name, and the colour space is never registered - cs/CS on it is ignored and the following sc/scn pops the wrong number of operands")


def _colour_aliases(model: Model, rep: Report) -> None:
    """C16-R17: SC / sc are the short forms of SCN / scn (ISO 32000-1 Table 74): each hands over to the operator of its own
    side.  `sc` reaching do_SCN pops the operand count of the stroking space and overwrites the stroking colour."""
    r = rep.rule("C16-R17", "DISPATCH", "the colour operators SC and sc hand over to SCN and scn respectively (stroking to stroking, non-stroking to non-stroking) and to nothing else", 2)
    P = "pdfminer.pdfinterp.PDFPageInterpreter."
    for short, long_ in (("do_SC", "do_SCN"), ("do_sc", "do_scn")):
        f = model.func(P + short)
        calls = sorted({dotted(c.func) or "?" for c in walk_no_nested(f.node) if isinstance(c, ast.Call)})
        r.check(calls == [f"self.{long_}"], site(f), f.qualname, f"{short[3:]} -> {long_[3:]}", why=f"calls {calls}: the colour of the other side (or none) is set and the operands are popped by the wrong colour space")


_run_r1_r16 = run


def run(model: Model, rep: Report) -> None:  # noqa: F811
    _run_r1_r16(model, rep)
    _colour_aliases(model, rep)

"""C04 - page tree: order, inheritance, rotation/box normalisation, page selection."""

from __future__ import annotations

import ast
from fractions import Fraction
from typing import Dict, List, Optional, Set, Tuple

from ..cfg import build_cfg, contains_call
from ..fold import Folder, Unfoldable
from ..model import AnchorMissing, FuncInfo, Model, dotted, unparse, walk_no_nested
from ..norm import NotPolynomial, Poly, SymEval, canon_compare
from ..report import Report
from ..util import bool_operands, site

PG = "pdfminer.pdfpage.PDFPage"


def run(model: Model, rep: Report) -> None:
    _selection_breaks(model, rep)
    _ordered_corners(model, rep)
    rep.explanation = (
        "C04: decides the structural part of page-tree handling: the inheritable-attribute set (Table 30) and the nearest-ancestor merge, "
        "document-order traversal with a visited-set guard dominating the recursion, that the page limit is tested on every path through the "
        "selection loop with the right threshold, Rotate reduced modulo 360, the page CTM of each Rotate branch as polynomial identities "
        "(clockwise rotation, MediaBox corners land on the origin box), and the box defaults. Malformed-tree page order and label pairing are not decided."
    )
    fo = Folder(model)
    pg = model.cls(PG)
    # ---------------------------------------------------------------- R1
    r1 = rep.rule("C04-R1", "ORDER", "depth-first Kids order, nearest-ancestor inheritance of exactly the Table 30 attributes, visited-set guard", 8)
    try:
        inh = fo.fold(pg.module, pg.attrs["INHERITABLE_ATTRS"], pg)
    except (KeyError, Unfoldable):
        raise AnchorMissing("PDFPage.INHERITABLE_ATTRS not found")
    r1.check(frozenset(inh) == frozenset({"Resources", "MediaBox", "CropBox", "Rotate"}), f"pdfminer/pdfpage.py:{pg.attrs['INHERITABLE_ATTRS'].lineno}:PDFPage.INHERITABLE_ATTRS", PG + ".INHERITABLE_ATTRS", "inheritable attributes == {Resources, MediaBox, CropBox, Rotate}", why=f"is {sorted(inh)}")
    dfs = model.func(PG + ".create_pages.depth_first_search")
    P = dfs.params
    obj_p, parent_p, visited_p = P[0], P[1], P[2]
    # name of the child's own dictionary: assigned from dict_value(...).copy()
    props = None
    copies = []
    for n in walk_no_nested(dfs.node):
        if isinstance(n, ast.Assign) and isinstance(n.targets[0], ast.Name) and "dict_value(" in unparse(n.value):
            props = n.targets[0].id
            copies.append(unparse(n.value).endswith(".copy()"))
    if props is None:
        raise AnchorMissing("depth_first_search: node dictionary assignment not found")
    r1.check(all(copies), site(dfs), dfs.qualname, "the node's dictionary is copied before inherited attributes are merged into it", why="the cached/shared object would be modified in place")
    merge = None
    for n in walk_no_nested(dfs.node):
        if isinstance(n, ast.For) and unparse(n.iter) == f"{parent_p}.items()":
            merge = n
    okm = False
    whym = "no loop over parent.items()"
    if merge is not None:
        kname = unparse(merge.target.elts[0]) if isinstance(merge.target, ast.Tuple) else ""
        vname = unparse(merge.target.elts[1]) if isinstance(merge.target, ast.Tuple) else ""
        ifs = [s for s in merge.body if isinstance(s, ast.If)]
        if len(merge.body) == 1 and ifs:
            conds = {unparse(c).replace(" ", "") for c in bool_operands(ifs[0].test, ast.And)}
            want = {f"{kname}incls.INHERITABLE_ATTRS", f"{kname}notin{props}"}
            alt = {f"{kname}in{PG.split('.')[-1]}.INHERITABLE_ATTRS", f"{kname}notin{props}"}
            body_ok = len(ifs[0].body) == 1 and unparse(ifs[0].body[0]).replace(" ", "") == f"{props}[{kname}]={vname}" and not ifs[0].orelse
            okm = (conds == want or conds == alt) and body_ok
            whym = f"conditions {sorted(conds)}; body `{unparse(ifs[0].body[0]) if ifs[0].body else ''}`"
    r1.check(okm, site(dfs, merge) if merge is not None else site(dfs), dfs.qualname, "a key is taken from the parent iff it is inheritable and absent in the child (nearest ancestor wins)", why=whym)
    # the merge must happen for every node, before it is passed down or yielded
    gm = build_cfg(dfs.node, exc_edges=False)
    domm = gm.dominators()
    mnode = gm.node_of(merge) if merge is not None else None
    sinks_m = [n.id for n in gm.nodes if n.ast is not None and n.kind in ("stmt", "for") and any(isinstance(x, (ast.Yield, ast.YieldFrom)) for x in ast.walk(n.ast if n.kind == "stmt" else ast.Module(body=[], type_ignores=[])))]
    okdom = mnode is not None and bool(sinks_m) and all(mnode in domm.get(s_, set()) for s_ in sinks_m)
    r1.check(okdom, site(dfs, merge) if merge is not None else site(dfs), dfs.qualname, "the inherited attributes are merged into every node (intermediate /Pages nodes too) before it is descended into or yielded", why="the merge does not dominate the descent: attributes defined above the direct parent are lost")
    # recursion: over Kids in list order, passing the merged dict and the visited set
    rec = [c for c in walk_no_nested(dfs.node) if isinstance(c, ast.Call) and (dotted(c.func) or "") == dfs.name]
    okr = False
    whyr = "no recursive call"
    kids_loop = None
    for n in walk_no_nested(dfs.node):
        if isinstance(n, ast.For) and any(c in list(walk_no_nested(n)) for c in rec):
            kids_loop = n
    if rec and kids_loop is not None:
        args = [unparse(a) for a in rec[0].args]
        it = unparse(kids_loop.iter).replace(" ", "")
        okr = args == [unparse(kids_loop.target), props, visited_p] and it == f"list_value({props}['Kids'])"
        whyr = f"recursive call args {args}, iterating {it}"
    r1.check(okr, site(dfs, kids_loop) if kids_loop is not None else site(dfs), dfs.qualname, "Kids are visited in list order; the merged dictionary (not the raw parent) and the visited set are passed down", why=whyr)
    # visited guard dominates recursion and yield; add follows the test
    g = build_cfg(dfs.node, exc_edges=False)
    dom = g.dominators()
    test_nodes = [n.id for n in g.nodes if n.kind == "test" and n.ast is not None and unparse(n.ast).replace(" ", "") == f"object_idin{visited_p}".replace("object_id", _objid_name(dfs))]
    add_nodes = [n.id for n in g.nodes if n.kind == "stmt" and n.ast is not None and contains_call(n.ast, lambda c: (dotted(c.func) or "") == f"{visited_p}.add")]
    sinks = [n.id for n in g.nodes if n.ast is not None and n.kind in ("stmt", "for") and any(isinstance(x, (ast.Yield, ast.YieldFrom)) for x in ([n.ast] if n.kind == "stmt" else []) for x in ast.walk(x))]
    okv = bool(test_nodes) and bool(add_nodes) and bool(sinks) and all(test_nodes[0] in dom[s] and add_nodes[0] in dom[s] for s in sinks) and test_nodes[0] in dom[add_nodes[0]]
    # the true branch of the test returns
    if okv:
        t = g.nodes[test_nodes[0]]
        tsucc = [m for (m, lab) in g.succ[t.id] if lab == "true"]
        okv = bool(tsucc) and isinstance(g.nodes[tsucc[0]].ast, ast.Return)
    r1.check(okv, site(dfs), dfs.qualname, "`if id in visited: return` and `visited.add(id)` dominate every yield and every descent (each node once; cycles terminate)", why="visited-set guard missing or not dominating")
    ys = [n for n in walk_no_nested(dfs.node) if isinstance(n, ast.Yield)]
    oky = bool(ys) and unparse(ys[0].value).replace(" ", "") == f"({_objid_name(dfs)},{props})"
    r1.check(oky, site(dfs), dfs.qualname, "a /Page node yields (object id, merged attributes)", why=f"yields {unparse(ys[0].value) if ys else None}")
    cp = model.func(PG + ".create_pages")
    roots = [c for c in walk_no_nested(cp.node) if isinstance(c, ast.Call) and (dotted(c.func) or "") == dfs.name]
    if not roots:
        raise AnchorMissing("create_pages: call of depth_first_search not found")
    for c in roots:
        a = [unparse(x) for x in c.args] + [f"{k.arg}={unparse(k.value)}" for k in c.keywords]
        r1.check(bool(a) and a[0] == "document.catalog['Pages']", site(cp, c), cp.qualname, "the walk starts at catalog /Pages", why=f"root of the walk is {a[:1]}")
        par = c.args[1] if len(c.args) > 1 else next((k.value for k in c.keywords if k.arg == parent_p), None)
        empty = par is not None and ((isinstance(par, ast.Dict) and not par.keys) or (isinstance(par, ast.Call) and (dotted(par.func) or "") == "dict" and not par.args and not par.keywords))
        r1.check(empty, site(cp, c), cp.qualname, "the root of the page tree has no ancestor: nothing is inherited from outside the tree", why=f"the walk starts with `{unparse(par) if par is not None else None}` as the root's parent: its Resources / MediaBox / CropBox / Rotate entries are inherited by every page although it is not a page-tree node (7.7.3.4)")

    # ---------------------------------------------------------------- R2
    _selection(model, rep)

    # ---------------------------------------------------------------- R3
    r3 = rep.rule("C04-R3", "NORMFORM", "Rotate is reduced to 0..359 (modulo 360 outermost)", 2)
    init = model.func(PG + ".__init__")
    for f, tgt in ((init, "self.rotate"), (model.func("pdfminer.high_level.extract_text_to_fp"), "page.rotate")):
        sts = [n for n in walk_no_nested(f.node) if isinstance(n, ast.Assign) and unparse(n.targets[0]) == tgt]
        ok = bool(sts) and all(isinstance(s.value, ast.BinOp) and isinstance(s.value.op, ast.Mod) and isinstance(s.value.right, ast.Constant) and s.value.right.value == 360 for s in sts)
        r3.check(ok, site(f, sts[0]) if sts else site(f), f.qualname, f"{tgt} = (...) % 360", why=f"{[unparse(s) for s in sts]}")
    rot_src = [unparse(s.value) for s in walk_no_nested(init.node) if isinstance(s, ast.Assign) and unparse(s.targets[0]) == "self.rotate"]
    r3.check(bool(rot_src) and "self.attrs.get('Rotate', 0)" in rot_src[0] and "int_value(" in rot_src[0], site(init), init.qualname, "rotation is read from /Rotate (default 0) as an integer", why=f"{rot_src}")

    # ---------------------------------------------------------------- R4
    _page_ctm(model, rep)

    # ---------------------------------------------------------------- R5
    r5 = rep.rule("C04-R5", "DISPATCH", "box defaults: MediaBox -> US Letter, CropBox -> MediaBox; elements resolved individually", 4)
    mb, cb = model.func(PG + "._parse_mediabox"), model.func(PG + "._parse_cropbox")
    for f, fallback, desc in ((mb, "us_letter", "US Letter (0, 0, 612, 792)"), (cb, cb.params[2], "the MediaBox")):
        rets = [unparse(n.value) for n in walk_no_nested(f.node) if isinstance(n, ast.Return)]
        none_ok = any(isinstance(n, ast.If) and unparse(n.test).replace(" ", "") == f"{f.params[1]}isNone" and any(isinstance(s, ast.Return) and unparse(s.value) == fallback for s in n.body) for n in walk_no_nested(f.node))
        exc_ok = any(isinstance(h, ast.ExceptHandler) and h.type is not None and "PDFValueError" in unparse(h.type) and any(isinstance(s, ast.Return) and unparse(s.value) == fallback for s in h.body) for n in walk_no_nested(f.node) if isinstance(n, ast.Try) for h in n.handlers)
        parse_ok = any(r.replace(" ", "") in (f"parse_rect((resolve1(val)forvalinresolve1({f.params[1]})))", f"parse_rect((resolve1(val)forvalinlist_value({f.params[1]})))") for r in rets)
        r5.check(none_ok and exc_ok and parse_ok, site(f), f.qualname, f"missing or invalid box falls back to {desc}; each element is resolved on its own", why=f"none->{none_ok} invalid->{exc_ok} parse->{parse_ok}")
    us = [unparse(n.value).replace(" ", "") for n in walk_no_nested(mb.node) if isinstance(n, ast.Assign) and unparse(n.targets[0]) == "us_letter"]
    r5.check(us == ["(0.0,0.0,612.0,792.0)"], site(mb), mb.qualname, "US Letter is (0, 0, 612, 792)", why=f"{us}")
    isrc = {unparse(n.targets[0]): unparse(n.value) for n in walk_no_nested(init.node) if isinstance(n, ast.Assign)}
    okb = isrc.get("self.mediabox", "").replace(" ", "") == "self._parse_mediabox(self.attrs.get('MediaBox'))" and isrc.get("self.cropbox", "").replace(" ", "") == "self._parse_cropbox(self.attrs.get('CropBox'),self.mediabox)"
    r5.check(okb, site(init), init.qualname, "the page takes MediaBox/CropBox from its (merged) attributes, CropBox defaulting to the parsed MediaBox", why=f"{isrc.get('self.mediabox')}; {isrc.get('self.cropbox')}")
    # ---------------------------------------------------------------- R6
    r6 = rep.rule("C04-R6", "BIND", "parse_rect: four numbers in the order given (x0, y0, x1, y1), each converted with float; anything else is a PDFValueError", 1)
    pr = model.func("pdfminer.utils.parse_rect")
    spr = "".join(unparse(pr.node).split()).replace("(", "").replace(")", "")
    r6.check("x0,y0,x1,y1=o" in spr and "returnfloatx0,floaty0,floatx1,floaty1" in spr and any(isinstance(h, ast.ExceptHandler) and h.type is not None and {"ValueError", "TypeError"} <= {unparse(e) for e in (h.type.elts if isinstance(h.type, ast.Tuple) else [h.type])} for h in ast.walk(pr.node)) and "raisePDFValueError'Couldnotparserectangle'" in spr, site(pr), pr.qualname, "(x0, y0, x1, y1) = o; floats in that order", why="parse_rect changed")


def _objid_name(dfs: FuncInfo) -> str:
    for n in walk_no_nested(dfs.node):
        if isinstance(n, ast.Assign) and isinstance(n.targets[0], ast.Name) and unparse(n.value) == dfs.params[0]:
            return n.targets[0].id
    return "object_id"


def _selection(model: Model, rep: Report) -> None:
    r2 = rep.rule("C04-R2", "ORDER", "page selection: the maxpages limit is tested on every path through the selection loop, with the threshold of the page about to follow", 3)
    gp = model.func(PG + ".get_pages")
    loop = None
    for n in walk_no_nested(gp.node):
        if isinstance(n, ast.For) and "enumerate(" in unparse(n.iter) and "create_pages" in unparse(n.iter):
            loop = n
    if loop is None:
        raise AnchorMissing("get_pages: enumerate(create_pages(...)) loop not found")
    idx = unparse(loop.target.elts[0]) if isinstance(loop.target, ast.Tuple) else ""
    pagev = unparse(loop.target.elts[1]) if isinstance(loop.target, ast.Tuple) else ""
    lim = gp.params[3] if len(gp.params) > 3 else "maxpages"
    sel = gp.params[2] if len(gp.params) > 2 else "pagenos"
    r2.check("enumerate(cls.create_pages(doc))" == unparse(loop.iter).replace(" ", ""), site(gp, loop), gp.qualname, "pages are numbered from 0 in document order (enumerate(create_pages(doc)))", why=unparse(loop.iter))
    fn = ast.FunctionDef(name="_body", args=gp.node.args, body=loop.body, decorator_list=[], lineno=loop.lineno, col_offset=0)  # type: ignore[attr-defined]
    g = build_cfg(fn, exc_edges=False)
    se = SymEval(opaque_ok=True)

    def limit_k(test: ast.AST) -> Optional[Fraction]:
        """For a test `maxpages and maxpages <= pageno + k` (any spelling) return k, else None."""
        parts = bool_operands(test, ast.And)
        for p in parts:
            if isinstance(p, ast.Compare) and len(p.ops) == 1:
                try:
                    (l, op, r), = canon_compare(p)
                except ValueError:
                    continue
                try:
                    lp, rp = se.expr(ast.parse(l, mode="eval").body, {}), se.expr(ast.parse(r, mode="eval").body, {})
                except NotPolynomial:
                    continue
                d = rp - lp  # r - l
                # want:  maxpages <= pageno + k   <=>  0 <= pageno - maxpages + k
                base = Poly.var(idx) - Poly.var(lim)
                rest = d - base
                if isinstance(rest, Poly) and rest.is_const():
                    k = rest.const_value()
                    if op == "<":
                        k = k - 1
                    elif op != "<=":
                        continue
                    return k
        return None

    tests = {n.id: limit_k(n.ast) for n in g.nodes if n.kind == "test" and n.ast is not None}
    tests = {k: v for k, v in tests.items() if v is not None}
    # every path from body entry to body exit (= next iteration) or a `break` passes a limit test
    wit = g.all_path_pass(g.entry, lambda n: n.id in tests)
    if wit is not None:
        conds = [unparse(g.nodes[i].ast) for i in wit if g.nodes[i].kind == "test" and g.nodes[i].ast is not None]
        r2.violation(site(gp, loop), gp.qualname, "a path through the selection loop bypasses the page limit", f"path through tests {conds} reaches the next iteration without comparing {lim} with the page index: with page_numbers={{0,5}} and maxpages=3 page 5 is produced")
    else:
        r2.ok(site(gp, loop), gp.qualname, "every path through the selection loop tests the page limit")
    # threshold: a test reached after the page was yielded or skipped must break when maxpages <= pageno + 1;
    # a test before the yield on the same path must use maxpages <= pageno
    ynodes = [n.id for n in g.nodes if n.kind == "stmt" and n.ast is not None and any(isinstance(x, ast.Yield) for x in ast.walk(n.ast))]
    dom = g.dominators()
    bad = []
    for tid, k in tests.items():
        after_or_skip = True
        if ynodes:
            y = ynodes[0]
            # test that can still reach the yield afterwards is "before the yield"
            reach = g.reachable(tid)
            after_or_skip = y not in reach
        want = Fraction(1) if after_or_skip else Fraction(0)
        # the true edge of the test must leave the loop (break)
        brk = any(lab == "true" and isinstance(g.nodes[m].ast, ast.Break) for (m, lab) in g.succ[tid])
        if k != want or not brk:
            bad.append(f"`{unparse(g.nodes[tid].ast)}` (k={k}, want {want}, breaks={brk})")
    r2.check(bool(tests) and not bad, site(gp, loop), gp.qualname, f"the loop stops once the next index would reach {lim} ({lim} <= {idx} + 1 after a page was produced or skipped)", why="; ".join(bad) or "no limit test")
    # the filter: skip iff pagenos and pageno not in pagenos
    filt = [n for n in g.nodes if n.kind == "test" and n.ast is not None and unparse(n.ast).replace(" ", "").replace("(", "").replace(")", "") == f"{sel}and{idx}notin{sel}"]
    yld_ok = bool(ynodes) and unparse(g.nodes[ynodes[0]].ast.value.value) == pagev  # type: ignore[attr-defined]
    r2.check(bool(filt) and yld_ok, site(gp, loop), gp.qualname, "a page is produced iff no selection is given or its zero-based index is selected", why="selection test or yield changed")


def _page_ctm(model: Model, rep: Report) -> None:
    r4 = rep.rule("C04-R4", "LAW", "page CTM per Rotate: clockwise rotation whose image of the MediaBox has its corner at the origin (polynomial identities)", 5)
    pp = model.func("pdfminer.pdfinterp.PDFPageInterpreter.process_page")
    inner = SymEval(opaque_ok=False)
    from .c20 import _special_cases

    apf = model.func("pdfminer.utils.apply_matrix_pt")
    gen_fn, probs = _special_cases(apf.node, inner)
    for pr in probs:
        r4.violation(site(apf), apf.qualname, "apply_matrix_pt: special-case branch", pr)
    appt = inner.function(gen_fn)  # type: ignore[arg-type]
    se = SymEval(opaque_ok=False)
    x0, y0, x1, y1 = (Poly.var(n) for n in ("x0", "y0", "x1", "y1"))
    # names bound from page.mediabox
    names = None
    for n in walk_no_nested(pp.node):
        if isinstance(n, ast.Assign) and unparse(n.value) == "page.mediabox" and isinstance(n.targets[0], ast.Tuple):
            names = [unparse(e) for e in n.targets[0].elts]
    if not names or len(names) != 4:
        raise AnchorMissing("process_page: (x0, y0, x1, y1) = page.mediabox not found")
    env = dict(zip(names, (x0, y0, x1, y1)))
    W, Hh = x1 - x0, y1 - y0
    zero = Poly.const(0)
    lin = {0: (1, 0, 0, 1), 90: (0, -1, 1, 0), 180: (-1, 0, 0, -1), 270: (0, 1, -1, 0)}
    branches: Dict[int, ast.AST] = {}
    chain = [n for n in pp.node.body if isinstance(n, ast.If)]  # type: ignore[attr-defined]
    cur = chain[0] if chain else None
    while isinstance(cur, ast.If):
        t = cur.test
        if isinstance(t, ast.Compare) and unparse(t.left) == "page.rotate" and isinstance(t.ops[0], ast.Eq) and isinstance(t.comparators[0], ast.Constant):
            asg = [s for s in cur.body if isinstance(s, ast.Assign) and unparse(s.targets[0]) == "ctm"]
            if asg:
                branches[t.comparators[0].value] = asg[0].value
        if len(cur.orelse) == 1 and isinstance(cur.orelse[0], ast.If):
            cur = cur.orelse[0]
        else:
            asg = [s for s in cur.orelse if isinstance(s, ast.Assign) and unparse(s.targets[0]) == "ctm"]
            if asg:
                branches[0] = asg[0].value
            cur = None
    for ang in (0, 90, 180, 270):
        if ang not in branches:
            r4.violation(site(pp), pp.qualname, f"Rotate {ang}: CTM branch", "branch not found")
            continue
        try:
            m = se.expr(branches[ang], env)
        except NotPolynomial as ex:
            r4.violation(site(pp, branches[ang]), pp.qualname, f"Rotate {ang}: CTM", f"not polynomial: {ex}")
            continue
        okl = tuple(m[:4]) == tuple(Poly.const(v) for v in lin[ang])
        corners = [(x0, y0), (x1, y0), (x1, y1), (x0, y1)]
        imgs = {appt(m, c) for c in corners}
        bw, bh = (Hh, W) if ang in (90, 270) else (W, Hh)
        want = {(zero, zero), (bw, zero), (zero, bh), (bw, bh)}
        r4.check(okl and imgs == want, site(pp, branches[ang]), pp.qualname, f"Rotate {ang}: linear part {lin[ang]} (clockwise), MediaBox corners -> {{0,{'H' if ang in (90, 270) else 'W'}}} x {{0,{'W' if ang in (90, 270) else 'H'}}}", why=f"matrix {m!r}; corner images {sorted(map(repr, imgs))}")
    # bracket: begin_page(page, ctm) ; render_contents(page.resources, page.contents, ctm=ctm) ; end_page(page)
    from .interp import calls_in_order

    ok, why = calls_in_order(pp, ["self.device.begin_page", "self.render_contents", "self.device.end_page"])
    calls = {(dotted(c.func) or ""): c for c in walk_no_nested(pp.node) if isinstance(c, ast.Call)}
    rc = calls.get("self.render_contents")
    okb = ok and rc is not None and [unparse(a) for a in rc.args] == ["page.resources", "page.contents"] and {k.arg: unparse(k.value) for k in rc.keywords} == {"ctm": "ctm"} and [unparse(a) for a in calls["self.device.begin_page"].args] == ["page", "ctm"]
    r4.check(okb, site(pp), pp.qualname, "begin_page(page, ctm); render_contents(page.resources, page.contents, ctm=ctm); end_page(page)", why=why or "arguments changed")
    bp = model.func("pdfminer.converter.PDFLayoutAnalyzer.begin_page")
    src = unparse(bp.node).replace(" ", "")
    okp = "=apply_matrix_rect(ctm,page.mediabox)" in src and "(0,0,abs(x0-x1),abs(y0-y1))" in src and "LTPage(self.pageno,mediabox)" in src
    r4.check(okp, site(bp), bp.qualname, "the page box is (0, 0, |dx|, |dy|) of the transformed MediaBox", why="page box computation changed")


def _ordered_corners(model: Model, rep: Report) -> None:
    """C04-R4 proves the corner images are {0, W} x {0, H} with W = x1 - x0, H = y1 - y0: that is a box with its corner at the
    origin only when W, H >= 0.  A PDF rectangle may be written from any two opposite corners (7.9.5), so the coordinates that
    enter the matrices have to be put in order first."""
    r = rep.rule("C04-R8", "NORMFORM", "the MediaBox corners are put in order (min/max per axis) before the page CTM is built from them", 2)
    pp = model.func("pdfminer.pdfinterp.PDFPageInterpreter.process_page")
    names = None
    unpack = None
    for n in walk_no_nested(pp.node):
        if isinstance(n, ast.Assign) and unparse(n.value) == "page.mediabox" and isinstance(n.targets[0], ast.Tuple):
            names = [unparse(e) for e in n.targets[0].elts]
            unpack = n
    if not names or len(names) != 4 or unpack is None:
        raise AnchorMissing("process_page: (x0, y0, x1, y1) = page.mediabox not found")
    ctm_first = min((n.lineno for n in walk_no_nested(pp.node) if isinstance(n, ast.Assign) and unparse(n.targets[0]) == "ctm"), default=None)
    if ctm_first is None:
        raise AnchorMissing("process_page: no assignment to ctm")

    def ordered(lo: str, hi: str) -> bool:
        # lo is bound to min(lo, hi) and hi to max(lo, hi) (or the pair to sorted(...)) by top-level statements between the
        # unpacking and the first matrix
        got_lo = got_hi = False
        for st in pp.node.body:  # type: ignore[attr-defined]
            if not (isinstance(st, ast.Assign) and unpack.lineno < st.lineno < ctm_first):
                continue
            tg = st.targets[0]
            pairs = list(zip(tg.elts, st.value.elts)) if isinstance(tg, ast.Tuple) and isinstance(st.value, ast.Tuple) and len(tg.elts) == len(st.value.elts) else [(tg, st.value)]
            if isinstance(tg, ast.Tuple) and [unparse(e) for e in tg.elts] == [lo, hi] and isinstance(st.value, ast.Call) and (dotted(st.value.func) or "") == "sorted" and len(st.value.args) == 1 and isinstance(st.value.args[0], (ast.Tuple, ast.List)) and sorted(unparse(e) for e in st.value.args[0].elts) == sorted([lo, hi]) and not st.value.keywords:
                return True
            for t, v in pairs:
                if isinstance(v, ast.Call) and (dotted(v.func) or "") in ("min", "max") and not v.keywords:
                    args = v.args[0].elts if len(v.args) == 1 and isinstance(v.args[0], (ast.Tuple, ast.List)) else v.args
                    if sorted(unparse(a) for a in args) == sorted([lo, hi]):
                        if unparse(t) == lo and dotted(v.func) == "min":
                            got_lo = True
                        if unparse(t) == hi and dotted(v.func) == "max":
                            got_hi = True
        return got_lo and got_hi

    for lo, hi, axis in ((names[0], names[2], "x"), (names[1], names[3], "y")):
        r.check(ordered(lo, hi), site(pp, unpack), pp.qualname, f"{axis}: {lo} <= {hi} where the matrices are built ({lo} = min, {hi} = max of the two)", why=f"`{lo}` and `{hi}` go into the page CTM as the document wrote them: for a MediaBox written from the other pair of corners (e.g. [200 100 0 0]) the page content lands outside the page box")


def _selection_breaks(model: Model, rep: Report) -> None:
    r = rep.rule("C04-R7", "GUARD", "page selection: the walk over the pages ends early only on the page limit (maxpages) - never on an assumption about the order in which the requested page numbers are given", 2)
    from ..util import guard_conjuncts

    f = model.func("pdfminer.pdfpage.PDFPage.get_pages")
    brk = [n for n in walk_no_nested(f.node) if isinstance(n, (ast.Break, ast.Return))]
    if not brk:
        raise AnchorMissing("get_pages: no break")
    for b in brk:
        g = guard_conjuncts(f, b)
        lim = {x for x in g if "maxpages" in x}
        other = sorted(x for x in g - lim if x not in ("pagenos", "pagenonotinpagenos"))
        r.check(bool(lim) and not other, site(f, b), f.qualname, f"`{unparse(b)}` is taken under the page limit only ({sorted(g)})", why=f"conditions {other or sorted(g)}: the loop can stop before every requested page was produced (page numbers may come in any order, or as a set)")

"""C02 - cross-reference resolution: newest definition wins, in every physical form."""

from __future__ import annotations

import ast
from typing import Dict, List, Optional, Set, Tuple

from ..cfg import build_cfg, contains_call
from ..model import AnchorMissing, FuncInfo, Model, dotted, unparse, walk_no_nested
from ..norm import canon_compare
from ..report import Report
from ..util import bool_operands, site

D = "pdfminer.pdfdocument."
DOC = D + "PDFDocument"


def run(model: Model, rep: Report) -> None:
    rep.explanation = (
        "C02: decides the structural part of cross-reference resolution: sections are appended newest first (the section just loaded dominates "
        "the descent into XRefStm and Prev), lookup stops at the first section that defines the object, the two readers of a cross-reference "
        "stream agree that entries of all ranges are stored back to back, every failure exit of the classic loader raises the exception that "
        "engages the body-scan fallback, and the object-stream member index is bound to the xref entry. Equality of answers across physical "
        "forms and buffer sizes is not decided."
    )
    _absence_signal(model, rep)
    # ---------------------------------------------------------------- R1
    r1 = rep.rule("C02-R1", "ORDER", "sections are collected newest first: append dominates the descent; XRefStm is followed before Prev", 4)
    rx = model.func(DOC + ".read_xref_from")
    g = build_cfg(rx.node, exc_edges=False)
    dom = g.dominators()
    lst = rx.params[3] if len(rx.params) > 3 else "xrefs"
    app = [n.id for n in g.nodes if n.kind == "stmt" and n.ast is not None and contains_call(n.ast, lambda c: (dotted(c.func) or "") == f"{lst}.append")]
    ins = [n for n in walk_no_nested(rx.node) if isinstance(n, ast.Call) and (dotted(n.func) or "") in (f"{lst}.insert", f"{lst}.extend")]
    recs = [n.id for n in g.nodes if n.kind == "stmt" and n.ast is not None and contains_call(n.ast, lambda c: (dotted(c.func) or "") == "self.read_xref_from")]
    ok = len(app) == 1 and not ins and len(recs) == 2 and all(app[0] in dom[r] for r in recs)
    r1.check(ok, site(rx), rx.qualname, "the section just loaded is appended to the list before any older section is read", why=f"append nodes={len(app)} inserts={len(ins)} recursive calls={len(recs)}; append must dominate the recursion")
    # which key guards which recursion, and their order
    keyed: List[Tuple[str, int]] = []
    for n in g.nodes:
        if n.kind == "test" and n.ast is not None and isinstance(n.ast, ast.Compare) and isinstance(n.ast.ops[0], ast.In) and isinstance(n.ast.left, ast.Constant):
            keyed.append((n.ast.left.value, n.id))
    order = [k for k, _ in sorted(keyed, key=lambda kv: g.nodes[kv[1]].lineno)]
    okk = order == ["XRefStm", "Prev"] and keyed and dict(keyed)["XRefStm"] in dom[dict(keyed)["Prev"]]
    r1.check(bool(okk), site(rx), rx.qualname, "a hybrid section's XRefStm is read before the previous revision (Prev)", why=f"trailer keys followed in order {order}")
    # the offsets come from the trailer keys
    offs = {}
    for n in walk_no_nested(rx.node):
        if isinstance(n, ast.If) and isinstance(n.test, ast.Compare) and isinstance(n.test.left, ast.Constant):
            key = n.test.left.value
            src = " ".join(unparse(s) for s in n.body)
            offs[key] = f"int_value(trailer['{key}'])" in src and f"self.read_xref_from(parser, pos, {lst})" in src
    r1.check(offs.get("XRefStm") and offs.get("Prev"), site(rx), rx.qualname, "the older sections are read at int_value(trailer[key]) into the same list", why=f"{offs}")
    init = model.func(DOC + ".__init__")
    go = model.func(DOC + ".getobj")
    isrc = unparse(init.node)
    loops = [n for n in walk_no_nested(go.node) if isinstance(n, ast.For) and unparse(n.iter) == "self.xrefs"]
    r1.check("self.read_xref_from(parser, pos, self.xrefs)" in isrc and len(loops) == 1, site(init), init.qualname, "the list filled newest-first is the one getobj walks front to back", why="list plumbing changed")

    # ---------------------------------------------------------------- R2
    r2 = rep.rule("C02-R2", "ORDER", "first hit wins: lookup stops at the first section defining the object; trailer keys come from the newest section that has them", 4)
    if loops:
        lp = loops[0]
        fn = ast.FunctionDef(name="_body", args=go.node.args, body=lp.body, decorator_list=[], lineno=lp.lineno, col_offset=0)  # type: ignore[attr-defined]
        gb = build_cfg(fn, exc_edges=True)
        # continue only from inside except handlers
        conts = [n for n in walk_no_nested(lp) if isinstance(n, ast.Continue)]
        in_handlers = [c for h in walk_no_nested(lp) if isinstance(h, ast.ExceptHandler) for c in walk_no_nested(h) if isinstance(c, ast.Continue)]
        r2.check(len(conts) == len(in_handlers) and len(conts) >= 1, site(go, lp), go.qualname, "the next (older) section is consulted only after a lookup/parse failure", why=f"{len(conts) - len(in_handlers)} `continue` outside an except handler")
        # normal completion of the body (no exception) ends in break
        wit = gb.all_path_pass(gb.entry, lambda n: isinstance(n.ast, ast.Break), skip_labels=("exc",))
        r2.check(wit is None, site(go, lp), go.qualname, "a successful lookup leaves the loop (break): older definitions are not consulted", why="a path through the loop body without exception reaches the next iteration")
        okelse = bool(lp.orelse) and any(isinstance(s, ast.Raise) and "PDFObjectNotFound" in unparse(s) for s in lp.orelse)
        r2.check(okelse, site(go, lp), go.qualname, "no section defines the object -> PDFObjectNotFound", why="for/else raise missing")
    tl = [n for n in walk_no_nested(init.node) if isinstance(n, ast.For) and unparse(n.iter) == "self.xrefs"]
    okt = False
    if tl:
        roots = [n for n in walk_no_nested(tl[0]) if isinstance(n, ast.If) and unparse(n.test).replace(" ", "") == "'Root'intrailer"]
        okt = bool(roots) and any(isinstance(s, ast.Break) for s in roots[0].body) and any("self.catalog = dict_value(trailer['Root'])" == unparse(s) for s in roots[0].body)
    r2.check(okt, site(init), init.qualname, "the catalog is the /Root of the first (newest) section that has one", why="trailer loop changed")

    # ---------------------------------------------------------------- R3
    _xrefstream(model, rep)
    # ---------------------------------------------------------------- R4
    _fallback(model, rep)
    # ---------------------------------------------------------------- R7
    _revreadlines(model, rep)
    # ---------------------------------------------------------------- R8
    cache_writers_rule(model, rep, "C02-R8")
    # ---------------------------------------------------------------- R9 (shared with C03-R9): the classic table is read line by line
    from .tokenizer import refill_before_read_rule

    refill_before_read_rule(model, rep, "C02-R9", model.func("pdfminer.psparser.PSBaseParser.nextline"))
    _classic_entries(model, rep)
    # ---------------------------------------------------------------- R6
    r6 = rep.rule("C02-R6", "BIND", "object-stream member lookup: objs[N*2 + index] with index from the xref entry; xref-stream entry fields", 4)
    om = model.func(DOC + "._getobj_objstm")
    src = unparse(om.node).replace(" ", "")
    from ..norm import NotPolynomial, Poly, SymEval

    idx_ok = False
    for a in walk_no_nested(om.node):
        if isinstance(a, ast.Assign) and unparse(a.targets[0]) == "i":
            try:
                idx_ok = SymEval(opaque_ok=False).expr(a.value, {}) == Poly.const(2) * Poly.var("n") + Poly.var(om.params[2])
            except NotPolynomial:
                idx_ok = False
    r6.check(idx_ok and "objs[i]" in src and om.params[1:4] == ["stream", "index", "objid"], site(om), om.qualname, "member = objs[n*2 + index] (after the N pairs of the header)", why="index computation changed")
    gsrc = unparse(go.node).replace(" ", "")
    r6.check("strmid,index,genno=xref.get_pos(objid)" in gsrc.replace("(strmid,index,genno)", "strmid,index,genno") and "self._getobj_objstm(stream,index,objid)" in gsrc and "stream_value(self.getobj(strmid))" in gsrc, site(go), go.qualname, "getobj passes the entry's (stream id, index) to the object-stream lookup", why="binding changed")
    gp = model.func(D + "PDFXRefStream.get_pos")
    psrc = unparse(gp.node).replace(" ", "")
    okf = "f1=nunpack(ent[:self.fl1],1)" in psrc and "f2=nunpack(ent[self.fl1:self.fl1+self.fl2])" in psrc and "f3=nunpack(ent[self.fl1+self.fl2:])" in psrc
    r6.check(okf, site(gp), gp.qualname, "entry fields: type (default 1), field 2, field 3 sliced by the /W widths", why="field slicing changed")
    rets = {}
    for n in walk_no_nested(gp.node):
        if isinstance(n, ast.If) and isinstance(n.test, ast.Compare) and unparse(n.test.left) == "f1":
            cur: Optional[ast.stmt] = n
            while isinstance(cur, ast.If):
                k = unparse(cur.test.comparators[0]) if isinstance(cur.test, ast.Compare) else "?"
                r = [unparse(s.value).replace(" ", "") for s in cur.body if isinstance(s, ast.Return)]
                rets[k] = r[0] if r else ("raise" if any(isinstance(s, ast.Raise) for s in cur.body) else "")
                if len(cur.orelse) == 1 and isinstance(cur.orelse[0], ast.If):
                    cur = cur.orelse[0]
                else:
                    rets["else"] = "raise" if any(isinstance(s, ast.Raise) for s in cur.orelse) else ""
                    cur = None
            break
    r6.check(rets.get("1") == "(None,f2,f3)" and rets.get("2") == "(f2,f3,0)" and rets.get("else") == "raise", site(gp), gp.qualname, "type 1 -> (None, offset, generation); type 2 -> (stream id, index, 0); free -> KeyError", why=f"{rets}")


def _xrefstream(model: Model, rep: Report) -> None:
    r3 = rep.rule("C02-R3", "DEPEND", "cross-reference stream: entries of all /Index ranges are stored back to back - both readers index with a counter carried across ranges", 3)
    for name in ("get_pos", "get_objids"):
        f = model.func(D + "PDFXRefStream." + name)
        outer = [n for n in walk_no_nested(f.node) if isinstance(n, ast.For) and unparse(n.iter) == "self.ranges"]
        if not outer:
            r3.violation(site(f), f.qualname, "loop over self.ranges", "not found")
            continue
        lp = outer[0]
        size = unparse(lp.target.elts[1]) if isinstance(lp.target, ast.Tuple) and len(lp.target.elts) == 2 else ""
        offs = [n for n in walk_no_nested(f.node) if isinstance(n, ast.Assign) and unparse(n.targets[0]) == "offset"]
        if not offs:
            r3.violation(site(f), f.qualname, "offset = self.entlen * <entry number>", "offset computation not found")
            continue
        v = offs[0].value
        txt = unparse(v).replace(" ", "")
        ok_shape = isinstance(v, ast.BinOp) and isinstance(v.op, ast.Mult) and "self.entlen" in (unparse(v.left), unparse(v.right))
        k = v.right if ok_shape and unparse(v.left) == "self.entlen" else (v.left if ok_shape else v)
        names = {n.id for n in ast.walk(k) if isinstance(n, ast.Name)}
        # a running counter: initialised before the ranges loop, increased inside it by the range size
        running = set()
        for nm in names:
            init_before = any(isinstance(n, ast.Assign) and unparse(n.targets[0]) == nm and n.lineno < lp.lineno for n in walk_no_nested(f.node))
            bumped = any(isinstance(n, ast.AugAssign) and unparse(n.target) == nm and isinstance(n.op, ast.Add) and n.lineno > lp.lineno for n in walk_no_nested(lp))
            if init_before and bumped:
                running.add(nm)
        if ok_shape and running:
            bumps = [unparse(n.value).replace(" ", "") for n in walk_no_nested(lp) if isinstance(n, ast.AugAssign) and unparse(n.target) in running]
            whole = any(b == size for b in bumps) or any(b == "1" for b in bumps)
            r3.check(whole, site(f, offs[0]), f.qualname, f"{name}: entry number `{unparse(k)}` uses the running counter {sorted(running)} carried across ranges", why=f"counter updates {bumps} do not add the range size `{size}`")
        else:
            r3.violation(site(f, offs[0]), f.qualname, f"{name}: entry number `{unparse(k)}` restarts at 0 in every range", "entries of the second and later /Index ranges are read from the start of the stream: with /Index [0 2 10 2] objects 10, 11 are judged by entries 0, 1")
    # both readers decode the entry type the same way: first field, default 1 when its width is 0 (7.5.8.2)
    tf = {}
    for name in ("get_pos", "get_objids"):
        f = model.func(D + "PDFXRefStream." + name)
        a = [n for n in walk_no_nested(f.node) if isinstance(n, ast.Assign) and unparse(n.targets[0]) == "f1"]
        tf[name] = ("".join(unparse(a[0].value).split()) if a else None, f, a[0] if a else None)
    for name, (txt, f, node) in tf.items():
        r3.check(txt == "nunpack(ent[:self.fl1],1)", site(f, node) if node is not None else site(f), f.qualname, f"{name}: entry type = nunpack(first field, default 1)", why=f"type field read as `{txt}`: with /W [0 ...] the type defaults to 1 (in use); without the default every entry of such a stream counts as free")
    gp = model.func(D + "PDFXRefStream.get_pos")
    tests = [n for n in walk_no_nested(gp.node) if isinstance(n, ast.If) and "objid" in unparse(n.test) and "start" in unparse(n.test)]
    okm = False
    if tests:
        try:
            got = set()
            for p in bool_operands(tests[0].test, ast.And):
                got |= set(canon_compare(p))
            okm = got == {("start", "<=", "objid"), ("objid", "<", "start + nobjs")}
        except ValueError:
            okm = False
    r3.check(okm, site(gp), gp.qualname, "a range [start, start + n) contains objid iff start <= objid < start + n", why="membership test changed")


def _fallback(model: Model, rep: Report) -> None:
    r4 = rep.rule("C02-R4", "EXC", "every failure exit of the classic loader raises PDFNoValidXRef, whose handler engages the body scan", 8)
    nv = D + "PDFNoValidXRef"
    for q in (DOC + ".find_xref", DOC + ".read_xref_from", D + "PDFXRef.load", D + "PDFXRef.load_trailer"):
        f = model.func(q)
        for n in walk_no_nested(f.node):
            if isinstance(n, ast.Raise) and n.exc is not None:
                cls = model.resolve_expr(f.module, n.exc.func if isinstance(n.exc, ast.Call) else n.exc, f.cls) or "?"
                ok = cls in model.classes and model.is_subclass(cls, nv)
                r4.check(ok, site(f, n), f.qualname, " ".join(unparse(n).split())[:120], why=f"raises {cls.split('.')[-1]}, which PDFDocument.__init__ does not route to the body-scan fallback")
            if isinstance(n, ast.Assert):
                r4.violation(site(f, n), f.qualname, " ".join(unparse(n).split())[:120], "a damaged table trips an assert: AssertionError is not routed to the body-scan fallback")
    # running out of input while a cross-reference section is being read is "no valid xref" too: every tokenizer call of the
    # loaders sits in a try whose PSEOF handler raises PDFNoValidXRef (or recovers)
    for q in (DOC + ".read_xref_from", D + "PDFXRef.load", D + "PDFXRef.load_trailer", D + "PDFXRefStream.load"):
        f = model.func(q)
        for c in walk_no_nested(f.node):
            if not (isinstance(c, ast.Call) and (dotted(c.func) or "") in ("parser.nexttoken", "parser.nextobject", "parser.nextline")):
                continue
            covered = False
            for t in walk_no_nested(f.node):
                if isinstance(t, ast.Try) and any(x is c for st_ in t.body for x in ast.walk(st_)):
                    for h in t.handlers:
                        if h.type is not None and "PSEOF" in unparse(h.type):
                            covered = True
            r4.check(covered, site(f, c), f.qualname, f"`{unparse(c)}` runs under an `except PSEOF` handler", why="PSEOF (end of input) escapes the loader: it is not a PDFNoValidXRef, so PDFDocument.__init__ does not fall back to scanning the body - e.g. a startxref offset that points at an integer near the end of the file")
    init = model.func(DOC + ".__init__")
    hs = [h for n in walk_no_nested(init.node) if isinstance(n, ast.Try) for h in n.handlers if h.type is not None and "PDFNoValidXRef" in unparse(h.type)]
    okh = False
    if hs:
        src = [unparse(s) for s in ast.walk(ast.Module(body=hs[0].body, type_ignores=[])) if isinstance(s, (ast.Assign, ast.Expr))]
        want = ["parser.fallback = True", "newxref = PDFXRefFallback()", "newxref.load(parser)", "self.xrefs.append(newxref)"]
        idx = [src.index(w) if w in src else -1 for w in want]
        okh = all(i >= 0 for i in idx) and idx == sorted(idx)
    r4.check(okh, site(init), init.qualname, "handler: parser.fallback = True, then PDFXRefFallback().load(parser), then the section is registered", why="fallback engagement changed")
    # try covers both find_xref and read_xref_from
    tr = [n for n in walk_no_nested(init.node) if isinstance(n, ast.Try) and any(h in n.handlers for h in hs)]
    cov = bool(tr) and "self.find_xref(parser)" in unparse(ast.Module(body=tr[0].body, type_ignores=[])) and "self.read_xref_from(parser, pos, self.xrefs)" in unparse(ast.Module(body=tr[0].body, type_ignores=[]))
    r4.check(cov, site(init), init.qualname, "both locating startxref and loading the sections run under the PDFNoValidXRef handler", why="a loader call moved out of the try")
    dk = model.func("pdfminer.pdfparser.PDFParser.do_keyword")
    ext = [n for n in walk_no_nested(dk.node) if isinstance(n, ast.AugAssign) and unparse(n.target) == "data"]
    from .tokenizer import _guard_tests

    okd = bool(ext) and all(any(pol and unparse(t) == "self.fallback" for t, pol in _guard_tests(dk, e)) for e in ext)
    r4.check(okd, site(dk), dk.qualname, "stream data is extended by scanned lines only in fallback mode", why="data += ... outside `if self.fallback`")
    apps = sorted("".join(unparse(e.value).split()) for e in ext)
    r4.check(apps == ["line", "line[:i]"], site(dk), dk.qualname, "in fallback mode every scanned line is appended, and of the line holding `endstream` the part before the keyword", why=f"appends {apps}: data that shares its line with `endstream` (no end-of-line before the keyword) would be lost when the body is scanned")
    ln = [n for n in walk_no_nested(dk.node) if isinstance(n, ast.Assign) and unparse(n.targets[0]) == "objlen" and "int_value" in unparse(n.value)]
    okl = bool(ln) and any(((not pol) and unparse(t) == "self.fallback") or (pol and unparse(t) == "not self.fallback") for t, pol in _guard_tests(dk, ln[0]))
    r4.check(okl, site(dk), dk.qualname, "/Length is trusted unless in fallback mode", why="Length read moved")


def _revreadlines(model: Model, rep: Report) -> None:
    r7 = rep.rule("C02-R7", "PARTITION", "backward line reader: chunks tile the file, every chunk is split exactly at its line breaks, the not-found sentinel is compared exactly", 4)
    f = model.func("pdfminer.psparser.PSBaseParser.revreadlines")
    src = "".join(unparse(f.node).split())
    # contiguous chunks: prevpos = pos; pos = max(0, pos - BUFSIZ); seek(pos); read(prevpos - pos)
    r7.check("prevpos=pospos=max(0,pos-self.BUFSIZ)self.fp.seek(pos)s=self.fp.read(prevpos-pos)" in src, site(f), f.qualname, "each chunk is [max(0, pos - BUFSIZ), pos): consecutive chunks tile the file backwards", why="chunk arithmetic changed")
    # sentinel discipline: a find/rfind result may only be compared with -1 / tested < 0 / >= 0
    found = {}
    for n in walk_no_nested(f.node):
        if isinstance(n, ast.Assign) and isinstance(n.targets[0], ast.Name) and any(isinstance(c, ast.Call) and isinstance(c.func, ast.Attribute) and c.func.attr in ("find", "rfind") for c in ast.walk(n.value)):
            found[n.targets[0].id] = n
    nchecked = 0
    for n in walk_no_nested(f.node):
        if isinstance(n, ast.Compare) and any(isinstance(x, ast.Name) and x.id in found for x in [n.left] + list(n.comparators)):
            try:
                (l, op, r), = canon_compare(n)
            except ValueError:
                continue
            nchecked += 1
            ok = (l, op, r) in [(v, "==", "-1") for v in found] + [("-1", "==", v) for v in found] + [(v, "!=", "-1") for v in found] + [("-1", "!=", v) for v in found] + [(v, "<", "0") for v in found] + [("0", "<=", v) for v in found] + [("-1", "<", v) for v in found] + [(v, "<=", "-1") for v in found]
            r7.check(ok, site(f, n), f.qualname, f"`{unparse(n)}`: position from find/rfind is only compared with the not-found value -1", why="position 0 (a line break at the very start of a chunk) is treated as 'not found': the line is glued to its neighbour and startxref is missed for some buffer sizes")
    if nchecked == 0:
        r7.violation(site(f), f.qualname, "not-found test of the line-break search", "no comparison of the rfind result found")
    # exact split: yield s[n:] + buf ; s = s[:n] ; buf = b'' / buf = s + buf
    nv = next(iter(found), "n")
    ok = (f"yields[{nv}:]+buf" in src or f"yield(s[{nv}:]+buf)" in src) and f"s=s[:{nv}]" in src and "buf=b''" in src and "buf=s+buf" in src
    r7.check(ok, site(f), f.qualname, "a chunk is cut at the last line break: the tail (plus what was carried) is yielded, the head is kept, nothing is lost or repeated", why="split changed")
    fx = model.func(DOC + ".find_xref")
    s2 = "".join(unparse(fx.node).split())
    r7.check("forlineinparser.revreadlines():line=line.strip()" in s2 and "ifline==b'startxref':" in s2 and "ifline:prev=line" in s2 and "start=int(prev)" in s2, site(fx), fx.qualname, "the offset is the last non-empty line read before `startxref` when reading backwards", why="find_xref changed")


def cache_writers_rule(model: Model, rep: Report, rid: str) -> None:
    """The newest-section-wins walk lives in getobj; a cache entry written anywhere else, or under another key, can
    answer a later lookup without that walk (e.g. a member of an old object stream that a later update overrides)."""
    from ..rules.c12 import MUTATORS

    r8 = rep.rule(rid, "WRITESET", "object caches are written only by the lookup that owns them, under the key that was looked up: _cached_objs[objid] in getobj (after the section walk), _parsed_objs[stream.objid] in _getobj_objstm", 2)
    want = {"_cached_objs": (DOC + ".getobj", "objid"), "_parsed_objs": (DOC + "._getobj_objstm", "stream.objid")}
    seen = {k: 0 for k in want}
    for q, f in sorted(model.funcs.items()):
        if isinstance(f.node, ast.Lambda):
            continue
        for n in walk_no_nested(f.node):
            hits = []
            if isinstance(n, (ast.Assign, ast.AugAssign, ast.AnnAssign)):
                for t in n.targets if isinstance(n, ast.Assign) else [n.target]:
                    if isinstance(t, ast.Subscript) and isinstance(t.value, ast.Attribute) and t.value.attr in want:
                        hits.append((t.value.attr, unparse(t.slice), "item store"))
                    elif isinstance(t, ast.Attribute) and t.attr in want and f.name != "__init__":
                        hits.append((t.attr, "", "rebinding"))
            elif isinstance(n, ast.Delete):
                for t in n.targets:
                    if isinstance(t, ast.Subscript) and isinstance(t.value, ast.Attribute) and t.value.attr in want:
                        hits.append((t.value.attr, unparse(t.slice), "deletion"))
            elif isinstance(n, ast.Call) and isinstance(n.func, ast.Attribute) and n.func.attr in MUTATORS and isinstance(n.func.value, ast.Attribute) and n.func.value.attr in want:
                hits.append((n.func.value.attr, unparse(n.args[0]) if n.args else "", f".{n.func.attr}()"))
            for (cache, key, how) in hits:
                owner, wkey = want[cache]
                ok = q == owner and key == wkey and how == "item store"
                seen[cache] += 1
                r8.check(ok, site(f, n), q, f"{cache} {how} under `{key}`: {unparse(n)[:70]}", why=f"only {owner.split('.')[-1]} may store into {cache}, and only under `{wkey}`; an entry registered elsewhere is served by getobj before the cross-reference sections are consulted newest first")
    for cache, k in seen.items():
        if k == 0:
            raise AnchorMissing(f"no store into {cache} found")


def _np(node) -> str:
    """Source text without white space and without parentheses (tuple spelling differs between Python versions)."""
    return "".join(unparse(node).split()).replace("(", "").replace(")", "")


def _classic_entries(model: Model, rep: Report) -> None:
    r10 = rep.rule("C02-R10", "BIND", "classic table: subsection `start count`, one entry per object number start..start+count-1, `offset generation n` recorded, `f` skipped; body scan records `N G obj` at its line start and the members of object streams; object streams are parsed completely", 6)
    ld = model.func(D + "PDFXRef.load")
    s1 = _np(ld.node)
    r10.check("start,nobjs=mapint,f" in s1 and "forobjidinrangestart,start+nobjs:" in s1, site(ld), ld.qualname, "a subsection header `start count` covers object numbers start .. start + count - 1", why="subsection loop changed")
    r10.check("pos_b,genno_b,use_b=f" in s1 and "ifuse_b!=b'n':continue" in s1 and "pos_i=safe_intpos_bgenno_i=safe_intgenno_b" in s1 and "self.offsets[objid]=None,pos_i,genno_i" in s1, site(ld), ld.qualname, "an entry `offset generation n` is stored as (None, offset, generation) under its object number; other entries are skipped", why="entry binding changed")
    r10.check("iflenf!=3:" in s1 and "iflenf!=2:" in s1, site(ld), ld.qualname, "entries have three fields, subsection headers two", why="field counts changed")
    gp = model.func(D + "PDFXRef.get_pos")
    r10.check(_np(gp.node).endswith("returnself.offsets[objid]"), site(gp), gp.qualname, "lookup returns the recorded entry (KeyError if the section does not define the object)", why="changed")
    fb = model.func(D + "PDFXRefFallback.load")
    s2 = _np(fb.node)
    cue = model.cls(D + "PDFXRefFallback").attrs.get("PDFOBJ_CUE")
    cue_ok = cue is not None and "".join(unparse(cue).split()) in ("re.compile('^(\\\\d+)\\\\s+(\\\\d+)\\\\s+obj\\\\b')",)
    r10.check("parser.seek0" in s2 and "objid_s,genno_s=m.groups" in s2 and "objid=intobjid_sgenno=intgenno_sself.offsets[objid]=None,pos,genno" in s2 and "forindexinrangen:objid1=objs[index*2]self.offsets[objid1]=objid,index,0" in s2 and "n=minn,lenobjs//2" in s2, site(fb), fb.qualname, "body scan from offset 0: `N G obj` at a line start is recorded at that line's position; members of an object stream are recorded as (stream, index, 0) for index < N", why="body scan changed")
    r10.check(cue_ok, site(fb), fb.qualname, "the object cue is ^(\\d+)\\s+(\\d+)\\s+obj\\b", why=f"cue is {unparse(cue) if cue is not None else None}")
    go = model.func(DOC + "._get_objects")
    s3 = _np(go.node)
    r10.check("n=castint,stream['N']" in s3 and "parser=PDFStreamParserstream.get_data" in s3 and "parser.set_documentself" in s3 and "_,obj=parser.nextobjectobjs.appendobj" in s3 and s3.endswith("returnobjs,n"), site(go), go.qualname, "an object stream is tokenised to its end into one flat list (header pairs, then the objects) with the document attached for references", why="changed")


def _absence_signal(model: Model, rep: Report) -> None:
    r11 = rep.rule("C02-R11", "EXC", "a section that does not define an object (or lists it as free) says so with a KeyError, the one signal on which getobj goes on to the next older section", 3)
    go = model.func(DOC + ".getobj")
    hs = [h for t in walk_no_nested(go.node) if isinstance(t, ast.Try) for h in t.handlers if h.type is not None and unparse(h.type) == "KeyError" and any(isinstance(x, ast.Continue) for x in ast.walk(ast.Module(body=h.body, type_ignores=[])))]
    r11.check(bool(hs), site(go), go.qualname, "getobj: `except KeyError: continue` around xref.get_pos", why="the fall-through to older sections changed")
    for f in model.overrides(D + "PDFBaseXRef", "get_pos"):
        if f.cls is not None and f.cls.qualname == D + "PDFBaseXRef":
            continue
        for n in walk_no_nested(f.node):
            if isinstance(n, ast.Raise) and n.exc is not None:
                cls = model.resolve_expr(f.module, n.exc.func if isinstance(n.exc, ast.Call) else n.exc, f.cls) or "?"
                ok = model.is_subclass(cls, "KeyError") if (cls in model.classes or cls == "KeyError") else False
                r11.check(ok, site(f, n), f.qualname, " ".join(unparse(n).split())[:100], why=f"raises {cls.split('.')[-1]}, which is not a KeyError: getobj stops at this section instead of consulting the older ones, so a free entry in a newer cross-reference stream hides the object's definition in an earlier revision")
    r13 = rep.rule("C02-R13", "GUARD", "cross-reference stream: the default range (0, Size) applies only when /Index is absent - an explicit /Index, also an empty one (an update that defines nothing), is taken as written", 1)
    xl = model.func(D + "PDFXRefStream.load")
    idx = [a for a in walk_no_nested(xl.node) if isinstance(a, (ast.Assign, ast.AnnAssign)) and "'Index'" in unparse(a.value if a.value is not None else ast.Constant(value=0))]
    if not idx:
        raise AnchorMissing("PDFXRefStream.load: /Index lookup not found")
    v13 = idx[0].value
    two_arg_get = isinstance(v13, ast.Call) and isinstance(v13.func, ast.Attribute) and v13.func.attr == "get" and len(v13.args) == 2 and isinstance(v13.args[0], ast.Constant) and v13.args[0].value == "Index"
    r13.check(bool(two_arg_get), site(xl, idx[0]), xl.qualname, "index = stream.get('Index', (0, size))", why=f"`{unparse(v13)[:80]}`: a default chosen by truth value (or by a later test) also replaces an empty /Index, so a revision that defines no objects is read as covering 0..Size-1 and shadows every older definition")
    r14 = rep.rule("C02-R14", "ORDER", "every revision is read: read_xref_from either raises or loads the section at `start` and registers it - there is no way out before `xrefs.append(xref)` (no cap on the number of revisions, no silent return)", 1)
    rx14 = model.func(DOC + ".read_xref_from")
    g14 = build_cfg(rx14.node, exc_edges=False)
    wit14 = g14.all_path_pass(g14.entry, lambda nd: nd.ast is not None and nd.kind == "stmt" and contains_call(nd.ast, lambda c: (dotted(c.func) or "") == "xrefs.append"))
    rets14 = [n for n in walk_no_nested(rx14.node) if isinstance(n, ast.Return)]
    r14.check(wit14 is None and not rets14, site(rx14, rets14[0]) if rets14 else site(rx14), rx14.qualname, "every non-raising path through read_xref_from passes xrefs.append(xref)", why="a path returns (or falls out) before the section is registered: the oldest revisions of a long update history - and with them the catalog and the pages of the original body - are silently dropped")
    r12 = rep.rule("C02-R12", "EXC", "classic table: a line that is neither a subsection header nor a three-field entry invalidates the table (PDFNoValidXRef, which engages the body scan) - it is not skipped", 2)
    ld = model.func(D + "PDFXRef.load")
    tests = [n for n in walk_no_nested(ld.node) if isinstance(n, ast.If) and isinstance(n.test, ast.Compare) and unparse(n.test.left).startswith("len(") and isinstance(n.test.ops[0], ast.NotEq)]
    if len(tests) < 2:
        raise AnchorMissing("PDFXRef.load: field-count tests not found")
    from ..equiv import terminates

    for t in tests:
        last = t.body[-1] if t.body else None
        cls = ""
        if isinstance(last, ast.Raise) and last.exc is not None:
            cls = model.resolve_expr(ld.module, last.exc.func if isinstance(last.exc, ast.Call) else last.exc, ld.cls) or "?"
        ok = isinstance(last, ast.Raise) and cls in model.classes and model.is_subclass(cls, D + "PDFNoValidXRef")
        r12.check(ok, site(ld, t), ld.qualname, f"`if {unparse(t.test)}:` ends in raise PDFNoValidXRef", why="a malformed line is skipped (or signalled otherwise): the damaged table is accepted as a shorter one and the objects it lost are never looked for in the body")


def _chain_both(model: Model, rep: Report) -> None:
    """C02-R15: a hybrid update section has both /XRefStm and /Prev; the stream part is read and the chain goes on.  Each of the
    two recursive reads stands under the presence test of its own key and under nothing else - in particular not under the
    absence of the other key (`elif "Prev" in trailer` ends the chain at the first hybrid section: every older revision is lost)."""
    from ..util import guard_conjuncts

    r = rep.rule("C02-R15", "GUARD", "read_xref_from follows /XRefStm and /Prev independently: each recursive read runs under the presence test of its own key only", 2)
    f = model.func("pdfminer.pdfdocument.PDFDocument.read_xref_from")
    calls = [c for c in walk_no_nested(f.node) if isinstance(c, ast.Call) and (dotted(c.func) or "") == "self.read_xref_from"]
    if len(calls) < 2:
        raise AnchorMissing("read_xref_from: the two recursive reads not found")
    seen = set()
    for c in calls:
        g = guard_conjuncts(f, c)
        keys = [k for k in ("XRefStm", "Prev") if any(f"'{k}'intrailer" in x and not x.startswith("not") for x in g)]
        other = [x for x in g if "intrailer" in x and (x.startswith("not") or "notin" in x)]
        ok = len(keys) == 1 and not other and len(g) == 1
        seen.update(keys)
        r.check(ok, site(f, c), f.qualname, f"recursive read under {sorted(g)}", why=f"conditions {sorted(g)}: the read of one key depends on the other key - a hybrid section with both /XRefStm and /Prev loses its stream part or every earlier revision")
    r.check(seen == {"XRefStm", "Prev"}, site(f), f.qualname, "both /XRefStm and /Prev are followed", why=f"followed: {sorted(seen)}")


_run_r1_r14 = run


def run(model: Model, rep: Report) -> None:  # noqa: F811
    _run_r1_r14(model, rep)
    _chain_both(model, rep)

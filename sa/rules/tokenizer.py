"""Rules on psparser.PSBaseParser shared by C01 and C14."""

from __future__ import annotations

import ast
from typing import Dict, List, Optional, Set, Tuple

from ..callgraph import Resolver
from ..cfg import build_cfg, contains_call
from ..excflow import ExcFlow
from ..fold import Folder, Regex, Unfoldable, byteset_str
from ..fsm import ScannerFSM
from ..model import AnchorMissing, FuncInfo, Model, dotted, unparse, walk_no_nested
from ..report import Report, Rule
from ..util import site

PS = "pdfminer.psparser."
BASE = PS + "PSBaseParser"


def fsm_progress(model: Model, rep: Report, rid: str) -> ScannerFSM:
    r = rep.rule(rid, "FSM", "scanner automaton: every transition classified, zero-advance subgraph acyclic, driver loop progresses", 40)
    fsm = ScannerFSM(model)
    states = set(fsm.scanners)
    ntrans = 0
    for name, sc in fsm.scanners.items():
        f = sc.f
        struct_problems = [p for p in sc.problems if "loop inside" in p[1] or "recursion" in p[1] or "signature" in p[1] or "without returning" in p[1] or "too many" in p[1]]
        if struct_problems:
            for (n, why) in struct_problems:
                r.violation(site(f, n), f.qualname, "scanner is a loop-free, non-reentrant function returning the next index", why)
        else:
            r.ok(site(f), f.qualname, "scanner is a loop-free, non-reentrant function returning the next index")
        for t in sc.transitions:
            ntrans += 1
            construct = f"[{' and '.join(t.conds) or 'always'}] -> {t.next_state}, {t.ret_text}"
            node = ast.Constant(0)
            node.lineno = t.lineno  # type: ignore[attr-defined]
            if t.next_state not in states:
                r.violation(site(f, node), f.qualname, construct, f"next state `{t.next_state}` is not a scanner method")
            elif t.advance in ("unknown", "back"):
                r.violation(site(f, node), f.qualname, construct, f"returned index `{t.ret_text}` evaluates to {t.ret}: not one of len(s), i, i+1, j, j+1 - progress cannot be established")
            elif t.ret.base == "i" and t.ret.off >= 2 or (t.ret.base == "j" and t.ret.off >= 2):
                r.violation(site(f, node), f.qualname, construct, f"returned index {t.ret} may lie beyond the bytes handed to the scanner (only position i, or a match position, is known to be inside the buffer)")
            else:
                r.ok(site(f, node), f.qualname, construct, note=f"advance={t.advance}")
    cycles = fsm.zero_cycles()
    if cycles:
        for cyc in cycles:
            desc = " -> ".join(f"{s}[{t.ret_text} @{t.lineno}]" for s, t in cyc) + f" -> {cyc[0][0]}"
            f = fsm.scanners[cyc[0][0]].f
            r.violation(site(f), f.qualname, "zero-advance cycle: " + " -> ".join(s for s, _ in cyc), f"the scanners can hand control round without consuming a byte: {desc} (the tokenizer would not terminate)")
    else:
        zg = fsm.zero_graph()
        r.ok(PS.replace(".", "/")[:-1] + ".py:0:PSBaseParser", BASE, "zero-advance subgraph is acyclic", note="edges: " + ", ".join(sorted({f"{a}->{b}" for a, es in zg.items() for b, _ in es})))
    rep.extra["fsm_states"] = len(states)
    rep.extra["fsm_transitions"] = ntrans

    # driver loop
    nt = model.func(BASE + ".nexttoken")
    loops = [n for n in walk_no_nested(nt.node) if isinstance(n, ast.While)]
    ok = len(loops) == 1
    if ok:
        lp = loops[0]
        # charpos written only from a scanner result
        bad = []
        for n in walk_no_nested(lp):
            if isinstance(n, (ast.Assign, ast.AugAssign)):
                tgts = n.targets if isinstance(n, ast.Assign) else [n.target]
                for t in tgts:
                    if unparse(t) == "self.charpos":
                        v = n.value
                        if not (isinstance(v, ast.Call) and (dotted(v.func) or "") == "self._parse1"):
                            bad.append(n)
        r.check(not bad, site(nt, lp), nt.qualname, "in the token loop self.charpos is written only with a scanner's result", why=f"other writer: {unparse(bad[0]) if bad else ''}")
        # the regular scanner call is fed (self.buf, self.charpos) and is preceded by fillbuf on every path
        calls = [n for n in walk_no_nested(lp) if isinstance(n, ast.Call) and (dotted(n.func) or "") == "self._parse1"]
        regular = [c for c in calls if [unparse(a) for a in c.args] == ["self.buf", "self.charpos"]]
        r.check(len(regular) == 1, site(nt, lp), nt.qualname, "the token loop calls the current scanner on (self.buf, self.charpos)", why=f"calls: {[unparse(c) for c in calls]}")
        g = build_cfg(nt.node)
        if regular:
            # find stmt node holding the regular call; fillbuf must dominate it within the loop iteration
            target = None
            for n in g.nodes:
                if n.ast is not None and n.kind == "stmt" and any(x is regular[0] for x in ast.walk(n.ast)):
                    target = n.id
            head = g.node_of(lp)
            okfb = False
            if target is not None and head is not None:
                wit = g.all_path_pass(head, lambda n: n.ast is not None and n.kind == "stmt" and contains_call(n.ast, lambda c: (dotted(c.func) or "") == "self.fillbuf"), until=[target], skip_labels=("exc",))
                okfb = wit is None
            r.check(okfb, site(nt, lp), nt.qualname, "self.fillbuf() precedes the scanner call on every path of an iteration (so i < len(s))", why="a path reaches the scanner call without refilling the buffer")
    else:
        r.violation(site(nt), nt.qualname, "nexttoken has exactly one token loop", f"{len(loops)} while-loops found")
    # fillbuf: returns normally only with charpos < len(buf)
    fb = model.func(BASE + ".fillbuf")
    g = build_cfg(fb.node, exc_edges=False)
    bad_paths = []
    for path in g.paths():
        if path[-1][0] != g.exit:
            continue
        conds = []
        assigns = []
        for (nid, lab) in path:
            a = g.nodes[nid].ast
            if a is None:
                continue
            if g.nodes[nid].kind == "test":
                conds.append(("" if lab == "true" else "not ") + unparse(a))
            elif isinstance(a, ast.Assign):
                assigns.append(unparse(a))
        fast = any(c.replace(" ", "") in ("self.charpos<len(self.buf)", "len(self.buf)>self.charpos") for c in conds)
        # `if not self.buf: raise` taken false  ==  `not not self.buf`
        refill = any(c.replace(" ", "") in ("notnotself.buf", "self.buf") for c in conds) and any(a.replace(" ", "") == "self.charpos=0" for a in assigns)
        if not (fast or refill):
            bad_paths.append(conds)
    r.check(not bad_paths, site(fb), fb.qualname, "fillbuf returns only with self.charpos < len(self.buf) (unread byte available) or raises PSEOF", why=f"path with conditions {bad_paths[:1]} returns without that guarantee")
    return fsm


def buffer_oblivious(model: Model, rep: Report, rid: str, fsm: ScannerFSM) -> None:
    r = rep.rule(rid, "FSM", "scanners are buffer-oblivious: no look-ahead, no length-dependent branch, only single-byte patterns on the buffer", 30)
    for name, sc in fsm.scanners.items():
        f = sc.f
        for rd in sc.reads:
            if rd.kind in ("current", "consumed"):
                r.ok(site(f, rd.node), f.qualname, rd.text, note=rd.kind)
            else:
                r.violation(site(f, rd.node), f.qualname, rd.text, f"{rd.kind} read of the buffer: the byte may not be in the buffer yet, so the token depends on where the buffer boundary falls")
        for (n, why) in sc.problems:
            if "buffer length" in why:
                r.violation(site(f, n), f.qualname, unparse(n), why)
        for (n, rxname, tgt, rx) in sc.regex_uses:
            s_name = f.params[1] if len(f.params) > 1 else "s"
            on_buffer = tgt == s_name
            if on_buffer:
                if rx is None:
                    r.violation(site(f, n), f.qualname, f"{rxname} applied to the buffer", "pattern cannot be folded to a literal regex")
                elif rx.max_width() != 1 or rx.min_width() != 1:
                    r.violation(site(f, n), f.qualname, f"{rxname} applied to the buffer", f"pattern {rx.pattern!r} can match {rx.min_width()}..{rx.max_width()} bytes: a match may straddle a buffer refill")
                else:
                    r.ok(site(f, n), f.qualname, f"{rxname} applied to the buffer", note="single-byte pattern")
    # nextline: resumable across refills
    nl = model.func(BASE + ".nextline")
    fo = Folder(model)
    probs = []
    for n in walk_no_nested(nl.node):
        if isinstance(n, ast.Call) and isinstance(n.func, ast.Attribute) and n.func.attr in ("search", "match") and n.args and unparse(n.args[0]) == "self.buf":
            try:
                rx = fo.fold(nl.module, n.func.value, nl.cls)
            except Unfoldable:
                rx = None
            if not isinstance(rx, Regex) or rx.max_width() != 1:
                probs.append(f"{unparse(n)}: multi-byte pattern on the buffer")
        if isinstance(n, ast.Subscript) and unparse(n.value) == "self.buf":
            txt = unparse(n.slice).replace(" ", "")
            if txt not in ("self.charpos:self.charpos+1", "self.charpos:", "self.charpos") and not txt.startswith("self.charpos:m."):
                probs.append(f"{unparse(n)}: reads the buffer away from the current position")
    r.check(not probs, site(nl), nl.qualname, "nextline reads the buffer only at the current position / up to a single-byte EOL match", why="; ".join(probs))


def token_ops(model: Model):
    """Partial-operation table for the tokenizer (D.2 restricted to what bytes-level code can raise)."""

    def ops(f: FuncInfo, n: ast.AST) -> List[Tuple[str, str]]:
        out: List[Tuple[str, str]] = []
        if isinstance(n, ast.Call):
            d = dotted(n.func) or ""
            if d in ("int", "float") and n.args:
                out.append(("ValueError", unparse(n)))
            elif d == "str" and len(n.args) >= 2 and not (len(n.args) >= 3 or any(k.arg == "errors" for k in n.keywords)):
                out.append(("UnicodeDecodeError", unparse(n)))
            elif isinstance(n.func, ast.Attribute) and n.func.attr == "decode" and len(n.args) < 2 and not any(k.arg == "errors" for k in n.keywords):
                out.append(("UnicodeDecodeError", unparse(n)))
            elif d == "bytes" and len(n.args) == 1 and isinstance(n.args[0], ast.Tuple):
                out.append(("ValueError", unparse(n)))
            elif d == "chr":
                out.append(("ValueError", unparse(n)))
            elif isinstance(n.func, ast.Attribute) and n.func.attr == "pop" and n.args and not isinstance(n.func.value, ast.Call):
                out.append(("IndexError", unparse(n)))
            elif isinstance(n.func, ast.Attribute) and n.func.attr == "index":
                out.append(("ValueError", unparse(n)))
        elif isinstance(n, ast.Subscript) and isinstance(n.ctx, ast.Load) and not isinstance(n.slice, ast.Slice):
            base = dotted(n.value) or ""
            if base.isupper():  # module-level table
                out.append(("KeyError", unparse(n)))
        return out

    return ops


def _guard_tests(f: FuncInfo, node: ast.AST) -> List[Tuple[ast.AST, bool]]:
    """Tests (with polarity) of the enclosing if/elif chain under which `node` executes."""
    out: List[Tuple[ast.AST, bool]] = []

    def rec(stmts: List[ast.stmt], acc: List[Tuple[ast.AST, bool]]) -> bool:
        for st in stmts:
            if any(x is node for x in ast.walk(st)):
                if isinstance(st, ast.If):
                    if any(x is node for x in ast.walk(st.test)):
                        out.extend(acc)
                        return True
                    if rec(st.body, acc + [(st.test, True)]):
                        return True
                    if rec(st.orelse, acc + [(st.test, False)]):
                        return True
                elif isinstance(st, ast.While):
                    if any(x is node for x in ast.walk(st.test)):
                        out.extend(acc)
                        return True
                    if rec(st.body, acc + [(st.test, True)]):
                        return True
                    if rec(st.orelse, acc + [(st.test, False)]):
                        return True
                elif isinstance(st, (ast.For, ast.With, ast.Try)):
                    for blk in ("body", "orelse", "finalbody"):
                        if rec(getattr(st, blk, []) or [], acc):
                            return True
                    for h in getattr(st, "handlers", []):
                        if rec(h.body, acc):
                            return True
                out.extend(acc)
                return True
        return False

    rec(f.node.body, [])  # type: ignore[attr-defined]
    return out


def token_exceptions(model: Model, rep: Report, rid: str) -> None:
    """May-escape set of nexttoken must be {PSEOF}."""
    r = rep.rule(rid, "EXC", "nothing but PSEOF can escape PSBaseParser.nexttoken (partial operations guarded or proven safe)", 8)
    res = Resolver(model, fanout=False)
    scope = {q for q in model.funcs if q.startswith(BASE + ".")}
    fo = Folder(model)
    mod = model.module("pdfminer.psparser")

    def rx(name: str) -> Optional[Regex]:
        try:
            v = fo.fold(mod, mod.assigns[name]) if name in mod.assigns else None
        except Unfoldable:
            v = None
        return v if isinstance(v, Regex) else None

    def accum_guard(f: FuncInfo, field: str, regex_name: str, maxlen: Optional[int]) -> Tuple[bool, str]:
        """Every `self.<field> += X` happens under `<REGEX>.match(X)` (and len(self.<field>) < maxlen);
        every other write is the empty bytes literal."""
        cls = f.cls
        assert cls is not None
        for mname, mf in cls.methods.items():
            for n in walk_no_nested(mf.node):
                if isinstance(n, ast.AugAssign) and unparse(n.target) == f"self.{field}":
                    gts = _guard_tests(mf, n)
                    okm = False
                    okl = maxlen is None
                    for (t, pol) in gts:
                        if not pol:
                            continue
                        for part in (t.values if isinstance(t, ast.BoolOp) and isinstance(t.op, ast.And) else [t]):
                            if isinstance(part, ast.Call) and (dotted(part.func) or "") == f"{regex_name}.match" and unparse(part.args[0]) == unparse(n.value):
                                okm = True
                            if isinstance(part, ast.Compare) and unparse(part.left) == f"len(self.{field})" and isinstance(part.ops[0], ast.Lt) and isinstance(part.comparators[0], ast.Constant) and maxlen is not None and part.comparators[0].value <= maxlen:
                                okl = True
                    if not (okm and okl):
                        return False, f"`{unparse(n)}` in {mname} is not guarded by {regex_name}.match(...)" + (f" and len < {maxlen}" if maxlen else "")
                elif isinstance(n, ast.Assign) and any(unparse(t) == f"self.{field}" for t in n.targets):
                    if not (isinstance(n.value, ast.Constant) and n.value.value == b""):
                        return False, f"`{unparse(n)}` in {mname} writes something other than b''"
        return True, ""

    def nonempty_guard(f: FuncInfo, node: ast.AST, field: str) -> bool:
        return any(pol and unparse(t) == f"self.{field}" for (t, pol) in _guard_tests(f, node))

    safe_notes: Dict[Tuple[str, str], str] = {}

    def safe_reason(f: FuncInfo, n: ast.AST, exc: str) -> Optional[str]:
        """Returns a reason if the partial op at n cannot raise, verified on the source; else None."""
        txt = unparse(n)
        # int(self.hex, 16) / int(self.oct, 8): operand accumulates only matching digits and is non-empty here
        if isinstance(n, ast.Call) and (dotted(n.func) or "") == "int" and len(n.args) == 2 and isinstance(n.args[1], ast.Constant):
            arg = unparse(n.args[0])
            base = n.args[1].value
            for field, rxn, digits in (("hex", "HEX", b"0123456789abcdefABCDEF"), ("oct", "OCT_STRING", b"01234567")):
                if arg == f"self.{field}" and ((base == 16 and field == "hex") or (base == 8 and field == "oct")):
                    g = rx(rxn)
                    if g is None or not (g.byteset() <= frozenset(digits)):
                        return None
                    ok, why = accum_guard(f, field, rxn, None)
                    if ok and nonempty_guard(f, n, field):
                        return f"self.{field} accumulates only bytes matching {rxn} {byteset_str(set(g.byteset()))} and is non-empty under the enclosing test"
                    return None
            # int(m.group(0), 16) inside HEX_PAIR.sub over SPC.sub(b"", self._curtoken) in the hex-string scanner
            if arg.endswith(".group(0)") and base == 16:
                endhex, spc, pair = rx("END_HEX_STRING"), rx("SPC"), rx("HEX_PAIR")
                if endhex is None or spc is None or pair is None:
                    return None
                token_bytes = frozenset(range(256)) - endhex.byteset()  # what _curtoken can hold
                after = token_bytes - spc.byteset()
                hexd = frozenset(b"0123456789abcdefABCDEF")
                # the sub must be applied to SPC.sub(b"", self._curtoken) and _curtoken must be fed from the END_HEX_STRING-delimited range
                host = unparse(f.node)
                if after <= hexd and "HEX_PAIR.sub(" in host and "SPC.sub(b''" in host.replace('b""', "b''") and "END_HEX_STRING.search(" in host:
                    return "the token holds only bytes outside END_HEX_STRING; minus SPC they are hex digits " + byteset_str(set(after))
                return None
        if isinstance(n, ast.Call) and (dotted(n.func) or "") == "bytes" and len(n.args) == 1 and isinstance(n.args[0], ast.Tuple) and len(n.args[0].elts) == 1:
            e = n.args[0].elts[0]
            et = unparse(e)
            if et.replace(" ", "") == "int(self.hex,16)":
                ok, why = accum_guard(f, "hex", "HEX", 2)
                return "at most two hex digits: value < 256" if ok else None
            if et.replace(" ", "") in ("int(m.group(0),16)",):
                pair = rx("HEX_PAIR")
                if pair is not None and pair.max_width() <= 2:
                    return "HEX_PAIR matches at most two digits: value < 256"
                return None
            if isinstance(e, ast.Subscript) and (dotted(e.value) or "") == "ESC_STRING":
                try:
                    tab = fo.fold(mod, mod.assigns["ESC_STRING"])
                except (Unfoldable, KeyError):
                    return None
                if all(isinstance(v, int) and 0 <= v < 256 for v in tab.values()):
                    return "every ESC_STRING value is a byte"
                return None
            # masked value: x & 255 / x % 256
            if isinstance(e, ast.BinOp) and ((isinstance(e.op, ast.BitAnd) and isinstance(e.right, ast.Constant) and e.right.value == 255) or (isinstance(e.op, ast.Mod) and isinstance(e.right, ast.Constant) and e.right.value == 256)):
                return "operand reduced modulo 256"
            if isinstance(e, ast.Name):
                # local assigned from a masked expression on every reaching definition
                defs = [a for a in walk_no_nested(f.node) if isinstance(a, ast.Assign) and any(isinstance(t, ast.Name) and t.id == e.id for t in a.targets)]
                if defs and all(
                    isinstance(a.value, ast.BinOp)
                    and ((isinstance(a.value.op, ast.BitAnd) and isinstance(a.value.right, ast.Constant) and a.value.right.value == 255) or (isinstance(a.value.op, ast.Mod) and isinstance(a.value.right, ast.Constant) and a.value.right.value == 256))
                    for a in defs
                ):
                    return "operand reduced modulo 256 at its definition"
            return None
        if isinstance(n, ast.Subscript) and (dotted(n.value) or "") == "ESC_STRING":
            key = unparse(n.slice)
            if any(pol and unparse(t).replace(" ", "") == f"{key}inESC_STRING" for (t, pol) in _guard_tests(f, n)):
                return "guarded by `in ESC_STRING`"
            return None
        if isinstance(n, ast.Call) and unparse(n).replace(" ", "") == "self._tokens.pop(0)":
            # after `while not self._tokens:` the list is non-empty
            loops = [w for w in walk_no_nested(f.node) if isinstance(w, ast.While) and unparse(w.test).replace(" ", "") == "notself._tokens"]
            if loops and n.lineno > (loops[0].end_lineno or 0):
                return "follows `while not self._tokens:` - the list is non-empty"
            return None
        return None

    base_ops = token_ops(model)
    seen_ops: List[Tuple[FuncInfo, ast.AST, str, str, Optional[str]]] = []

    def ops(f: FuncInfo, n: ast.AST) -> List[Tuple[str, str]]:
        out = []
        for (exc, construct) in base_ops(f, n):
            reason = safe_reason(f, n, exc)
            seen_ops.append((f, n, exc, construct, reason))
            if reason is None:
                out.append((exc, construct))
        return out

    xf = ExcFlow(model, res, ops, scope=scope)
    xf.solve()
    nt = BASE + ".nexttoken"
    esc = xf.escapes(nt)
    allowed = "pdfminer.psexceptions.PSEOF"
    # report every partial operation once
    done = set()
    handled_keys = {(ev.func, ev.construct) for q in scope for (ev, _) in xf.handled.get(q, [])}
    escaping_keys = {(ev.func, ev.construct) for ev in esc}
    reach = _reachable_methods(model, res, nt, scope)
    for (f, n, exc, construct, reason) in seen_ops:
        if f.qualname not in reach:
            continue
        k = (f.qualname, " ".join(construct.split()))
        if k in done:
            continue
        done.add(k)
        if reason is not None:
            r.safe(site(f, n), f.qualname, construct, reason)
        elif k in escaping_keys:
            pass  # reported below with its chain
        elif k in handled_keys:
            r.ok(site(f, n), f.qualname, construct, note=f"{exc} is caught by a handler")
        else:
            r.ok(site(f, n), f.qualname, construct, note=f"{exc} does not reach nexttoken")
    for ev in esc:
        if ev.exc == allowed:
            r.ok(ev.site, ev.func, ev.construct, note="PSEOF: end of input")
            continue
        r.violation(ev.site, ev.func, ev.construct, f"{ev.exc} can escape nexttoken" + (f" via {' <- '.join(ev.chain)}" if ev.chain else ""))
    rep.analysed["tokenizer_functions"] = len(reach)


def _reachable_methods(model: Model, res: Resolver, root: str, scope: Set[str]) -> Set[str]:
    seen: Set[str] = set()
    st = [root]
    while st:
        q = st.pop()
        if q in seen or q not in scope:
            continue
        seen.add(q)
        f = model.funcs[q]
        for c in res.calls_in(f):
            cs, _ = res.resolve_call(f, c)
            for g in cs:
                st.append(g.qualname)
    return seen


def positions(model: Model, rep: Report, rid: str) -> None:
    r = rep.rule(rid, "WRITESET", "token positions: single writer of _curtokenpos with value bufpos + match start", 2)
    cls = model.cls(BASE)
    writers = []
    for mname, mf in cls.methods.items():
        for n in walk_no_nested(mf.node):
            if isinstance(n, (ast.Assign, ast.AugAssign)):
                tg = n.targets if isinstance(n, ast.Assign) else [n.target]
                if any(unparse(t) == "self._curtokenpos" for t in tg):
                    writers.append((mf, n))
    scanners = [(mf, n) for (mf, n) in writers if mf.name.startswith("_parse_")]
    resets = [(mf, n) for (mf, n) in writers if not mf.name.startswith("_parse_")]
    okw = len(scanners) == 1 and scanners[0][0].name == "_parse_main"
    r.check(okw, site(scanners[0][0], scanners[0][1]) if scanners else BASE, BASE, "only _parse_main records the token position", why=f"writers: {[mf.name for mf, _ in scanners]}")
    if scanners:
        mf, n = scanners[0]
        v = n.value
        good = False
        if isinstance(v, ast.BinOp) and isinstance(v.op, ast.Add):
            parts = {unparse(v.left), unparse(v.right)}
            if "self.bufpos" in parts:
                other = (parts - {"self.bufpos"}).pop() if len(parts) == 2 else ""
                # other must be bound to m.start(0) of the NONSPC search
                for a in walk_no_nested(mf.node):
                    if isinstance(a, ast.Assign) and any(isinstance(t, ast.Name) and t.id == other for t in a.targets):
                        if isinstance(a.value, ast.Call) and isinstance(a.value.func, ast.Attribute) and a.value.func.attr == "start":
                            good = True
        r.check(good, site(mf, n), mf.qualname, "self._curtokenpos = self.bufpos + <match start>", why=f"value is `{unparse(v)}`")
    for (mf, n) in resets:
        r.check(mf.name == "seek" and isinstance(n.value, ast.Constant), site(mf, n), mf.qualname, f"{unparse(n)}", why="token position written outside _parse_main/seek")
    at = model.func(BASE + "._add_token")
    uses = "self._curtokenpos" in unparse(at.node)
    r.check(uses, site(at), at.qualname, "_add_token pairs the token with self._curtokenpos", why="token not paired with the recorded position")


def eof_flush(model: Model, rep: Report, rid: str) -> None:
    r = rep.rule(rid, "ORDER", "EOF: one newline is fed to the current scanner, eof is latched, PSEOF re-raised only when no token came out", 4)
    nt = model.func(BASE + ".nexttoken")
    handlers = [h for n in walk_no_nested(nt.node) if isinstance(n, ast.Try) for h in n.handlers]
    hs = [h for h in handlers if h.type is not None and "PSEOF" in unparse(h.type)]
    if len(hs) != 1:
        r.violation(site(nt), nt.qualname, "nexttoken handles PSEOF from fillbuf", f"{len(hs)} PSEOF handlers")
        return
    h = hs[0]
    feeds = [c for c in walk_no_nested(h) if isinstance(c, ast.Call) and (dotted(c.func) or "") == "self._parse1"]
    okfeed = len(feeds) == 1 and len(feeds[0].args) == 2 and isinstance(feeds[0].args[0], ast.Constant) and feeds[0].args[0].value in (b"\n", b"\r", b" ") and unparse(feeds[0].args[1]) == "0"
    r.check(okfeed, site(nt, h), nt.qualname, "handler feeds exactly one white-space byte to the current scanner at index 0", why=f"{[unparse(c) for c in feeds]}")
    sets = [n for n in h.body if isinstance(n, ast.Assign) and unparse(n.targets[0]) == "self.eof" and isinstance(n.value, ast.Constant) and n.value.value is True]
    r.check(bool(sets), site(nt, h), nt.qualname, "handler latches self.eof = True unconditionally", why="eof not latched at handler top level")
    rer = [n for n in h.body if isinstance(n, ast.If) and unparse(n.test).replace(" ", "") == "notself._tokens" and any(isinstance(x, ast.Raise) and x.exc is None for x in n.body)]
    r.check(bool(rer), site(nt, h), nt.qualname, "handler re-raises PSEOF iff no token was produced", why="`if not self._tokens: raise` missing")
    first = nt.node.body[0] if nt.node.body else None  # type: ignore[attr-defined]
    if first is not None and isinstance(first, ast.Expr):
        first = nt.node.body[1]  # type: ignore[attr-defined]
    okfirst = isinstance(first, ast.If) and unparse(first.test) == "self.eof" and any(isinstance(x, ast.Raise) for x in first.body)
    r.check(okfirst, site(nt, first) if first is not None else site(nt), nt.qualname, "a call after the latch raises PSEOF immediately", why="no `if self.eof: raise PSEOF` at entry")


def refill_before_read_rule(model: Model, rep: Report, rid: str, f: FuncInfo) -> None:
    """Line readers: inside the read loop the buffer is refilled before it is looked at, on every path of an iteration
    (a look-ahead at the byte after a CR must not read the exhausted buffer: the LF would become a line of its own)."""
    import ast as _ast

    from ..cfg import build_cfg

    r = rep.rule(rid, "TYPESTATE", f"{f.name}: within an iteration of the read loop every look at self.buf comes after self.fillbuf()", 2)
    loops = [n for n in walk_no_nested(f.node) if isinstance(n, _ast.While)]
    if not loops:
        raise AnchorMissing(f"{f.qualname}: read loop not found")
    lp = loops[0]
    fn = _ast.FunctionDef(name="_iter", args=f.node.args, body=lp.body, decorator_list=[], lineno=lp.lineno, col_offset=0)  # type: ignore[attr-defined]
    g = build_cfg(fn, exc_edges=False)

    def is_fill(n) -> bool:
        return n.ast is not None and n.kind == "stmt" and any(isinstance(c, _ast.Call) and (dotted(c.func) or "") == "self.fillbuf" for c in [n.ast] + list(_ast.walk(n.ast)))

    k = 0
    for n in g.nodes:
        if n.ast is None or n.kind not in ("stmt", "test"):
            continue
        if not any(isinstance(x, _ast.Attribute) and x.attr == "buf" and isinstance(x.value, _ast.Name) and x.value.id == "self" and isinstance(x.ctx, _ast.Load) for x in _ast.walk(n.ast)):
            continue
        k += 1
        wit = g.all_path_pass(g.entry, is_fill, until=[n.id])
        r.check(wit is None, site(f, n.ast), f.qualname, f"`{unparse(n.ast)[:60]}` reads the buffer after the refill of this iteration", why="a path from the top of the iteration reaches this read without self.fillbuf(): when the previous iteration consumed the buffer's last byte (a CR), the look-ahead sees an empty slice and the LF of a CR LF pair is returned as a separate, empty line")
    if k == 0:
        raise AnchorMissing(f"{f.qualname}: no buffer read in the loop")


def state_change_not_in_try(model: Model, rep: Report, rid: str) -> None:
    """The scanner automaton is extracted from the fall-through paths of each scanner.  A state change (`self._parse1 = ...`)
    inside a `try` whose handler swallows the exception would have a second, unextracted path on which the state is not
    changed and nothing is consumed - the driver would spin.  So: no store to self._parse1 inside such a try body."""
    r = rep.rule(rid, "EXC", "scanner state changes are unconditional: no `self._parse1 = ...` inside a try body whose handler swallows the exception (such a path would neither advance nor change state)", 2)
    base = "pdfminer.psparser.PSBaseParser."
    n_try = 0
    for q, f in sorted(model.funcs.items()):
        if not q.startswith(base + "_parse_") or f.parent is not None:
            continue
        for t in walk_no_nested(f.node):
            if not isinstance(t, ast.Try):
                continue
            swallowing = [h for h in t.handlers if not any(isinstance(x, ast.Raise) for x in ast.walk(ast.Module(body=h.body, type_ignores=[])))]
            if not swallowing:
                continue
            n_try += 1
            stores = [n for st in t.body for n in ast.walk(st) if isinstance(n, ast.Attribute) and isinstance(n.ctx, ast.Store) and n.attr == "_parse1"]
            r.check(not stores, site(f, stores[0] if stores else t), f.qualname, f"try body of {f.name} holds no state change", why="`self._parse1 = ...` sits in a try whose handler swallows the exception: when the guarded conversion fails the scanner returns the unconsumed delimiter while still in the same state, and nexttoken() loops forever at that position")
    if n_try < 2:
        raise AnchorMissing("scanner try blocks (number / float / literal conversions) not found")

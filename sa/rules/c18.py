"""C18 - images: exported files and inline image data reproduce the samples exactly."""

from __future__ import annotations

import ast
from typing import Dict, List, Optional, Tuple

from ..cfg import build_cfg, contains_call
from ..model import AnchorMissing, Model, dotted, unparse, walk_no_nested
from ..report import Report
from ..util import site
from .c13_ops import _len_checked
from .c16 import bind_args

I = "pdfminer.image."
PI = "pdfminer.pdfinterp."


def run(model: Model, rep: Report) -> None:
    rep.explanation = (
        "C18: decides the structural part: the export dispatch (format by last filter / bit depth / colour space) never indexes an empty filter "
        "list; the row sizes handed to the BMP writer are the byte counts of 1-bit, gray and RGB rows, the writer's line size is the 4-byte "
        "aligned ceiling and rows are written bottom-up; exported names are unique (C15-R3); the inline-image scanner opens and closes its "
        "context on BI/ID, starts the data one byte after ID, recognises the terminator followed by white space, strips exactly terminator + 1 "
        "bytes and re-pushes EI. Pixel equality of the exported files is not decided."
    )
    ex = model.func(I + "ImageWriter.export_image")
    # ---------------------------------------------------------------- R1
    r1 = rep.rule("C18-R1", "DISPATCH", "export dispatch; no subscript of a possibly empty filter list", 6)
    subs = [n for n in walk_no_nested(ex.node) if isinstance(n, ast.Subscript) and unparse(n.value) == "filters" and not isinstance(n.slice, ast.Slice)]
    for n in subs:
        guarded = _len_checked(ex, n, n.value) or any(isinstance(p, ast.IfExp) and unparse(p.test) == "filters" and any(x is n for x in ast.walk(p.body)) for p in walk_no_nested(ex.node))
        if guarded:
            r1.ok(site(ex, n), ex.qualname, unparse(n), note="guarded by a length/emptiness test")
        else:
            r1.violation(site(ex, n), ex.qualname, "filters[-1] on a possibly empty filter list", "PDFStream.get_filters() returns [] for an unfiltered stream: IndexError")
    arms: List[Tuple[str, str]] = []
    cur = next((s for s in ex.node.body if isinstance(s, ast.If)), None)  # type: ignore[attr-defined]
    while isinstance(cur, ast.If):
        call = next((unparse(c) for s in cur.body for c in walk_no_nested(s) if isinstance(c, ast.Call) and (dotted(c.func) or "").startswith("self._save")), "")
        arms.append(("".join(unparse(cur.test).split()), "".join(call.split())))
        if len(cur.orelse) == 1 and isinstance(cur.orelse[0], ast.If):
            cur = cur.orelse[0]
        else:
            call = next((unparse(c) for s in cur.orelse for c in walk_no_nested(s) if isinstance(c, ast.Call) and (dotted(c.func) or "").startswith("self._save")), "")
            arms.append(("else", "".join(call.split())))
            cur = None
    order = [a[1].split("(")[0] for a in arms]
    r1.check(order == ["self._save_jpeg", "self._save_jpeg2000", "self._save_jbig2", "self._save_bmp", "self._save_bmp", "self._save_bmp", "self._save_bytes", "self._save_raw"], site(ex), ex.qualname, "dispatch order: DCT -> jpeg, JPX -> jp2, JBIG2 -> jb2, 1-bit / 8-bit RGB / 8-bit gray -> bmp, single Flate -> bytes, else raw", why=f"{order}")
    d = dict((a[1], a[0]) for a in arms)
    r1.check("self._save_bmp(image,width,height,(width+7)//8,image.bits)" in d and d["self._save_bmp(image,width,height,(width+7)//8,image.bits)"] == "image.bits==1", site(ex), ex.qualname, "1-bit image: row = ceil(width / 8) bytes, 1 bit per pixel", why="1-bit branch changed")
    k = "self._save_bmp(image,width,height,width*3,image.bits*3)"
    r1.check(k in d and d[k] == "image.bits==8and(LITERAL_DEVICE_RGBinimage.colorspaceorLITERAL_INLINE_DEVICE_RGBinimage.colorspace)", site(ex), ex.qualname, "8-bit RGB image: row = 3 * width bytes, 24 bits per pixel", why="RGB branch changed")
    k = "self._save_bmp(image,width,height,width,image.bits)"
    r1.check(k in d and d[k] == "image.bits==8and(LITERAL_DEVICE_GRAYinimage.colorspaceorLITERAL_INLINE_DEVICE_GRAYinimage.colorspace)", site(ex), ex.qualname, "8-bit gray image: row = width bytes, 8 bits per pixel", why="gray branch changed")
    sj = model.func(I + "ImageWriter._save_jpeg")
    sjs = "".join(unparse(sj.node).split())
    r1.check("data=image.stream.get_data()" in sjs and "else:fp.write(data)" in sjs, site(sj), sj.qualname, "DCT data is written byte for byte (unless CMYK needs inverting)", why="jpeg path changed")
    r13 = rep.rule("C18-R13", "WHOCALLS", "every exported payload comes out of the stream decoder (stream.get_data()): the still-encoded / still-encrypted bytes (get_rawdata, .rawdata) are never written, so a DCT image behind ASCII85 or Flate, or in an encrypted file, is exported as the JPEG itself", 5)
    im_mod = model.module("pdfminer.image")
    for q, f_ in sorted(model.funcs.items()):
        if not q.startswith("pdfminer.image.") or f_.parent is not None:
            continue
        for n in walk_no_nested(f_.node):
            if isinstance(n, ast.Attribute) and n.attr in ("get_rawdata", "rawdata"):
                r13.violation(site(f_, n), f_.qualname, unparse(n), "the bytes as stored in the file are used: whatever filters precede the image codec (and the document's encryption) are not undone, and the exported file is not the image")
            elif isinstance(n, ast.Call) and isinstance(n.func, ast.Attribute) and n.func.attr == "get_data" and unparse(n.func.value).endswith("stream"):
                r13.ok(site(f_, n), f_.qualname, unparse(n))
    r14 = rep.rule("C18-R14", "DEPEND", "DCT / JPX data are written byte for byte: what _save_jpeg and _save_jpeg2000 hand to the file is the decoder's output itself - a name bound once, to stream.get_data(), not cut or patched afterwards", 1)
    for fn_ in ("_save_jpeg",):
        sf = model.func(I + "ImageWriter." + fn_)
        wr = [c for c in walk_no_nested(sf.node) if isinstance(c, ast.Call) and isinstance(c.func, ast.Attribute) and c.func.attr == "write" and c.args]
        names14 = {a.id for c in wr for a in c.args if isinstance(a, ast.Name)}
        for nm in sorted(names14):
            defs = [a for a in walk_no_nested(sf.node) if isinstance(a, (ast.Assign, ast.AugAssign)) and any(isinstance(t, ast.Name) and t.id == nm for t in (a.targets if isinstance(a, ast.Assign) else [a.target]))]
            ok14 = len(defs) == 1 and isinstance(defs[0], ast.Assign) and "".join(unparse(defs[0].value).split()) == "image.stream.get_data()"
            r14.check(ok14, site(sf, defs[-1]) if defs else site(sf), sf.qualname, f"`{nm}` written by {fn_} is image.stream.get_data(), bound once", why=f"{[unparse(d)[:60] for d in defs]}: the bytes are cut or altered on their way to the file (e.g. truncated at the first FF D9, which an embedded EXIF thumbnail contains)")
    from .c03 import _lzw

    _lzw(model, rep, "C18-R15")
    # ---------------------------------------------------------------- R2
    r2 = rep.rule("C18-R2", "UNITS", "BMP writer: 4-byte aligned row size, header fields, bottom-up rows; _save_bmp feeds consecutive rows", 5)
    bw = model.func(I + "BMPWriter.__init__")
    s = "".join(unparse(bw.node).split())
    r2.check("self.linesize=align32((self.width*self.bits+7)//8)" in s and "self.datasize=self.linesize*self.height" in s, site(bw), bw.qualname, "line size = align32(ceil(width * bits / 8)); data size = line size * height", why="row size changed")
    al = model.func(I + "align32")
    r2.check("".join(unparse(al.node).split()).endswith("return(x+3)//4*4"), site(al), al.qualname, "align32 rounds up to a multiple of 4", why="changed")
    r2.check("struct.pack('<IiiHHIIIIII',40,self.width,self.height,1,self.bits,0,self.datasize,0,0,ncols,0)" in s and "struct.pack('<ccIHHI',b'B',b'M',headersize+self.datasize,0,0,headersize)" in s and "headersize=14+40+ncols*4" in s, site(bw), bw.qualname, "BITMAPFILEHEADER (14) + BITMAPINFOHEADER (40) with width, height, 1 plane, bit count, data size, palette size", why="header changed")
    r2.check("ifbits==1:ncols=2elifbits==8:ncols=256elifbits==24:ncols=0else:raisePDFValueError(bits)" in s, site(bw), bw.qualname, "palette: 2 entries for 1 bit, 256 gray levels for 8 bits, none for 24 bits", why="changed")
    wl = model.func(I + "BMPWriter.write_line")
    r2.check("self.fp.seek(self.pos1-(y+1)*self.linesize)" in "".join(unparse(wl.node).split()), site(wl), wl.qualname, "row y is stored (y + 1) lines before the end: bottom-up", why="row position changed")
    sb = model.func(I + "ImageWriter._save_bmp")
    s2 = "".join(unparse(sb.node).split())
    loops = [n for n in walk_no_nested(sb.node) if isinstance(n, ast.For) and "range(height)" in unparse(n.iter)]
    wl_calls = [c for lp in loops for c in walk_no_nested(lp) if isinstance(c, ast.Call) and (dotted(c.func) or "").endswith(".write_line")]
    adv = [n for lp in loops for n in walk_no_nested(lp) if isinstance(n, ast.AugAssign) and isinstance(n.op, ast.Add) and unparse(n.value) == "bytes_per_line"]
    row_src = ""
    if wl_calls and len(wl_calls[0].args) == 2:
        a1 = wl_calls[0].args[1]
        if isinstance(a1, ast.Name):
            ds = [n.value for lp in loops for n in walk_no_nested(lp) if isinstance(n, ast.Assign) and unparse(n.targets[0]) == a1.id]
            row_src = "".join(unparse(ds[0]).split()) if ds else ""
        else:
            row_src = "".join(unparse(a1).split())
    r2.check("bmp=BMPWriter(fp,bits,width,height)" in s2 and len(loops) == 1 and len(wl_calls) == 1 and unparse(wl_calls[0].args[0]) == loops[0].target.id and row_src == "data[i:i+bytes_per_line]" and len(adv) == 1, site(sb), sb.qualname, "rows are consecutive slices of bytes_per_line bytes, row y written as line y", why=f"row source `{row_src}`, {len(adv)} advance(s)")
    # R6: BMP stores a 24-bit pixel as blue, green, red - PDF samples are red, green, blue: a pure copy cannot be right
    r6 = rep.rule("C18-R6", "NORMFORM", "24-bit BMP rows are re-ordered from R,G,B samples to the B,G,R order of the format", 1)
    swapped = False
    for lp in loops:
        for n in walk_no_nested(lp):
            if isinstance(n, ast.If) and "bits" in unparse(n.test) and "24" in unparse(n.test):
                body = "".join(unparse(ast.Module(body=n.body, type_ignores=[])).split())
                if ("[::-1]" in body and ",3)" in body) or ("[0::3]" in body and "[2::3]" in body) or "reversed(" in body:
                    swapped = True
    r6.check(swapped, site(sb), sb.qualname, "under `bits == 24` each group of three bytes is reversed before the row is written", why="the RGB samples are copied into the file as they are: a standard reader takes the first byte of a pixel for blue, so red and blue come out exchanged")
    # ---------------------------------------------------------------- R4
    r4 = rep.rule("C18-R4", "ORDER", "inline images: BI opens, ID closes into a dictionary, data starts after `ID `, terminator + white space ends it, EI is re-pushed", 7)
    dk = model.func(PI + "PDFContentParser.do_keyword")
    s3 = "".join(unparse(dk.node).split())
    r4.check("iftokenisself.KEYWORD_BI:self.start_type(pos,'inline')" in s3, site(dk), dk.qualname, "BI opens an 'inline' context", why="changed")
    r4.check("_,objs=self.end_type('inline')" in s3.replace("(_,objs)", "_,objs") and "d={literal_name(k):resolve1(v)for(k,v)inchoplist(2,objs)}" in s3.replace("fork,vin", "for(k,v)in"), site(dk), dk.qualname, "ID closes the context into a dictionary of consecutive key/value pairs", why="changed")
    r4.check("iflen(objs)%2!=0:" in s3 and "raisePSTypeError(error_msg)" in s3, site(dk), dk.qualname, "an odd number of dictionary operands is rejected", why="changed")
    r4.check("pos,data=self.get_inline_data(pos+len(b'ID'),target=eos)" in s3.replace("(pos,data)", "pos,data").replace("b'ID '", "b'ID'") and "len(b'ID ')" in unparse(dk.node), site(dk), dk.qualname, "the data starts one byte after the ID keyword", why="start offset changed")
    r4.check("eos=b'EI'" in s3 and "iffilter[0]inLITERALS_ASCII85_DECODE:eos=b'~>'" in s3 and "ifeos!=b'EI':data+=eos" in s3, site(dk), dk.qualname, "terminator is EI, or ~> for ASCII85 data (which keeps its end marker)", why="terminator selection changed")
    r4.check("obj=PDFStream(d,data)self.push((pos,obj))ifeos==b'EI':self.push((pos,self.KEYWORD_EI))" in s3, site(dk), dk.qualname, "the image stream is pushed, followed by the EI keyword so that the operator runs and scanning resumes after it", why="changed")
    gi = model.func(PI + "PDFContentParser.get_inline_data")
    s4 = "".join(unparse(gi.node).split())
    np4 = s4.replace("(", "").replace(")", "")
    r4.check("whilei<=lentarget:" in np4 and "lentarget<=iandc.isspaceori<lentargetandc==bytestarget[i]," in np4 and "data=data[:-lentarget+1]" in np4 and "j=self.buf.indextarget[0],self.charpos" in np4, site(gi), gi.qualname, "the scan ends at terminator + one white-space byte and strips exactly len(terminator) + 1 bytes", why="terminator scan changed")
    ei = model.func(PI + "PDFPageInterpreter.do_EI")
    s5 = "".join(unparse(ei.node).split())
    s5 = s5.replace("('H'inobj)", "'H'inobj")
    r4.check("isinstance(obj,PDFStream)and" in s5 and "self.device.begin_figure(iobjid,(0,0,1,1),MATRIX_IDENTITY)self.device.render_image(iobjid,obj)self.device.end_figure(iobjid)" in s5, site(ei), ei.qualname, "EI hands the inline image to the device inside a unit figure", why="changed")
    # the guard of EI and the reader of the image dictionary agree on the spellings of a key (Table 93: an inline image may use
    # the abbreviated or the full key)
    r16 = rep.rule("C18-R16", "SIBLING", "inline images: the EI guard accepts every spelling of Width / Height that LTImage reads (abbreviated and full)", 3)
    li0 = model.func("pdfminer.layout.LTImage.__init__")
    spell = []
    for c in ast.walk(li0.node):
        if isinstance(c, ast.Call) and isinstance(c.func, ast.Attribute) and c.func.attr == "get_any" and c.args and isinstance(c.args[0], ast.Tuple):
            ks = [e.value for e in c.args[0].elts if isinstance(e, ast.Constant)]
            if "W" in ks or "H" in ks or "Width" in ks or "Height" in ks:
                spell.append(ks)
    if len(spell) < 2:
        raise AnchorMissing("LTImage.__init__: get_any reads of the image size not found")
    guards = [n.test for n in walk_no_nested(ei.node) if isinstance(n, ast.If)]
    if not guards:
        raise AnchorMissing("do_EI: guard not found")
    tested = {c.value for c in ast.walk(guards[0]) if isinstance(c, ast.Constant) and isinstance(c.value, str)}
    for ks in spell:
        missing = [k for k in ks if k not in tested]
        r16.check(not missing or not (set(ks) & tested), site(ei, guards[0]), ei.qualname, f"guard of EI tests {sorted(set(ks) & tested)} of the spellings {ks}", why=f"LTImage reads the size under {ks} but the guard only lets {sorted(set(ks) & tested)} through: an inline image written with {missing} is dropped without a trace")
        if not (set(ks) & tested):
            r16.violation(site(ei, guards[0]), ei.qualname, unparse(guards[0])[:100], f"the guard does not test {ks} at all")
    # exactly: the image is handed on iff (W or Width) and (H or Height) - decided by evaluating the guard for all 16 ways the
    # four keys can be present
    def _ev(e: ast.AST, present: set) -> Optional[bool]:
        if isinstance(e, ast.BoolOp):
            vs = [_ev(v, present) for v in e.values]
            if any(v is None for v in vs):
                return None
            return all(vs) if isinstance(e.op, ast.And) else any(vs)
        if isinstance(e, ast.UnaryOp) and isinstance(e.op, ast.Not):
            v = _ev(e.operand, present)
            return None if v is None else not v
        if isinstance(e, ast.Call) and (dotted(e.func) or "") == "isinstance":
            return True
        if isinstance(e, ast.Compare) and len(e.ops) == 1:
            l, op, r = e.left, e.ops[0], e.comparators[0]
            if isinstance(op, (ast.In, ast.NotIn)) and isinstance(l, ast.Constant) and isinstance(l.value, str):
                v = l.value in present
                return v if isinstance(op, ast.In) else not v
            if isinstance(op, (ast.Is, ast.IsNot)) and isinstance(r, ast.Constant) and r.value is None and isinstance(l, ast.Call) and isinstance(l.func, ast.Attribute) and l.func.attr == "get_any" and l.args and isinstance(l.args[0], ast.Tuple):
                ks = {x.value for x in l.args[0].elts if isinstance(x, ast.Constant)}
                v = bool(ks & present)
                return v if isinstance(op, ast.IsNot) else not v
        return None

    import itertools as _it

    keys4 = ["W", "Width", "H", "Height"]
    wrong = []
    undecided = False
    for bits in _it.product([False, True], repeat=4):
        present = {k for k, b in zip(keys4, bits) if b}
        got = _ev(guards[0], present)
        if got is None:
            undecided = True
            break
        want = bool({"W", "Width"} & present) and bool({"H", "Height"} & present)
        if got != want:
            wrong.append(sorted(present))
    r16.check(not undecided and not wrong, site(ei, guards[0]), ei.qualname, "the guard is true exactly when a width key and a height key are present, in any mix of spellings (all 16 combinations evaluated)", why=("the guard has a form the evaluator does not know" if undecided else f"wrong for the key sets {wrong[:4]}: an inline image that mixes the spellings (/W with /Height) is dropped"))
    # ---------------------------------------------------------------- R5 (shared with C15-R3)
    from .c15 import unique_name_rule

    unique_name_rule(model, rep, "C18-R5")
    # ---------------------------------------------------------------- R7 (the dispatch part of C03-R3): image data go through the same predictors
    r7 = rep.rule("C18-R7", "DISPATCH", "sample data behind a predictor are un-predicted: Predictor 1 -> nothing, 2 -> TIFF, >= 10 (all PNG tags, also 10 = None) -> PNG row decoding", 1)
    dec = model.func("pdfminer.pdftypes.PDFStream.decode")
    tests = []
    for n in walk_no_nested(dec.node):
        if isinstance(n, ast.If) and isinstance(n.test, ast.Compare) and unparse(n.test.left) == "pred":
            tests.append("".join(unparse(n.test).split()))
    r7.check(sorted(tests) == ["pred==1", "pred==2", "pred>=10"], site(dec), dec.qualname, "branches on the predictor code: == 1, == 2, >= 10", why=f"{sorted(tests)}: with /Predictor 10 every row still starts with its PNG tag byte, so treating 10 as `no predictor` leaves the tags in the samples and shears the image")
    from .c03 import filters_resolved_instance, predictor_reached_instance

    filters_resolved_instance(model, r7)

    predictor_reached_instance(model, r7)
    # ---------------------------------------------------------------- R8: inline data scanner details
    r8 = rep.rule("C18-R8", "FSM", "inline data: exactly one end-of-line before the terminator is dropped (pattern anchored at the very end); after a failed partial match of the terminator the current byte is re-examined as a possible first byte", 2)
    gi2 = model.func(PI + "PDFContentParser.get_inline_data")
    import re._parser as _sp  # type: ignore[import]

    subs = [c for c in walk_no_nested(gi2.node) if isinstance(c, ast.Call) and (dotted(c.func) or "") == "re.sub" and c.args and isinstance(c.args[0], ast.Constant) and isinstance(c.args[0].value, bytes)]
    ok = False
    why = "EOL strip not found"
    if len(subs) == 1:
        pat = subs[0].args[0].value
        parsed = list(_sp.parse(pat))
        last = parsed[-1] if parsed else None
        at_end_string = last is not None and str(last[0]) == "AT" and str(last[1]) == "AT_END_STRING"
        at_end = last is not None and str(last[0]) == "AT" and str(last[1]) == "AT_END"
        ok = at_end_string
        why = f"pattern {pat!r} ends with `$`, which also matches before a final newline: for data ending in LF followed by the LF that precedes EI, re.sub removes both, i.e. one byte of image data" if at_end else f"pattern {pat!r} is not anchored at the end of the data"
    r8.check(ok, site(gi2, subs[0]) if subs else site(gi2), gi2.qualname, "the end-of-line strip is anchored with \\Z (end of data only)", why=why)
    # restart: the branch that abandons a partial match must not unconditionally go back to 'nothing matched'
    guarded_restart = any(isinstance(n, ast.Assign) and unparse(n.targets[0]) == "i" and isinstance(n.value, ast.IfExp) for n in walk_no_nested(gi2.node)) or any(isinstance(n, ast.If) and "target[0]" in unparse(n.test) and any(isinstance(x, ast.Assign) and unparse(x.targets[0]) == "i" and unparse(x.value) == "1" for x in n.body) for n in walk_no_nested(gi2.node))
    r8.check(guarded_restart, site(gi2), gi2.qualname, "on a mismatch inside the terminator the byte just read restarts the match if it equals the terminator's first byte", why="`i = 0` unconditionally: in `...EEI` the second E is consumed as a mismatch and the terminator EI is missed - the image and everything after it are lost")
    # ---------------------------------------------------------------- R9: every stored row has the announced size
    r9 = rep.rule("C18-R9", "UNITS", "BMP rows are written with their full, 4-byte aligned size (short rows padded), so the file has the size its header announces", 1)
    wl2 = model.func(I + "BMPWriter.write_line")
    writes = [c for c in walk_no_nested(wl2.node) if isinstance(c, ast.Call) and (dotted(c.func) or "") == "self.fp.write" and c.args]
    arg = "".join(unparse(writes[-1].args[0]).split()) if writes else ""
    padded = "self.linesize" in arg and any(k in arg for k in (".ljust(", "+b'\\x00'*", "+bytes(")) or any("self.linesize" in unparse(n) and ("ljust" in unparse(n) or "b'\\x00' *" in unparse(n)) for n in walk_no_nested(wl2.node) if isinstance(n, ast.Assign))
    presized = "truncate(" in unparse(model.func(I + "BMPWriter.__init__").node)
    r9.check(padded or presized, site(wl2), wl2.qualname, "write_line pads the row to self.linesize (or the file is pre-sized)", why=f"row written as `{arg}`: the row stored last in the file (the top image row) lacks its padding bytes, so the file is up to 3 bytes shorter than bfSize/biSizeImage say and strict readers report truncation")
    # ---------------------------------------------------------------- R10: the image item carries the stream and its own dictionary's geometry
    r10 = rep.rule("C18-R10", "BIND", "LTImage takes name, stream, size (Width, Height), mask flag, bits (default 1) and colour space (as a list) from the image's own dictionary; the layout analyzer wraps the stream it was given", 3)
    li = model.func("pdfminer.layout.LTImage.__init__")
    sl = "".join(unparse(li.node).split())
    slr = sl.replace("resolve1(stream.get_any(('W','Width')))", "stream.get_any(('W','Width'))").replace("resolve1(stream.get_any(('H','Height')))", "stream.get_any(('H','Height'))").replace("resolve1(stream.get_any(('IM','ImageMask')))", "stream.get_any(('IM','ImageMask'))").replace("resolve1(stream.get_any(('BPC','BitsPerComponent'),1))", "stream.get_any(('BPC','BitsPerComponent'),1)").replace("resolve1(stream.get_any(('CS','ColorSpace')))", "stream.get_any(('CS','ColorSpace'))")
    r10.check("self.name=name" in slr and "self.stream=stream" in slr and "self.srcsize=(stream.get_any(('W','Width')),stream.get_any(('H','Height')))" in slr and "self.imagemask=stream.get_any(('IM','ImageMask'))" in slr and "self.bits=stream.get_any(('BPC','BitsPerComponent'),1)" in slr and "self.colorspace=stream.get_any(('CS','ColorSpace'))" in slr and "ifnotisinstance(self.colorspace,list):self.colorspace=[self.colorspace]" in slr, site(li), li.qualname, "fields bound from the abbreviated or full dictionary keys", why="LTImage.__init__ changed")
    # an entry of an image dictionary may be an indirect reference (an XObject's /ColorSpace very often is): what the exporter
    # compares with names and multiplies is the resolved value
    r17 = rep.rule("C18-R17", "BIND", "LTImage: every value read from the image dictionary is resolved before it is stored (size, bits, mask flag, colour space)", 5)
    reads = [c for c in ast.walk(li.node) if isinstance(c, ast.Call) and isinstance(c.func, ast.Attribute) and c.func.attr == "get_any"]
    if len(reads) < 5:
        raise AnchorMissing("LTImage.__init__: reads of the image dictionary not found")
    for c in reads:
        wrapped = any(isinstance(n, ast.Call) and (dotted(n.func) or "") in ("resolve1", "int_value", "num_value", "list_value", "literal_name") and n.args and n.args[0] is c for n in ast.walk(li.node))
        r17.check(wrapped, site(li, c), li.qualname, f"{unparse(c)} is the argument of a resolving accessor", why=f"`{unparse(c)}` is stored as the document wrote it: given as an indirect reference, the colour space is not recognised (an RGB image is exported as a raw .img dump) and a size or bit depth raises TypeError in the exporter")
    ri = model.func("pdfminer.converter.PDFLayoutAnalyzer.render_image")
    sr = "".join(unparse(ri.node).split())
    r10.check("item=LTImage(name,stream,(self.cur_item.x0,self.cur_item.y0,self.cur_item.x1,self.cur_item.y1))" in sr and sr.endswith("self.cur_item.add(item)"), site(ri), ri.qualname, "render_image wraps (name, stream) with the enclosing figure's box and adds it to that figure", why="changed")
    ei2 = model.func(PI + "PDFPageInterpreter.do_Do")
    sd = "".join(unparse(ei2.node).split()).replace("('Height'inxobj)", "'Height'inxobj")
    r10.check("elifsubtypeisLITERAL_IMAGEand'Width'inxobjand'Height'inxobj:self.device.begin_figure(xobjid,(0,0,1,1),MATRIX_IDENTITY)self.device.render_image(xobjid,xobj)self.device.end_figure(xobjid)" in sd, site(ei2), ei2.qualname, "an image XObject is rendered inside a unit figure named after the XObject, with the XObject's own stream", why="image branch of do_Do changed")
    # ---------------------------------------------------------------- R11: positions handed to the inline-image reader are positions in the current stream
    r11 = rep.rule("C18-R11", "WRITESET", "content parser refill: the buffer position is taken from the stream that is open now (self.fp.tell()), so `ID` seeks to the right place in the second and later streams of a Contents array", 1)
    fb2 = model.func(PI + "PDFContentParser.fillbuf")
    r11.check("self.fillfp()self.bufpos=self.fp.tell()self.buf=self.fp.read(self.BUFSIZ)" in "".join(unparse(fb2.node).split()), site(fb2), fb2.qualname, "self.bufpos = self.fp.tell() right after fillfp() and before the read", why="refill sequence changed")
    # ---------------------------------------------------------------- R12 (C03-R5 shared): PNG-predicted image data
    from .c03 import png_filters_rule

    png_filters_rule(model, rep, "C18-R12")


_run_r1_r17 = run


def run(model: Model, rep: Report) -> None:  # noqa: F811
    """C18-R18 = C03-R8: the byte-oriented decoders an image's filter chain may name (RunLength, ASCIIHex, ASCII85) - the
    exported samples are what these return."""
    from .c03 import _simple_decoders

    _run_r1_r17(model, rep)
    _simple_decoders(model, rep, "C18-R18")

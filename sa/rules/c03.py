"""C03 - stream payloads and filter chains decode to exactly the original bytes."""

from __future__ import annotations

import ast
import json
import os
from typing import Dict, List, Optional, Set, Tuple

from ..cfg import build_cfg, contains_call
from ..fold import Folder, Lit, Unfoldable
from ..model import AnchorMissing, FuncInfo, Model, dotted, unparse, walk_no_nested
from ..norm import NotPolynomial, Poly, SymEval, canon_compare, env_before
from ..report import VERIF, Report
from ..util import bool_operands, site
from .c16 import bind_args

T = "pdfminer.pdftypes."
U = "pdfminer.utils."


def _spec() -> dict:
    with open(os.path.join(VERIF, "spec", "pdf_filters.json")) as f:
        return json.load(f)


def _ceil8_form(e: ast.AST, se: SymEval, env: Dict[str, object]) -> Optional[Poly]:
    """If e is a ceiling division by 8 of some polynomial P - `(P + 7) // 8`, `-(-P // 8)`,
    `math.ceil(P / 8)` - return P; for a plain floor `P // 8` return None."""
    inner = e
    if isinstance(e, ast.Call) and (dotted(e.func) or "") == "max" and len(e.args) == 2:
        # max(1, X)
        cands = [a for a in e.args if not (isinstance(a, ast.Constant))]
        if len(cands) == 1:
            inner = cands[0]
    if isinstance(inner, ast.BinOp) and isinstance(inner.op, ast.FloorDiv) and isinstance(inner.right, ast.Constant) and inner.right.value == 8:
        try:
            p = se.expr(inner.left, dict(env))
        except NotPolynomial:
            return None
        if isinstance(p, Poly):
            c = p.const_value()
            if c == 7:
                return p - Poly.const(7)
        return None
    if isinstance(inner, ast.UnaryOp) and isinstance(inner.op, ast.USub) and isinstance(inner.operand, ast.BinOp) and isinstance(inner.operand.op, ast.FloorDiv):
        b = inner.operand
        if isinstance(b.right, ast.Constant) and b.right.value == 8:
            try:
                p = se.expr(b.left, dict(env))
            except NotPolynomial:
                return None
            return -p if isinstance(p, Poly) else None
    if isinstance(inner, ast.Call) and (dotted(inner.func) or "") in ("math.ceil", "ceil") and len(inner.args) == 1 and isinstance(inner.args[0], ast.BinOp) and isinstance(inner.args[0].op, ast.Div):
        b = inner.args[0]
        if isinstance(b.right, ast.Constant) and b.right.value == 8:
            try:
                p = se.expr(b.left, dict(env))
            except NotPolynomial:
                return None
            return p if isinstance(p, Poly) else None
    return None


def filters_resolved_instance(model: Model, r2) -> None:
    """Shared by C03-R2 and C18-R7."""
    gf = model.func(T + "PDFStream.get_filters")
    # "is it one entry or an array of them" is asked of the resolved value: /Filter and /DecodeParms may be indirect references
    for t in [n for n in walk_no_nested(gf.node) if isinstance(n, ast.Call) and (dotted(n.func) or "") == "isinstance" and len(n.args) == 2 and isinstance(n.args[0], ast.Name) and unparse(n.args[1]) == "list"]:
        nm_ = t.args[0].id
        first = next((a for a in sorted((x for x in walk_no_nested(gf.node) if isinstance(x, ast.Assign) and any(isinstance(tt, ast.Name) and tt.id == nm_ for tt in x.targets)), key=lambda x: x.lineno)), None)
        okres = first is not None and isinstance(first.value, ast.Call) and (dotted(first.value.func) or "") in ("resolve1", "list_value", "resolve_all")
        r2.check(okres, site(gf, t), gf.qualname, f"{unparse(t)} tests a value that was resolved when it was read (`{unparse(first)[:70] if first is not None else '?'}`)", why=f"`{nm_}` is tested for being a list while it may still be an indirect reference: a reference to an array of parameter dictionaries is taken for a single entry, replicated per filter, and every copy resolves to the whole array - which is then no dictionary, so the predictor is silently skipped")


def run(model: Model, rep: Report) -> None:
    rep.explanation = (
        "C03: decides the structural part of stream decoding: filter names and abbreviations (Tables 6/94) and the decoder each reaches, "
        "filter k paired with parameter k and applied in list order with the predictor after its own filter, predictor dispatch, defaults "
        "(Table 8) and bindings, the units of the PNG row buffers (bytes per row / per pixel rounded up; prior row of the same length), the "
        "Paeth function and the operands each PNG filter type reads, and the delimitation of the payload by /Length after the stream line. "
        "Correctness of the LZW/RunLength/ASCII85 decoders themselves (round-trip equality) is not decided."
    )
    spec = _spec()
    fo = Folder(model)
    mod = model.module("pdfminer.pdftypes")
    # ---------------------------------------------------------------- R1
    r1 = rep.rule("C03-R1", "DISPATCH", "filter names/abbreviations equal Tables 6 and 94 and each group reaches its decoder", 15)
    for name, want in spec["filters"].items():
        if name not in mod.assigns:
            raise AnchorMissing(f"{T}{name} not found")
        try:
            v = fo.fold(mod, mod.assigns[name])
        except Unfoldable as ex:
            raise AnchorMissing(f"{T}{name} not foldable: {ex}")
        got = [x.name for x in v if isinstance(x, Lit)]
        r1.check(sorted(got) == sorted(want), f"pdfminer/pdftypes.py:{mod.assigns[name].lineno}:{name}", T + name, f"{name} == {want}", why=f"is {got}")
    dec = model.func(T + "PDFStream.decode")
    def _is_filters(e: ast.AST) -> bool:
        """the iterable is self.get_filters() itself or a local bound (once) to it"""
        if isinstance(e, ast.Call) and (dotted(e.func) or "") == "self.get_filters":
            return True
        if isinstance(e, ast.Name):
            ds = [a.value for a in walk_no_nested(dec.node) if isinstance(a, ast.Assign) and any(isinstance(t, ast.Name) and t.id == e.id for t in a.targets)]
            return len(ds) == 1 and isinstance(ds[0], ast.Call) and (dotted(ds[0].func) or "") == "self.get_filters"
        return False

    loop = next((n for n in walk_no_nested(dec.node) if isinstance(n, ast.For) and _is_filters(n.iter)), None)
    if loop is None:
        raise AnchorMissing("PDFStream.decode: `for f, params in filters` not found")
    fvar = unparse(loop.target.elts[0]) if isinstance(loop.target, ast.Tuple) else "f"
    pvar = unparse(loop.target.elts[1]) if isinstance(loop.target, ast.Tuple) else "params"
    chain = next((s for s in loop.body if isinstance(s, ast.If) and fvar + " in LITERALS_" in unparse(s.test)), None)
    reached: Dict[str, Tuple[str, List[str]]] = {}
    order: List[str] = []
    cur: Optional[ast.stmt] = chain
    while isinstance(cur, ast.If):
        groups = [unparse(c.comparators[0]) for c in bool_operands(cur.test, ast.Or) if isinstance(c, ast.Compare) and unparse(c.left) == fvar and isinstance(c.ops[0], ast.In)]
        # first assignment `data = <call>(...)` anywhere in the branch (Flate has it inside a try)
        callee = ("pass", [])
        # a local bound to {k: resolve1(v) for (k, v) in params.items()} is the parameter dictionary (values resolved)
        alias = {}
        for st in cur.body:
            if isinstance(st, ast.Assign) and len(st.targets) == 1 and isinstance(st.targets[0], ast.Name) and isinstance(st.value, ast.DictComp) and len(st.value.generators) == 1 and "".join(unparse(st.value.generators[0].iter).split()) == f"{pvar}.items()" and isinstance(st.value.value, ast.Call) and (dotted(st.value.value.func) or "") in ("resolve1", "resolve_all"):
                alias[st.targets[0].id] = pvar
        for n in sorted([x for st in cur.body for x in [st] + list(walk_no_nested(st)) if isinstance(x, ast.Assign)], key=lambda x: (x.lineno, x.col_offset)):
            if isinstance(n, ast.Assign) and unparse(n.targets[0]) == "data" and isinstance(n.value, ast.Call):
                callee = (dotted(n.value.func) or "?", [alias.get(unparse(a), unparse(a)) for a in n.value.args])
                break
        if any(isinstance(n, ast.Raise) for st in cur.body for n in [st] + list(walk_no_nested(st))) and callee[0] == "pass":
            callee = ("raise", [])
        for gname in groups:
            if gname not in reached:
                reached[gname] = callee
                order.append(gname)
        cur = cur.orelse[0] if len(cur.orelse) == 1 and isinstance(cur.orelse[0], ast.If) else None
    for gname, (fn, args) in spec["decoders"].items():
        got = reached.get(gname)
        r1.check(got is not None and got[0] == fn and got[1] == args, site(dec, chain) if chain is not None else site(dec), dec.qualname, f"{gname} -> {fn}({', '.join(args)})", why=f"reaches {got}")
    for gname in spec["passthrough"]:
        got = reached.get(gname)
        r1.check(got is not None and got[0] == "pass", site(dec), dec.qualname, f"{gname} data is passed through unchanged", why=f"reaches {got}")

    # ---------------------------------------------------------------- R2
    r2 = rep.rule("C03-R2", "ORDER", "filter k is paired with parameter k (scalar parameters replicated); filters applied in list order, predictor after its own filter", 8)
    gf = model.func(T + "PDFStream.get_filters")
    src = unparse(gf.node).replace(" ", "")
    r2.check("returnlist(zip(resolved_filters,resolved_params))" in src and "resolved_filters=[resolve1(f)forfinfilters]" in src and "resolved_params=[resolve1(param)forparaminparams]" in src, site(gf), gf.qualname, "pairs = zip(resolved filters, resolved parameters) in order; indirect entries resolved", why="pairing changed")
    r2.check("params=[params]*len(filters)" in src and "filters=[filters]" in src, site(gf), gf.qualname, "a single filter / a single parameter dictionary is normalised to lists of equal length", why="normalisation changed")
    r2.check("self.get_any(('F','Filter'),[])" in src and "self.get_any(('DP','DecodeParms','FDecodeParms'),{})" in src, site(gf), gf.qualname, "Filter (F) and DecodeParms (DP, FDecodeParms) keys", why="keys changed")
    filters_resolved_instance(model, r2)
    r2.check(_is_filters(loop.iter), site(dec, loop), dec.qualname, "decode walks get_filters() front to back, each stage feeding the next through `data`", why="iteration changed")
    pred_if = next((s for s in loop.body if isinstance(s, ast.If) and "'Predictor' in " + pvar in unparse(s.test)), None)
    okp = pred_if is not None and chain is not None and loop.body.index(pred_if) > loop.body.index(chain)
    r2.check(okp, site(dec, pred_if) if pred_if is not None else site(dec), dec.qualname, "the predictor of a filter is undone right after that filter, inside the loop", why="predictor block not after the filter dispatch inside the loop")
    predictor_reached_instance(model, r2)
    # data flows into decipher first
    g = build_cfg(dec.node, exc_edges=False)
    dom = g.dominators()
    decn = [n.id for n in g.nodes if n.kind == "stmt" and n.ast is not None and contains_call(n.ast, lambda c: (dotted(c.func) or "") == "self.decipher")]
    ln = g.node_of(loop)
    r2.check(bool(decn) and ln is not None and all(d < ln for d in decn), site(dec), dec.qualname, "decryption (if any) precedes the filter chain", why="decipher not before the loop")

    # ---------------------------------------------------------------- R3
    r3 = rep.rule("C03-R3", "BIND", "predictor dispatch 1 / 2 / >=10, Table 8 defaults, bindings into the predictor functions", 4)
    branches: Dict[str, ast.If] = {}
    if pred_if is not None:
        c2 = next((s for s in pred_if.body if isinstance(s, ast.If)), None)
        while isinstance(c2, ast.If):
            branches[unparse(c2.test).replace(" ", "")] = c2
            c2 = c2.orelse[0] if len(c2.orelse) == 1 and isinstance(c2.orelse[0], ast.If) else None
    r3.check(set(branches) == {"pred==1", "pred==2", "pred>=10"}, site(dec, pred_if) if pred_if is not None else site(dec), dec.qualname, "Predictor 1 -> none, 2 -> TIFF, >= 10 -> PNG, anything else rejected", why=f"branches {sorted(branches)}")
    for key, fn, nm in (("pred==2", "apply_tiff_predictor", "TIFF"), ("pred>=10", "apply_png_predictor", "PNG")):
        br = branches.get(key)
        if br is None:
            continue
        callee = model.func(U + fn)
        calls = [c for st in br.body for c in [st] + list(walk_no_nested(st)) if isinstance(c, ast.Call) and (dotted(c.func) or "") == fn]
        if not calls:
            r3.violation(site(dec, br), dec.qualname, f"{nm} predictor call", "not found")
            continue
        b = bind_args(calls[0], callee, skip_self=False)
        # resolve each bound local back to the parameter key it was read from
        srcmap: Dict[str, str] = {}
        for st in br.body:
            if isinstance(st, ast.Assign) and isinstance(st.targets[0], ast.Name) and st.targets[0].id != "data":
                srcmap[st.targets[0].id] = unparse(st.value).replace(" ", "")
        def origin(e: ast.AST) -> str:
            t = unparse(e)
            seen = 0
            while t in srcmap and seen < 4:
                t2 = srcmap[t]
                # int_value(x) -> x
                if t2.startswith("int_value(") and t2.endswith(")"):
                    t2 = t2[len("int_value(") : -1]
                t = t2
                seen += 1
            return t
        d = spec["predictor_defaults"]
        want = {"colors": f"{pvar}.get('Colors',{d['Colors']})", "columns": f"{pvar}.get('Columns',{d['Columns']})", "bitspercomponent": f"{pvar}.get('BitsPerComponent',{d['BitsPerComponent']})", "data": "data"}
        if fn == "apply_png_predictor":
            want["pred"] = "pred"
        bad = [f"{k}<-{origin(b[k]) if k in b else None}" for k, v in want.items() if k not in b or origin(b[k]) != v]
        r3.check(not bad, site(dec, calls[0]), dec.qualname, f"{fn}({', '.join(callee.params)}) receives Colors/Columns/BitsPerComponent with defaults 1/1/8", why="; ".join(bad))
    r3.check("pred = int_value(" + pvar + "['Predictor'])" in unparse(dec.node), site(dec), dec.qualname, "the predictor code is read from the filter's own parameters", why="changed")

    # ---------------------------------------------------------------- R4
    r4 = rep.rule("C03-R4", "UNITS", "PNG predictor row buffers: bytes per row and per pixel are rounded up; the prior row has the row's length", 3)
    png = model.func(U + "apply_png_predictor")
    se = SymEval(opaque_ok=False)
    P = png.params
    colors, columns, bpc = Poly.var(P[1]), Poly.var(P[2]), Poly.var(P[3])
    asg = {unparse(n.targets[0]): n for n in walk_no_nested(png.node) if isinstance(n, ast.Assign) and isinstance(n.targets[0], ast.Name) and n.targets[0].id in ("nbytes", "bpp", "line_above") and n.lineno < min((x.lineno for x in walk_no_nested(png.node) if isinstance(x, ast.For)), default=10**9)}
    nb = asg.get("nbytes")
    if nb is None:
        raise AnchorMissing("apply_png_predictor: nbytes not found")
    p = _ceil8_form(nb.value, se, {})
    if p is not None and p == colors * columns * bpc:
        r4.ok(site(png, nb), png.qualname, "nbytes = ceil(colors * columns * bits / 8)")
    else:
        r4.violation(site(png, nb), png.qualname, f"nbytes = {unparse(nb.value)}", "bytes per row must be rounded up: a 1-bit row whose width is not a multiple of 8 is cut short and every following row is misaligned")
    bp = asg.get("bpp")
    if bp is None:
        raise AnchorMissing("apply_png_predictor: bpp not found")
    p = _ceil8_form(bp.value, se, {})
    if p is not None and p == colors * bpc:
        r4.ok(site(png, bp), png.qualname, "bpp = ceil(colors * bits / 8) (at least 1)")
    else:
        r4.violation(site(png, bp), png.qualname, f"bpp = {unparse(bp.value)}", "bytes per pixel must round up to at least 1 (PNG 6.2): with 1-bit samples bpp is 0 and Sub/Average/Paeth read raw[j - 0], which does not exist yet (IndexError)")
    la = asg.get("line_above")
    if la is None:
        raise AnchorMissing("apply_png_predictor: line_above not found")
    txt = unparse(la.value).replace(" ", "")
    if "nbytes" in txt and "columns" not in txt:
        r4.ok(site(png, la), png.qualname, "the initial prior row has nbytes zero bytes")
    else:
        r4.violation(site(png, la), png.qualname, f"line_above = {unparse(la.value)}", "the prior row is sized in pixels, not bytes: with 3 colours Up on the first row returns a third of the row and Average/Paeth index past its end")

    # ---------------------------------------------------------------- R5
    _png_filters(model, rep, png)

    # ---------------------------------------------------------------- R7
    _lzw(model, rep)
    _simple_decoders(model, rep)
    _tiff_and_lzw_run(model, rep)
    # ---------------------------------------------------------------- R6
    r6 = rep.rule("C03-R6", "ORDER", "payload delimitation: starts after the line holding `stream`, has /Length bytes, untouched outside fallback mode", 6)
    dk = model.func("pdfminer.pdfparser.PDFParser.do_keyword")
    br = None
    for n in walk_no_nested(dk.node):
        if isinstance(n, ast.If) and isinstance(n.test, ast.Compare) and unparse(n.test.comparators[0]).endswith("KEYWORD_STREAM"):
            br = n
    if br is None:
        raise AnchorMissing("PDFParser.do_keyword: stream branch not found")
    fn = ast.FunctionDef(name="_stream", args=dk.node.args, body=br.body, decorator_list=[], lineno=br.lineno, col_offset=0)  # type: ignore[attr-defined]
    g = build_cfg(fn, exc_edges=False)
    dom = g.dominators()

    def node_with(text: str) -> Optional[int]:
        for n in g.nodes:
            if n.kind == "stmt" and n.ast is not None and unparse(n.ast).replace(" ", "") == text.replace(" ", ""):
                return n.id
        return None

    seq = ["self.seek(pos)", "(_, line) = self.nextline()", "pos += len(line)", "self.fp.seek(pos)", "data = bytearray(self.fp.read(objlen))"]
    ids = [node_with(s) or node_with(s.replace("(_, line)", "_, line")) for s in seq]
    oks = all(i is not None for i in ids) and all(ids[k] in dom[ids[k + 1]] for k in range(len(ids) - 1))  # type: ignore[index]
    r6.check(oks, site(dk, br), dk.qualname, "seek to the keyword, consume its line (CR LF or LF), read Length bytes from there", why=f"sequence {seq} not found in dominance order: {ids}")
    src = " ".join(unparse(s) for s in br.body)
    r6.check(("objlen = int_value(dic['Length'])" in src or "objlen = max(0, int_value(dic['Length']))" in src) and "dic = dict_value(dic)" in src, site(dk, br), dk.qualname, "the length is int_value(dic['Length']) (indirect lengths resolve)", why="Length read changed")
    r6.check("stream = PDFStream(dic, bytes(data), self.doc.decipher)" in src, site(dk, br), dk.qualname, "the stream object holds exactly the bytes read (and the document's decipher)", why="construction changed")
    # every write to the payload after it was read is an append guarded by the fallback flag
    from .tokenizer import _guard_tests, refill_before_read_rule

    writes = []
    for n in walk_no_nested(br):
        tgt = None
        if isinstance(n, ast.AugAssign):
            tgt = n.target
        elif isinstance(n, ast.Delete):
            tgt = n.targets[0]
        elif isinstance(n, ast.Assign) and isinstance(n.targets[0], ast.Subscript):
            tgt = n.targets[0]
        elif isinstance(n, ast.Call) and isinstance(n.func, ast.Attribute) and n.func.attr in ("extend", "append", "pop", "clear", "insert", "remove", "reverse", "__delitem__", "__setitem__", "strip", "rstrip"):
            tgt = n.func.value
        if tgt is None:
            continue
        root = tgt
        while isinstance(root, (ast.Subscript, ast.Attribute)):
            root = root.value
        if isinstance(root, ast.Name) and root.id == "data":
            writes.append(n)
    badw = [w for w in writes if not (isinstance(w, ast.AugAssign) and isinstance(w.op, ast.Add) and any(pol and unparse(t) == "self.fallback" for t, pol in _guard_tests(dk, w)))]
    r6.check(len(writes) >= 2 and not badw, site(dk, badw[0]) if badw else site(dk, br), dk.qualname, "the bytes read are changed only by appending scanned lines in fallback mode", why=f"`{unparse(badw[0])[:60]}` modifies the payload outside fallback mode: with a correct /Length the data read are exactly the stream's bytes (a payload may legitimately end in CR or LF)" if badw else "payload writes not found")
    rebind = [n for n in walk_no_nested(br) if isinstance(n, ast.Assign) and any(isinstance(t, ast.Name) and t.id == "data" for t in n.targets)]
    r6.check(len(rebind) == 1, site(dk, rebind[-1]) if rebind else site(dk, br), dk.qualname, "the payload variable is bound once (to the bytes read)", why=f"{len(rebind)} bindings of `data`")
    nl = model.func("pdfminer.psparser.PSBaseParser.nextline")
    refill_before_read_rule(model, rep, "C03-R9", nl)
    nsrc = unparse(nl.node).replace(" ", "")
    r6.check("ifc==b'\\n':" in nsrc and "linebuf[-1:]==b'\\r'" in nsrc, site(nl), nl.qualname, "nextline consumes CR LF as one line end (the LF after a CR belongs to the line)", why="CR LF handling changed")


def png_filters_rule(model: Model, rep: Report, rid: str) -> None:
    _png_filters(model, rep, model.func(U + "apply_png_predictor"), rid)


def predictor_reached_instance(model: Model, rule) -> None:
    """Whatever filter a stage of the chain is, its /Predictor is looked at: in the loop over get_filters() every path through
    the body reaches the `'Predictor' in params` test (no `continue` / early exit between the decoder dispatch and it)."""
    dec = model.func(T + "PDFStream.decode")

    def _iter_ok(e: ast.AST) -> bool:
        if isinstance(e, ast.Call) and (dotted(e.func) or "") == "self.get_filters":
            return True
        if isinstance(e, ast.Name):
            ds = [a.value for a in walk_no_nested(dec.node) if isinstance(a, ast.Assign) and any(isinstance(t, ast.Name) and t.id == e.id for t in a.targets)]
            return len(ds) == 1 and isinstance(ds[0], ast.Call) and (dotted(ds[0].func) or "") == "self.get_filters"
        return False

    loop = next((n for n in walk_no_nested(dec.node) if isinstance(n, ast.For) and _iter_ok(n.iter)), None)
    if loop is None:
        raise AnchorMissing("PDFStream.decode: loop over get_filters() not found")
    frag = ast.FunctionDef(name="_body", args=ast.arguments(posonlyargs=[], args=[], kwonlyargs=[], kw_defaults=[], defaults=[]), body=loop.body, decorator_list=[], lineno=loop.lineno, col_offset=0)
    g = build_cfg(frag, exc_edges=False)
    wit = g.all_path_pass(g.entry, lambda n: n.kind == "test" and n.ast is not None and "'Predictor' in" in unparse(n.ast), skip_labels=("exc",))
    # paths that end in a raise never deliver data and need no predictor
    ok = wit is None or any(g.nodes[x].kind == "raise" for x in wit)
    rule.check(ok, site(dec, loop), dec.qualname, "every path through one stage of the filter chain reaches the `'Predictor' in params` test", why="a stage can finish (continue / fall out) without its predictor being looked at: LZW or another filter with /Predictor 2 or >= 10 would deliver still-predicted bytes")


def _png_filters(model: Model, rep: Report, png: FuncInfo, rid: str = "C03-R5") -> None:
    r5 = rep.rule(rid, "NORMFORM", "Paeth function equals PNG 6.6; each filter type reads the spec'd operands and reduces mod 256", 8)
    pa = model.func(U + "paeth_predictor")
    se = SymEval(opaque_ok=True)
    se.calls = {"abs": lambda x: ("abs", x) if not (isinstance(x, Poly) and x.is_const()) else Poly.const(abs(x.const_value()))}
    env: Dict[str, object] = {}
    a, b, c = (Poly.var(x) for x in pa.params)
    try:
        body = [s for s in pa.node.body if isinstance(s, (ast.Assign,))]  # type: ignore[attr-defined]
        se.run_block(body, env)
        okp = env.get("p") == a + b - c and env.get("pa") == ("abs", b - c) and env.get("pb") == ("abs", a - c) and env.get("pc") == ("abs", a + b - c - c)
    except NotPolynomial as ex:
        okp = False
    r5.check(bool(okp), site(pa), pa.qualname, "p = a + b - c; pa = |p - a|, pb = |p - b|, pc = |p - c|", why=f"got p={env.get('p')!r} pa={env.get('pa')!r} pb={env.get('pb')!r} pc={env.get('pc')!r}")
    ifs = [s for s in pa.node.body if isinstance(s, ast.If)]  # type: ignore[attr-defined]
    okt = False
    if ifs:
        first = ifs[0]
        try:
            t1 = {x for p_ in bool_operands(first.test, ast.And) for x in canon_compare(p_)}
            r1_ = unparse(first.body[0].value) if isinstance(first.body[0], ast.Return) else ""
            second = first.orelse[0] if first.orelse and isinstance(first.orelse[0], ast.If) else None
            t2 = set(canon_compare(second.test)) if second is not None else set()
            r2_ = unparse(second.body[0].value) if second is not None and isinstance(second.body[0], ast.Return) else ""
            r3_ = unparse(second.orelse[0].value) if second is not None and second.orelse and isinstance(second.orelse[0], ast.Return) else ""
            okt = t1 == {("pa", "<=", "pb"), ("pa", "<=", "pc")} and t2 == {("pb", "<=", "pc")} and [r1_, r2_, r3_] == list(pa.params)
        except (ValueError, AttributeError, IndexError):
            okt = False
    r5.check(okt, site(pa), pa.qualname, "nearest of a, b, c with ties broken in the order a, b, c (<=)", why="tie-breaking changed")
    # per filter type
    br: Dict[int, ast.If] = {}
    for n in walk_no_nested(png.node):
        if isinstance(n, ast.If) and isinstance(n.test, ast.Compare) and unparse(n.test.left) == "filter_type" and isinstance(n.test.comparators[0], ast.Constant):
            br[n.test.comparators[0].value] = n
    def body_src(k: int) -> str:
        return "".join("".join(unparse(s) for s in br[k].body).split()) if k in br else ""
    r5.check(set(br) == {0, 1, 2, 3, 4}, site(png), png.qualname, "filter types 0-4 are handled, others rejected", why=f"{sorted(br)}")
    s0 = body_src(0)
    r5.check("raw=list(line_encoded)" in s0, site(png), png.qualname, "None: bytes copied", why=s0[:80])
    s1 = body_src(1)
    r5.check("raw_x_bpp=int(raw[j-bpp])" in s1 and "raw_x=sub_x+raw_x_bpp&255" in s1 and "ifj-bpp<0:raw_x_bpp=0" in s1, site(png), png.qualname, "Sub: Raw(x) = Sub(x) + Raw(x - bpp) mod 256, zero left of the row", why=s1[:160])
    s2 = body_src(2)
    r5.check("zip(line_encoded,line_above)" in s2 and "raw_x=up_x+prior_x&255" in s2, site(png), png.qualname, "Up: Raw(x) = Up(x) + Prior(x) mod 256", why=s2[:160])
    s3 = body_src(3)
    r5.check("prior_x=int(line_above[j])" in s3 and "raw_x=average_x+(raw_x_bpp+prior_x)//2&255" in s3 and "raw_x_bpp=int(raw[j-bpp])" in s3, site(png), png.qualname, "Average: Raw(x) = Avg(x) + floor((Raw(x-bpp) + Prior(x)) / 2) mod 256", why=s3[:200])
    s4 = body_src(4)
    r5.check("paeth=paeth_predictor(raw_x_bpp,prior_x,prior_x_bpp)" in s4 and "raw_x_bpp=int(raw[j-bpp])" in s4 and "prior_x_bpp=int(line_above[j-bpp])" in s4 and "prior_x=int(line_above[j])" in s4 and "raw_x=paeth_x+paeth&255" in s4, site(png), png.qualname, "Paeth: predictor(left = Raw(x-bpp), above = Prior(x), upper-left = Prior(x-bpp))", why=s4[:240])
    pred_reads = [n for n in walk_no_nested(png.node) if isinstance(n, ast.Name) and isinstance(n.ctx, ast.Load) and n.id == png.params[0]]
    r5.check(not pred_reads, site(png, pred_reads[0]) if pred_reads else site(png), png.qualname, f"the declared /Predictor value (`{png.params[0]}`) does not take part in decoding: each row's filter is the row's own tag byte", why=f"`{png.params[0]}` is read: PNG predictors 10-15 all mean `the filter is chosen row by row` (Table 10), so a row whose tag differs from the declared value would be decoded with the wrong filter")
    src = unparse(png.node).replace(" ", "")
    r5.check("line_above=raw" in src and "range(0,len(data),nbytes+1)" in src and "filter_type=data[scanline_i]" in src and "line_encoded=data[scanline_i+1:scanline_i+1+nbytes]" in src, site(png), png.qualname, "rows are 1 + nbytes long: type byte, then data; each decoded row becomes the next prior row", why="row framing changed")


def _lzw(model: Model, rep: Report, rid: str = "C03-R7") -> None:
    r7 = rep.rule(rid, "WRITESET", "LZW decoder: the clear-table code re-establishes the whole initial dictionary state; code widths grow at 511/1023/2047 (7.4.4.2)", 6)
    init = model.func("pdfminer.lzw.LZWDecoder.__init__")
    feed = model.func("pdfminer.lzw.LZWDecoder.feed")
    from ..util import self_fields_written

    init_fields = {k: unparse(v[0].value) for k, v in self_fields_written(init).items() if isinstance(v[0], (ast.Assign, ast.AnnAssign))}
    clear = None
    for n in walk_no_nested(feed.node):
        if isinstance(n, ast.If) and unparse(n.test).replace(" ", "") == f"{feed.params[1]}==256":
            clear = n
    if clear is None:
        raise AnchorMissing("LZWDecoder.feed: clear-table branch (code == 256) not found")
    written = {}
    for st in clear.body:
        for n in [st] + list(walk_no_nested(st)):
            if isinstance(n, ast.Assign) and unparse(n.targets[0]).startswith("self."):
                written[unparse(n.targets[0])[5:]] = unparse(n.value)
    dict_state = {"table", "prevbuf", "nbits"}
    missing = sorted(dict_state - set(written))
    r7.check(not missing, site(feed, clear), feed.qualname, "clear-table (256) resets table, prevbuf and nbits", why=f"not reset: {missing} - after a mid-stream clear the decoder keeps the old code width/dictionary and mis-frames the rest of the data")
    r7.check(written.get("nbits") == init_fields.get("nbits") == "9", site(feed, clear), feed.qualname, "after a clear the code width is 9 bits again, as at the start", why=f"clear sets nbits={written.get('nbits')}, __init__ sets {init_fields.get('nbits')}")
    src = "".join(unparse(feed.node).split())
    r7.check("iftable_length==511:self.nbits=10eliftable_length==1023:self.nbits=11eliftable_length==2047:self.nbits=12" in src, site(feed), feed.qualname, "the code width grows to 10/11/12 bits when the table reaches 511/1023/2047 entries (early change)", why="width thresholds changed")
    # every entry that is added passes the width test before feed returns: the width must follow the table size on every way
    g7 = build_cfg(feed.node, exc_edges=False)
    appends = [n for n in g7.nodes if n.kind == "stmt" and n.ast is not None and contains_call(n.ast, lambda c: (dotted(c.func) or "") == "self.table.append" and not (c.args and isinstance(c.args[0], ast.Constant) and c.args[0].value is None))]
    if len(appends) < 2:
        raise AnchorMissing("LZWDecoder.feed: the two dictionary additions not found")
    rets7 = [n.id for n in g7.nodes if n.kind == "stmt" and isinstance(n.ast, ast.Return)]

    def _width_test(nd) -> bool:
        return nd.kind == "test" and nd.ast is not None and any(isinstance(c, ast.Constant) and c.value == 511 for c in ast.walk(nd.ast))

    for a7 in appends:
        w7 = g7.all_path_pass(a7.id, _width_test, until=rets7)
        r7.check(w7 is None, site(feed, a7.ast), feed.qualname, f"`{unparse(a7.ast)[:60]}` : every way from this addition to the end of feed passes the 511/1023/2047 test", why="an entry is added and feed returns without looking at the table size: when that entry is the 511th, 1023rd or 2047th the code width stays as it was and everything after it is mis-framed")
    r7.check("self.table=[bytes((c,))forcinrange(256)]" in src and src.count("self.table.append(None)") == 2 and f"elif{feed.params[1]}==257:pass" in src, site(feed), feed.qualname, "the initial table has the 256 single bytes plus the clear (256) and EOD (257) slots", why="initial table changed")
    rb = model.func("pdfminer.lzw.LZWDecoder.readbits")
    s2 = "".join(unparse(rb.node).split())
    r7.check("v=v<<bits|self.buff>>r-bits&(1<<bits)-1" in s2 and "v=v<<r|self.buff&(1<<r)-1" in s2 and "r=8-self.bpos" in s2, site(rb), rb.qualname, "codes are read most significant bit first across byte boundaries", why="bit reader changed")


def _simple_decoders(model: Model, rep: Report, rid: str = "C03-R8") -> None:
    """C03-R8 (= C18-R18): the byte-oriented decoders' constants and case split (ISO 32000-1 7.4.2, 7.4.3, 7.4.5)."""
    from ..fold import Folder, Regex, Unfoldable

    r8 = rep.rule(rid, "TABLE", "RunLength: 0..127 copies length+1 bytes, 129..255 repeats one byte 257-length times, 128 (or exhaustion) ends; ASCIIHex: white space ignored, `>` ends, odd digit padded with 0; ASCII85 markers are stripped only at the ends", 7)
    rl = model.func("pdfminer.runlength.rldecode")
    se = SymEval(opaque_ok=True)
    L = Poly.var("length")
    tests = {"".join(unparse(n.test).split()): n for n in walk_no_nested(rl.node) if isinstance(n, ast.If)}
    # EOD
    eod = [n for t, n in tests.items() if t in ("length==128", "128==length")]
    nxt = [c for c in walk_no_nested(rl.node) if isinstance(c, ast.Call) and (dotted(c.func) or "") == "next" and len(c.args) == 2]
    r8.check(len(eod) == 1 and any(isinstance(s, ast.Break) for s in eod[0].body) and len(nxt) == 1 and isinstance(nxt[0].args[1], ast.Constant) and nxt[0].args[1].value == 128, site(rl), rl.qualname, "length byte 128 - and the end of the data - stop the decoder", why=f"tests: {sorted(tests)}")
    lit = [n for t, n in tests.items() if t in ("0<=length<128", "length<128", "0<=lengthandlength<128", "length<=127", "0<=length<=127")]
    ok = False
    why = f"tests: {sorted(tests)}"
    if len(lit) == 1:
        rng = [c for c in walk_no_nested(lit[0]) if isinstance(c, ast.Call) and (dotted(c.func) or "") == "range" and len(c.args) == 1]
        try:
            ok = len(rng) == 1 and se.expr(rng[0].args[0], {}) == L + Poly.const(1)
            why = f"copies range({unparse(rng[0].args[0]) if rng else '?'}) bytes"
        except NotPolynomial as ex:
            why = str(ex)
    r8.check(ok, site(rl), rl.qualname, "a length byte of 0..127 copies the next length + 1 bytes", why=why)
    run = [n for t, n in tests.items() if t in ("length>128", "128<length", "length>=129", "129<=length")]
    ok = False
    if len(run) == 1:
        muls = [b for b in walk_no_nested(run[0]) if isinstance(b, ast.BinOp) and isinstance(b.op, ast.Mult)]
        for b in muls:
            for side in (b.left, b.right):
                try:
                    if se.expr(side, {}) == Poly.const(257) - L:
                        ok = True
                except NotPolynomial:
                    pass
    r8.check(ok, site(rl), rl.qualname, "a length byte of 129..255 repeats the next byte 257 - length times", why=f"tests: {sorted(tests)}")
    # ASCIIHex
    ah = model.func("pdfminer.ascii85.asciihexdecode")
    s = "".join(unparse(ah.node).split())
    mod = model.module("pdfminer.ascii85")
    fo = Folder(model)
    try:
        bws = fo.fold(mod, mod.assigns["bws_re"])
        ws_ok = isinstance(bws, Regex) and bws.byteset() >= frozenset({0x09, 0x0A, 0x0C, 0x0D, 0x20}) and not (bws.byteset() & frozenset(b"0123456789abcdefABCDEF>"))
    except (KeyError, Unfoldable):
        ws_ok = False
    r8.check(ws_ok and "data=bws_re.sub(b'',data)" in s, site(ah), ah.qualname, "white space between the digits is dropped (and nothing else)", why="white-space class changed")
    r8.check("idx=data.find(b'>')" in s and "ifidx!=-1:data=data[:idx]ifidx%2==1:data+=b'0'" in s and s.endswith("returnunhexlify(data)"), site(ah), ah.qualname, "`>` ends the data; an odd number of digits is completed with 0", why="EOD / padding changed")
    # ASCII85 markers
    a85 = model.func("pdfminer.ascii85.ascii85decode")
    try:
        st, en = fo.fold(mod, mod.assigns["start_re"]), fo.fold(mod, mod.assigns["end_re"])
        pst, pen = (st.pattern if isinstance(st, Regex) else b""), (en.pattern if isinstance(en, Regex) else b"")
    except (KeyError, Unfoldable):
        pst = pen = b""
    r8.check(pst.startswith(b"^") and b"~" in pst and pen.endswith(b"$") and b"~" in pen, site(a85), a85.qualname, "the <~ and ~> markers are removed only at the very start / end and only together with a `~`", why=f"start {pst!r} end {pen!r}: an unanchored pattern would eat `<`/`>`/`~`-adjacent digits inside the data")
    s2 = "".join(unparse(a85.node).split())
    r8.check("data=start_re.sub(b'',data)data=end_re.sub(b'',data)returna85decode(data)" in s2, site(a85), a85.qualname, "markers stripped, then base-85 decoded (5 digits -> 4 bytes, z shorthand, partial group) by base64.a85decode", why="changed")


def _tiff_and_lzw_run(model: Model, rep: Report) -> None:
    r10 = rep.rule("C03-R10", "NORMFORM", "TIFF predictor 2: each sample is the stored difference plus the sample one pixel to the left (mod 256), rows of columns * colors bytes; LZW: codes are read MSB first at the current width until the data ends", 4)
    tf = model.func(U + "apply_tiff_predictor")
    s1 = "".join(unparse(tf.node).split())
    r10.check("bpp=colors*(bitspercomponent//8)" in s1 and "nbytes=columns*bpp" in s1 and "forscanline_iinrange(0,len(data),nbytes):" in s1 and "ifi>=bpp:new_value+=raw[i-bpp]new_value%=256raw.append(new_value)" in s1 and ("new_value=data[scanline_i+i]" in s1 or "fori,new_valueinenumerate(data[scanline_i:scanline_i+nbytes]):" in s1.replace("for(i,new_value)in", "fori,new_valuein")) and "buf.extend(raw)" in s1, site(tf), tf.qualname, "row = columns * colors bytes; sample i (i >= bytes per pixel) += sample i - bytes per pixel of the same row, mod 256", why="TIFF predictor arithmetic changed")
    # the payload need not be a whole number of rows: a row is taken with a slice (which cannot overrun), never with an index
    # computed from the row start and the row size
    dparam = tf.params[-1]
    idx = [n for n in walk_no_nested(tf.node) if isinstance(n, ast.Subscript) and isinstance(n.value, ast.Name) and n.value.id == dparam]
    if not idx:
        raise AnchorMissing("apply_tiff_predictor: no access to the payload found")
    for n in idx:
        r10.check(isinstance(n.slice, ast.Slice), site(tf, n), tf.qualname, f"`{unparse(n)}` : the payload is read by slice", why=f"`{unparse(n)}` indexes the payload at row start + offset for a full row: when the payload is not a whole number of rows the last row is short and the index runs past the end (IndexError instead of the decoded bytes)")
    r10.check("ifbitspercomponent!=8:" in s1 and "raisePDFValueError(error_msg)" in s1, site(tf), tf.qualname, "only 8 bits per component are un-predicted; other depths are rejected, not mis-decoded", why="guard changed")
    rb = model.func("pdfminer.lzw.LZWDecoder.readbits")
    s2 = "".join(unparse(rb.node).split())
    r10.check("r=8-self.bpos" in s2 and "ifbits<=r:" in s2 and "v=v<<bits|self.buff>>r-bits&(1<<bits)-1" in s2.replace("(v<<bits)", "v<<bits").replace("(self.buff>>r-bits)", "self.buff>>r-bits").replace("(r-bits)", "r-bits") and "v=v<<r|self.buff&(1<<r)-1" in s2.replace("(v<<r)", "v<<r") and "x=self.fp.read(1)" in s2, site(rb), rb.qualname, "readbits takes the most significant unread bits of the current byte first and refills byte by byte", why="bit reader changed")

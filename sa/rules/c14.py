"""C14 - tokenizer is total, makes progress and is buffer-size independent on all bytes."""

from __future__ import annotations

from ..model import Model
from ..report import Report
from . import tokenizer as T


def run(model: Model, rep: Report) -> None:
    rep.explanation = (
        "C14: the twelve scanner methods of PSBaseParser are abstracted into a finite automaton (states = _parse_* methods, "
        "one transition per path through a loop-free scanner, each classified by how far the returned index advances); the whole "
        "automaton is analysed: every transition classified, zero-advance subgraph acyclic, driver loop progresses (=> termination, "
        "non-decreasing positions); an exception-flow analysis shows nothing but PSEOF escapes nexttoken; every buffer read is at the "
        "current byte or a consumed range and every pattern applied to the buffer is single-byte (=> identical tokens for every buffer size)."
    )
    rep.assumptions += ["`re` search/match terminate", "the file object is finite and read(n) returns b'' only at end of input", "a scanner is entered with i < len(s) (established by fillbuf, checked)"]
    fsm = T.fsm_progress(model, rep, "C14-R1")
    T.token_exceptions(model, rep, "C14-R2")
    T.buffer_oblivious(model, rep, "C14-R3", fsm)
    T.positions(model, rep, "C14-R4")
    T.eof_flush(model, rep, "C14-R5")
    T.state_change_not_in_try(model, rep, "C14-R6")

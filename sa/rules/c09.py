"""C09 - layout grouping follows the documented margins; result is scale-invariant."""

from __future__ import annotations

import ast
import copy
from typing import Dict, List, Optional, Set, Tuple

from ..dims import DimChecker
from ..model import AnchorMissing, FuncInfo, Model, dotted, unparse, walk_no_nested
from ..norm import NotPolynomial, Poly, SymEval, canon_compare
from ..report import Report
from ..util import bool_operands, site

L = "pdfminer.layout."


def _norm_expr(e: ast.AST) -> str:
    """Unparse with commutative operands (*, +, min, max) sorted."""
    e = copy.deepcopy(e)

    class T(ast.NodeTransformer):
        def visit_BinOp(self, n: ast.BinOp) -> ast.AST:
            self.generic_visit(n)
            if isinstance(n.op, (ast.Mult, ast.Add)):
                if unparse(n.left) > unparse(n.right):
                    n.left, n.right = n.right, n.left
            return n

        def visit_Call(self, n: ast.Call) -> ast.AST:
            self.generic_visit(n)
            if (dotted(n.func) or "") in ("min", "max"):
                n.args = sorted(n.args, key=unparse)
            return n

    return unparse(T().visit(e)).replace(" ", "")


def _conjuncts(e: ast.AST) -> Set[str]:
    out: Set[str] = set()
    for p in bool_operands(e, ast.And):
        if isinstance(p, ast.Compare) or (isinstance(p, ast.UnaryOp) and isinstance(p.op, ast.Not) and isinstance(p.operand, ast.Compare)):
            neg = isinstance(p, ast.UnaryOp)
            c = p.operand if neg else p  # type: ignore[union-attr]
            left = c.left
            for op, right in zip(c.ops, c.comparators):
                l, r = _norm_expr(left), _norm_expr(right)
                o = {ast.Lt: "<", ast.LtE: "<=", ast.Gt: ">", ast.GtE: ">=", ast.Eq: "==", ast.NotEq: "!="}[type(op)]
                if neg:
                    o = {"<": ">=", "<=": ">", ">": "<=", ">=": "<", "==": "!=", "!=": "=="}[o]
                if o == ">":
                    l, o, r = r, "<", l
                elif o == ">=":
                    l, o, r = r, "<=", l
                out.add(f"{l} {o} {r}")
                left = right
        else:
            out.add(_norm_expr(p))
    return out


_SWAP = [("voverlap", "@VO@"), ("hoverlap", "voverlap"), ("@VO@", "hoverlap"), ("hdistance", "@HD@"), ("vdistance", "hdistance"), ("@HD@", "vdistance"), ("height", "@H@"), ("width", "height"), ("@H@", "width")]


def _swap_hv(s: str) -> str:
    for a, b in _SWAP:
        s = s.replace(a, b)
    return s


def _swap_xy(s: str) -> str:
    return s.replace("x0", "@a").replace("y0", "x0").replace("@a", "y0").replace("x1", "@b").replace("y1", "x1").replace("@b", "y1")


def _isany_unfiltered(model: Model, rep: Report) -> None:
    """Two boxes are merged early only if *nothing* lies in the rectangle that spans them: the candidates are whatever the plane
    finds there, minus the two themselves - boxes and groups alike."""
    r = rep.rule("C09-R13", "WRITESET", "group_textboxes.isany: the set of objects in between is plane.find(<spanning box>) minus the pair itself - bound once, not narrowed by kind", 1)
    f = model.func("pdfminer.layout.LTLayoutContainer.group_textboxes.isany")
    asg = [n for n in walk_no_nested(f.node) if isinstance(n, (ast.Assign, ast.AugAssign)) and any(isinstance(t, ast.Name) and t.id == "objs" for t in (n.targets if isinstance(n, ast.Assign) else [n.target]))]
    rets = [n for n in walk_no_nested(f.node) if isinstance(n, ast.Return)]
    ok = len(asg) == 1 and isinstance(asg[0], ast.Assign) and "".join(unparse(asg[0].value).split()) == "set(plane.find((x0,y0,x1,y1)))" and len(rets) == 1 and "".join(unparse(rets[0].value).split()) == "objs.difference((obj1,obj2))"
    r.check(ok, site(f), f.qualname, "objs = set(plane.find((x0, y0, x1, y1))); return objs.difference((obj1, obj2))", why="the candidates are re-bound or filtered: an object of the kind that is filtered out (a lone box between two groups) no longer keeps the two apart, and the column comes out in another order")


def run(model: Model, rep: Report) -> None:
    rep.explanation = (
        "C09: the grouping predicates are extracted from layout.py, normalised (comparison direction, commutative operands) and compared with "
        "the documented definitions (docs/source/topic/converting_pdf_to_text.rst, LAParams docstring), horizontal and vertical variants must be "
        "mirror images; a dimension analysis over all comparisons, sums, min/max and sort keys of the layout code shows they are homogeneous in "
        "length with dimensionless parameters, which - with exact scaling by powers of two - is the whole argument for scale invariance. The "
        "grouping outcome on concrete arrangements is not decided."
    )
    rep.assumptions += ["multiplying a float by a power of two is exact (no overflow/underflow)", "|coordinate| < 2**31 - 1 (the INF sentinels)", "Plane.gridsize only affects bucketing; find() re-filters exactly (checked by C20)"]
    docs = model.read_text("docs/source/topic/converting_pdf_to_text.rst")
    _isany_unfiltered(model, rep)
    # ---------------------------------------------------------------- R1
    r1 = rep.rule("C09-R1", "TABLE", "grouping predicates equal the documented definitions (strictness, min/max, operands); vertical = mirrored horizontal", 12)
    doc_ok = all(k in docs for k in ("smaller than\nthe `char_margin`", "larger than the `line_overlap`", "maximum width of either one", "minimum height of either one", "maximum width or height of the new character", "multiplied by the\nheight of the bounding box"))
    r1.check(doc_ok, "docs/source/topic/converting_pdf_to_text.rst:0", "docs.converting_pdf_to_text", "the documentation states the definitions this rule encodes", why="documentation wording changed: re-derive the rule")
    go = model.func(L + "LTLayoutContainer.group_objects")
    prev = "obj0"
    cur = next((unparse(n.target) for n in walk_no_nested(go.node) if isinstance(n, ast.For)), "obj1")
    asg = {unparse(n.targets[0]): n.value for n in walk_no_nested(go.node) if isinstance(n, ast.Assign) and unparse(n.targets[0]) in ("halign", "valign")}
    if set(asg) != {"halign", "valign"}:
        raise AnchorMissing("group_objects: halign/valign not found")
    h = _conjuncts(asg["halign"])
    want_h = {
        f"{prev}.is_voverlap({cur})",
        f"laparams.line_overlap*min({prev}.height,{cur}.height) < {prev}.voverlap({cur})",
        f"{prev}.hdistance({cur}) < laparams.char_margin*max({prev}.width,{cur}.width)",
    }
    r1.check(h == want_h, site(go, asg["halign"]), go.qualname, "same line iff boxes overlap vertically by more than line_overlap * min(heights) and lie closer than char_margin * max(widths) (both strict)", why=f"got {sorted(h)}")
    v = _conjuncts(asg["valign"])
    want_v = {_swap_hv(x) for x in want_h} | {"laparams.detect_vertical"}
    r1.check(v == want_v, site(go, asg["valign"]), go.qualname, "vertical alignment is the mirror image of the horizontal one, under detect_vertical", why=f"got {sorted(v)}")
    # component predicates
    C = L + "LTComponent."
    se = SymEval(opaque_ok=True)
    se.calls = {"abs": lambda x: ("abs", x), "min": lambda *a: ("min", frozenset(a))}
    for hname, vname in (("is_hoverlap", "is_voverlap"), ("hdistance", "vdistance"), ("hoverlap", "voverlap")):
        fh, fv = model.func(C + hname), model.func(C + vname)
        sh = _swap_xy(_swap_hv("".join(unparse(ast.Module(body=[s for s in fh.node.body if not isinstance(s, ast.Assert)], type_ignores=[])).split())))  # type: ignore[attr-defined]
        sv = "".join(unparse(ast.Module(body=[s for s in fv.node.body if not isinstance(s, ast.Assert)], type_ignores=[])).split())  # type: ignore[attr-defined]
        sh = sh.replace("is_voverlap", "@").replace("is_hoverlap", "is_voverlap").replace("@", "is_hoverlap") if False else sh
        r1.check(sh.replace("is_hoverlap", "is_voverlap") == sv, site(fv), fv.qualname, f"{vname} is {hname} with x and y exchanged", why="the two directions differ")
    io = model.func(C + "is_hoverlap")
    rets = [n for n in walk_no_nested(io.node) if isinstance(n, ast.Return)]
    got = _conjuncts(rets[0].value) if rets else set()
    p = io.params[1]
    r1.check(got == {f"{p}.x0 <= self.x1", f"self.x0 <= {p}.x1"}, site(io), io.qualname, "intervals overlap iff each starts no later than the other ends", why=f"{sorted(got)}")
    hd = model.func(C + "hdistance")
    s_hd = "".join(unparse(hd.node).split())
    r1.check(f"ifself.is_hoverlap({p}):return0else:returnmin(abs(self.x0-{p}.x1),abs(self.x1-{p}.x0))" in s_hd, site(hd), hd.qualname, "distance = 0 when overlapping, else the smaller gap between facing edges", why="changed")
    ho = model.func(C + "hoverlap")
    s_ho = "".join(unparse(ho.node).split())
    r1.check(f"ifself.is_hoverlap({p}):returnmin(abs(self.x0-{p}.x1),abs(self.x1-{p}.x0))else:return0" in s_ho, site(ho), ho.qualname, "overlap = the smaller distance between opposite edges when overlapping, else 0", why="changed")
    # word margin
    for cls, pen, expr in (("LTTextLineHorizontal", "self._x1", "obj.x0 - self._x1 - margin"), ("LTTextLineVertical", "self._y0", "self._y0 - obj.y1 - margin")):
        f = model.func(L + cls + ".add")
        o = f.params[1]
        m = [n for n in walk_no_nested(f.node) if isinstance(n, ast.Assign) and unparse(n.targets[0]) == "margin"]
        okm = bool(m) and _norm_expr(m[0].value) == f"max({o}.height,{o}.width)*self.word_margin"
        tests = [n for n in walk_no_nested(f.node) if isinstance(n, ast.If) and isinstance(n.test, ast.Compare) and "margin" in unparse(n.test)]
        okt = False
        why = "no margin test"
        if tests:
            try:
                (l, op, r), = canon_compare(tests[0].test)
                pe = SymEval(opaque_ok=True)
                d = pe.expr(ast.parse(r, mode="eval").body, {}) - pe.expr(ast.parse(l, mode="eval").body, {})
                want = pe.expr(ast.parse(expr.replace("obj.", o + "."), mode="eval").body, {})
                okt = op == "<" and d == want
                why = f"test `{unparse(tests[0].test)}` means 0 {op} {d!r}; documented: 0 < {want!r}"
            except (ValueError, NotPolynomial) as ex:
                why = str(ex)
        adds_space = bool(tests) and any(isinstance(c, ast.Call) and (dotted(c.func) or "") == "LTContainer.add" and unparse(c.args[-1]) == "LTAnno(' ')" for s in tests[0].body for c in [s] + list(walk_no_nested(s)))
        upd = any(isinstance(n, ast.Assign) and unparse(n.targets[0]) == pen and unparse(n.value) == (f"{o}.x1" if "x" in pen else f"{o}.y0") for n in walk_no_nested(f.node))
        r1.check(okm and okt and adds_space and upd, site(f), f.qualname, f"a space is inserted iff the gap to the previous glyph exceeds word_margin * max(width, height) of the new glyph (strict)", why=f"margin ok={okm}; {why}; space={adds_space}; pen update={upd}")
    # neighbours
    for cls, dim, band, twins in (
        ("LTTextLineHorizontal", "height", "(self.x0,self.y0-d,self.x1,self.y1+d)", [("_is_left_aligned_with", "x0", "x0"), ("_is_right_aligned_with", "x1", "x1")]),
        ("LTTextLineVertical", "width", "(self.x0-d,self.y0,self.x1+d,self.y1)", [("_is_lower_aligned_with", "y0", "y0"), ("_is_upper_aligned_with", "y1", "y1")]),
    ):
        f = model.func(L + cls + ".find_neighbors")
        s_ = "".join(unparse(f.node).split())
        same = "_is_same_height_as" if dim == "height" else "_is_same_width_as"
        al = [t[0] for t in twins] + ["_is_centrally_aligned_with"]
        ok = f"d=ratio*self.{dim}" in s_ and f"plane.find({band})" in s_ and f"isinstance(obj,{cls})andself.{same}(obj,tolerance=d)and(" in s_ and all(f"self.{a}(obj,tolerance=d)" in s_ for a in al)
        # the three alignments are alternatives
        ors = [n for n in walk_no_nested(f.node) if isinstance(n, ast.BoolOp) and isinstance(n.op, ast.Or) and len(n.values) == 3]
        r1.check(ok and bool(ors), site(f), f.qualname, f"neighbours: inside the band of line_margin * {dim}, same {dim} and left/right/centre (one of three) aligned, all within that tolerance", why="neighbour relation changed")
        for (meth, a, b) in twins + [(same, dim, dim)]:
            mf = model.func(L + cls + "." + meth)
            rr = [n for n in walk_no_nested(mf.node) if isinstance(n, ast.Return)]
            c = _conjuncts(rr[0].value) if rr else set()
            o = mf.params[1]
            r1.check(c in ({f"abs({o}.{a}-self.{b}) <= tolerance"}, {f"abs(self.{b}-{o}.{a}) <= tolerance"}), site(mf), mf.qualname, f"|other.{a} - self.{b}| <= tolerance", why=f"{sorted(c)}")
        mc = model.func(L + cls + "._is_centrally_aligned_with")
        rr = [n for n in walk_no_nested(mc.node) if isinstance(n, ast.Return)]
        c = "".join(unparse(rr[0].value).split()) if rr else ""
        ax = "x" if dim == "height" else "y"
        o = mc.params[1]
        r1.check(c == f"abs(({o}.{ax}0+{o}.{ax}1)/2-(self.{ax}0+self.{ax}1)/2)<=tolerance", site(mc), mc.qualname, "|centre(other) - centre(self)| <= tolerance", why=c)
    # ---------------------------------------------------------------- R3 order keys
    r7 = rep.rule("C09-R7", "ORDER", "group_textlines asks every line for its neighbours (the neighbour relation is not symmetric when heights differ, so a line that was already placed may still pull in further lines)", 1)
    gtl = model.func(L + "LTLayoutContainer.group_textlines")
    loops7 = [n for n in walk_no_nested(gtl.node) if isinstance(n, ast.For) and any(isinstance(c, ast.Call) and isinstance(c.func, ast.Attribute) and c.func.attr == "find_neighbors" for c in ast.walk(n))]
    if not loops7:
        raise AnchorMissing("group_textlines: loop calling find_neighbors not found")
    from ..cfg import build_cfg

    lp = loops7[0]
    frag = ast.FunctionDef(name="_body", args=ast.arguments(posonlyargs=[], args=[], kwonlyargs=[], kw_defaults=[], defaults=[]), body=lp.body, decorator_list=[], lineno=lp.lineno, col_offset=0)
    g7 = build_cfg(frag, exc_edges=False)
    wit7 = g7.all_path_pass(g7.entry, lambda n: n.ast is not None and any(isinstance(c, ast.Call) and isinstance(c.func, ast.Attribute) and c.func.attr == "find_neighbors" and unparse(c.func.value) == unparse(lp.target) for c in ast.walk(n.ast)))
    r7.check(wit7 is None, site(gtl, lp), gtl.qualname, f"every iteration of `for {unparse(lp.target)} in {unparse(lp.iter)}` reaches {unparse(lp.target)}.find_neighbors(...)", why="some lines are skipped (continue / condition before the query): boxes are no longer the connected components of the neighbour relation")
    r3 = rep.rule("C09-R3", "NORMFORM", "box ordering keys: top-to-bottom then left-to-right (mirrored for vertical writing)", 3)
    pe = SymEval(opaque_ok=True)
    bf = Poly.var("boxes_flow")
    one = Poly.const(1)
    for cls, want in (("LTTextGroupLRTB", lambda o: (one - bf) * Poly.var(o + ".x0") - (one + bf) * (Poly.var(o + ".y0") + Poly.var(o + ".y1"))), ("LTTextGroupTBRL", lambda o: -(one + bf) * (Poly.var(o + ".x0") + Poly.var(o + ".x1")) - (one - bf) * Poly.var(o + ".y1"))):
        f = model.func(L + cls + ".analyze")
        lam = [n for n in walk_no_nested(f.node) if isinstance(n, ast.Lambda)]
        ok = False
        why = "no key"
        if lam:
            o = lam[0].args.args[0].arg
            try:
                got = pe.expr(lam[0].body, {})
                ok = got == want(o)
                why = f"key is {got!r}"
            except NotPolynomial as ex:
                why = str(ex)
        rev = any(isinstance(c, ast.Call) and any(k.arg == "reverse" for k in c.keywords) for c in walk_no_nested(f.node))
        r3.check(ok and not rev, site(f), f.qualname, f"{cls}: ascending key = (1 - flow) * x - (1 + flow) * (y0 + y1) (resp. its vertical mirror)", why=why)
    an = model.func(L + "LTLayoutContainer.analyze")
    gk = model.func(L + "LTLayoutContainer.analyze.getkey")
    rets = ["".join(unparse(n.value).split()) for n in walk_no_nested(gk.node) if isinstance(n, ast.Return)]
    b = gk.params[0]
    r3.check(rets == [f"(0,-{b}.x1,-{b}.y0)", f"(1,-{b}.y0,{b}.x0)"], site(gk), gk.qualname, "flat order: vertical boxes first (right to left, top down), then horizontal boxes top down, left to right", why=f"{rets}")

    # ---------------------------------------------------------------- R5 optional parameter: only None disables
    r5 = rep.rule("C09-R5", "GUARD", "boxes_flow is optional and 0 is a legal value: wherever it decides a branch it is compared with None by identity, never tested for truth", 2)
    for q, f in sorted(model.funcs.items()):
        if not q.startswith(L) or isinstance(f.node, ast.Lambda):
            continue
        ctx: List[ast.AST] = []
        for n in walk_no_nested(f.node):
            if isinstance(n, (ast.If, ast.While, ast.IfExp, ast.Assert)):
                ctx.append(n.test)
            elif isinstance(n, ast.BoolOp):
                ctx += n.values
            elif isinstance(n, ast.UnaryOp) and isinstance(n.op, ast.Not):
                ctx.append(n.operand)
            elif isinstance(n, ast.comprehension):
                ctx += n.ifs
        seen_ids = set()
        for t in ctx:
            if id(t) in seen_ids:
                continue
            seen_ids.add(id(t))
            if isinstance(t, (ast.BoolOp,)) or (isinstance(t, ast.UnaryOp) and isinstance(t.op, ast.Not)):
                continue  # their operands are in the list themselves
            if not any(isinstance(x, ast.Attribute) and x.attr == "boxes_flow" or isinstance(x, ast.Name) and x.id == "boxes_flow" for x in ast.walk(t)):
                continue
            if isinstance(t, (ast.Attribute, ast.Name)):
                r5.violation(site(f, t), f.qualname, f"`{unparse(t)}` tested for truth", "boxes_flow = 0 (a documented value: equal weight of horizontal and vertical position) is falsy and would be treated like None, i.e. the flow analysis is silently disabled")
            elif isinstance(t, ast.Compare) and len(t.ops) == 1 and isinstance(t.ops[0], (ast.Is, ast.IsNot)) and isinstance(t.comparators[0], ast.Constant) and t.comparators[0].value is None:
                r5.ok(site(f, t), f.qualname, f"`{unparse(t)}`: identity test with None")
            elif isinstance(t, ast.Compare) and any(isinstance(o, (ast.Eq, ast.NotEq)) for o in t.ops) and any(isinstance(c, ast.Constant) and c.value is None for c in [t.left] + t.comparators):
                r5.ok(site(f, t), f.qualname, f"`{unparse(t)}`: comparison with None")
            elif isinstance(t, ast.Compare):
                r5.ok(site(f, t), f.qualname, f"`{unparse(t)[:60]}`: numeric comparison (range validation)", nontrivial=False)
            else:
                r5.ok(site(f, t), f.qualname, f"`{unparse(t)[:60]}`: not a truth test of the value", nontrivial=False)
    # ---------------------------------------------------------------- R4 spatial queries used by the neighbour relation
    from .c20 import drange_rule

    drange_rule(model, rep, "C09-R4")
    from .c20 import overlap_predicate_rule

    overlap_predicate_rule(model, rep, "C09-R6")
    # ---------------------------------------------------------------- R2 homogeneity
    r2 = rep.rule("C09-R2", "HOMOG", "every comparison, sum, min/max and sort key of the layout code is homogeneous in length; parameters are dimensionless", 40)
    targets: List[Tuple[FuncInfo, Dict[str, object]]] = []
    for q, f in model.funcs.items():
        if not q.startswith(L):
            continue
        if isinstance(f.node, ast.Lambda):
            continue
        if f.cls is not None and f.cls.name in ("LAParams", "LTChar", "LTImage", "LTFigure", "LTPage", "IndexAssigner", "LTCurve", "LTLine", "LTRect", "LTAnno", "LTText", "LTItem"):
            continue
        targets.append((f, {"ratio": 0, "tolerance": 1, "d": None}))
    pl = "pdfminer.utils.Plane."
    for nm in ("_getrange", "find"):
        targets.append((model.func(pl + nm), {}))
    nchecks = 0
    for (f, params) in targets:
        dc = DimChecker(param_deg=params)  # type: ignore[arg-type]
        dc.function(f.node)
        # nested lambdas (sort keys)
        for n in walk_no_nested(f.node):
            if isinstance(n, ast.Lambda):
                d = DimChecker(param_deg=params).expr(n.body, {"boxes_flow": 0})  # type: ignore[arg-type]
                dl = DimChecker(param_deg=params)  # type: ignore[arg-type]
                dl.expr(n.body, {"boxes_flow": 0})
                dc.checks.extend(dl.checks)
                if not isinstance(d, tuple):
                    r2.check(True, site(f, n), f.qualname, f"sort key `{unparse(n.body)[:70]}` has the single degree {d}")
        seen = set()
        for c in dc.checks:
            k = (getattr(c.node, "lineno", 0), getattr(c.node, "col_offset", 0), c.what)
            if k in seen:
                continue
            seen.add(k)
            nchecks += 1
            r2.check(c.ok, site(f, c.node), f.qualname, c.what, why=c.why)
    rep.analysed["homogeneity_checks"] = nchecks
    # parameters never carry a length: LAParams fields are only used as factors
    la = model.cls(L + "LAParams")
    fields = [a.arg for a in model.func(L + "LAParams.__init__").node.args.args[1:]]  # type: ignore[attr-defined]
    r2.check(set(fields) == {"line_overlap", "char_margin", "line_margin", "word_margin", "boxes_flow", "detect_vertical", "all_texts"}, site(model.func(L + "LAParams.__init__")), L + "LAParams", "LAParams has exactly the documented, dimensionless parameters", why=f"{fields}")

"""C05 - text model: each glyph gets the position, advance and state PDF assigns."""

from __future__ import annotations

import ast
import copy
from typing import Dict, List, Optional, Set, Tuple

from ..cfg import build_cfg, contains_call
from ..model import AnchorMissing, FuncInfo, Model, dotted, unparse, walk_no_nested
from ..norm import NotPolynomial, Poly, SymEval, env_before
from ..report import Report
from ..util import self_fields_written, site
from . import interp as I

INTERP = I.INTERP
PI = "pdfminer.pdfinterp."


def _general(fn: ast.AST, se: SymEval) -> ast.AST:
    """The helper without its special-case shortcuts (C20-R1 decides whether they agree with the general formula)."""
    from .c20 import _special_cases

    return _special_cases(fn, se)[0]


def _se(model: Model) -> SymEval:
    se = SymEval(opaque_ok=True)
    mm = model.func("pdfminer.utils.mult_matrix")
    tm = model.func("pdfminer.utils.translate_matrix")
    inner = SymEval(opaque_ok=False)
    se.calls = {
        "safe_float": lambda x: x,
        "safe_int": lambda x: x,
        "safe_matrix": lambda *a: tuple(a),
        "mult_matrix": inner.function(_general(mm.node, inner)),  # type: ignore[arg-type]
        "translate_matrix": inner.function(_general(tm.node, inner)),  # type: ignore[arg-type]
    }
    return se


def _vec(name: str, n: int) -> Tuple[Poly, ...]:
    return tuple(Poly.var(f"{name}[{i}]") for i in range(n))


def _eval_assign(f: FuncInfo, st: ast.stmt, se: SymEval, env0: Optional[Dict[str, object]] = None):
    env = env_before(f.node, st, se, dict(env0 or {}))
    return se.expr(st.value, env), env  # type: ignore[attr-defined]


def run(model: Model, rep: Report) -> None:
    rep.explanation = (
        "C05: decides the structural part of the text model: operator arities and dispatch guard (Annex A), the operator equivalences of "
        "9.4.2-9.4.3 as must-call orderings, the text-positioning kernels as polynomial identities, completeness of the state copies used by "
        "q/Q and nested form execution (every field __init__ creates is copied; the nested interpreter runs on a fresh instance and the device "
        "CTM is re-issued afterwards), and the bindings/normal forms of the pen-advance computation. Numeric glyph positions for arbitrary "
        "programs are not decided."
    )
    rep.assumptions += ["exact arithmetic for the polynomial identities", "font metrics and char widths are inputs (not analysed)"]
    spec = I.load_ops()
    I.arity_rule(model, rep, "C05-R1", spec["c05_operators"])
    table = spec["mangling"]
    H = lambda op: _need(I.handler(model, op, table), op)  # noqa: E731

    # ---------------------------------------------------------------- R2
    r2 = rep.rule("C05-R2", "ORDER", "operator equivalences of 9.4.2-9.4.3 hold as must-call orderings", 5)
    h = H("'")
    ok, why = I.calls_in_order(h, ["self.do_T_a", "self.do_TJ"])
    r2.check(ok, site(h), h.qualname, "' == T* then show", why=why)
    h = H('"')
    ok, why = I.calls_in_order(h, ["self.do_Tw", "self.do_Tc"])
    ok2, why2 = I.calls_in_order(h, ["self.do_T_a", "self.do_TJ"])
    ok3, _ = I.calls_in_order(h, ["self.do__q"])
    r2.check(ok and (ok2 or ok3), site(h), h.qualname, '" == aw Tw, ac Tc, then \' (move to the next line and show)', why=why or "the text is shown without moving to the next line: " + why2)
    # argument binding of " : aw -> Tw, ac -> Tc
    binds = {}
    for c in walk_no_nested(h.node):
        if isinstance(c, ast.Call) and (dotted(c.func) or "") in ("self.do_Tw", "self.do_Tc") and c.args:
            binds[(dotted(c.func) or "")[5:]] = unparse(c.args[0])
    ps = h.params
    r2.check(len(ps) >= 4 and binds.get("do_Tw") == ps[1] and binds.get("do_Tc") == ps[2], site(h), h.qualname, '": first operand is the word spacing, second the character spacing', why=f"bindings {binds} for parameters {ps[1:]}")
    r13 = rep.rule("C05-R13", "WRITESET", "the composite operators ' and \" change the text state only through the operators they are defined by (Tw, Tc, T*, TJ): what \" sets stays in force afterwards (9.4.3)", 2)
    for op in ("'", '"'):
        hh = H(op)
        direct = [n for n in walk_no_nested(hh.node) if isinstance(n, (ast.Attribute, ast.Subscript)) and isinstance(n.ctx, (ast.Store, ast.Del)) and unparse(n).startswith("self.textstate")]
        saved = [n for n in walk_no_nested(hh.node) if isinstance(n, ast.Attribute) and isinstance(n.ctx, ast.Load) and unparse(n) in ("self.textstate.wordspace", "self.textstate.charspace", "self.textstate.leading") ]
        r13.check(not direct and not saved, site(hh, (direct + saved)[0]) if (direct + saved) else site(hh), hh.qualname, f"{op}: no direct read-back or store of self.textstate.* (only do_Tw / do_Tc / do_T_a / do_TJ touch it)", why=f"{[unparse(x) for x in direct + saved][:3]}: the spacing set by the operator is saved and put back, or overwritten - `aw ac (s) \"` is defined as `aw Tw ac Tc (s) '`, so aw/ac must still apply to the next text-showing operator")
    h = H("Tj")
    tj_ok = any(isinstance(c, ast.Call) and (dotted(c.func) or "") == "self.do_TJ" and len(c.args) == 1 and isinstance(c.args[0], ast.List) and len(c.args[0].elts) == 1 and unparse(c.args[0].elts[0]) == h.params[1] for c in walk_no_nested(h.node))
    r2.check(tj_ok, site(h), h.qualname, "Tj s == TJ [s]", why="do_Tj does not delegate to do_TJ([s])")
    se = _se(model)
    # TD sets the leading to ty (stored with the sign convention of TL = -operand) and then moves like Td
    htd, htl, hta, hTd = H("TD"), H("TL"), H("T*"), H("Td")
    try:
        lead_td = [s for s in I.assigns_to(htd, "self.textstate.leading")]
        lead_tl = [s for s in I.assigns_to(htl, "self.textstate.leading")]
        v_td = _eval_assign(htd, lead_td[0], se)[0] if lead_td else None
        v_tl = _eval_assign(htl, lead_tl[0], se)[0] if lead_tl else None
        ty = Poly.var(htd.params[2])
        lp = Poly.var(htl.params[1])
        r2.check(v_td == ty and v_tl == -lp, site(htd), htd.qualname, "TD tx ty == (-ty) TL, tx ty Td : leading is stored as -TL operand and as +ty", why=f"TD stores {v_td!r}, TL stores {v_tl!r}")
    except (NotPolynomial, IndexError) as ex:
        r2.violation(site(htd), htd.qualname, "TD tx ty == (-ty) TL, tx ty Td", f"cannot evaluate: {ex}")

    # ---------------------------------------------------------------- R3
    r3 = rep.rule("C05-R3", "NORMFORM", "text positioning kernels (Td, TD, T*, Tm, BT, cm) equal the spec formulas as polynomial identities", 8)
    M = _vec("self.textstate.matrix", 6)
    for op, hh in (("Td", hTd), ("TD", htd)):
        sts = I.assigns_to(hh, "self.textstate.matrix")
        try:
            val, _ = _eval_assign(hh, sts[0], se)
            tx, ty = Poly.var(hh.params[1]), Poly.var(hh.params[2])
            want = (M[0], M[1], M[2], M[3], tx * M[0] + ty * M[2] + M[4], tx * M[1] + ty * M[3] + M[5])
            r3.check(val == want, site(hh, sts[0]), hh.qualname, f"{op}: Tm = [1 0 0 1 tx ty] x Tlm  (e' = tx*a + ty*c + e, f' = tx*b + ty*d + f)", why=f"got {val!r}")
        except (NotPolynomial, IndexError) as ex:
            r3.violation(site(hh), hh.qualname, f"{op}: Tm = [1 0 0 1 tx ty] x Tlm", f"cannot evaluate: {ex}")
        r3.check(I.must_assign(hh, "self.textstate.linematrix"), site(hh), hh.qualname, f"{op} resets the line offset on every path", why="a path leaves linematrix untouched")
    sts = I.assigns_to(hta, "self.textstate.matrix")
    try:
        val, _ = _eval_assign(hta, sts[0], se)
        L = Poly.var("self.textstate.leading")
        want = (M[0], M[1], M[2], M[3], L * M[2] + M[4], L * M[3] + M[5])
        r3.check(val == want, site(hta, sts[0]), hta.qualname, "T*: same as 0 leading Td", why=f"got {val!r}")
    except (NotPolynomial, IndexError) as ex:
        r3.violation(site(hta), hta.qualname, "T*: same as 0 leading Td", f"cannot evaluate: {ex}")
    r3.check(I.must_assign(hta, "self.textstate.linematrix"), site(hta), hta.qualname, "T* resets the line offset", why="linematrix untouched")
    htm = H("Tm")
    sts = I.assigns_to(htm, "self.textstate.matrix")
    try:
        val, _ = _eval_assign(htm, sts[0], se)
        want = tuple(Poly.var(p) for p in htm.params[1:7])
        lm = I.assigns_to(htm, "self.textstate.linematrix")
        r3.check(val == want and bool(lm), site(htm), htm.qualname, "Tm sets the text matrix to its six operands in order and resets the line offset", why=f"got {val!r}")
    except (NotPolynomial, IndexError) as ex:
        r3.violation(site(htm), htm.qualname, "Tm sets the text matrix to its six operands", f"cannot evaluate: {ex}")
    hbt = H("BT")
    rs = model.func(PI + "PDFTextState.reset")
    rs_src = {unparse(t): unparse(n.value) for n in walk_no_nested(rs.node) if isinstance(n, ast.Assign) for t in n.targets}
    bt_ok = any(isinstance(c, ast.Call) and (dotted(c.func) or "") == "self.textstate.reset" for c in walk_no_nested(hbt.node))
    r3.check(bt_ok and rs_src.get("self.matrix") == "MATRIX_IDENTITY" and rs_src.get("self.linematrix", "").replace(" ", "") == "(0,0)", site(hbt), hbt.qualname, "BT resets text matrix to identity and line offset to (0, 0)", why=f"reset assigns {rs_src}")
    hcm = H("cm")
    sts = I.assigns_to(hcm, "self.ctm")
    try:
        val, _ = _eval_assign(hcm, sts[0], se)
        ops = tuple(Poly.var(p) for p in hcm.params[1:7])
        C = _vec("self.ctm", 6)
        want = se.calls["mult_matrix"](ops, C)
        r3.check(val == want, site(hcm, sts[0]), hcm.qualname, "cm: CTM' = operand matrix x CTM", why=f"got {val!r}")
        ok, why = I.calls_in_order(hcm, []) if False else (True, "")
        # device is told about the new CTM after it was computed
        g = build_cfg(hcm.node, exc_edges=False)
        nid = g.node_of(sts[0])
        wit = g.all_path_pass(nid, lambda n: n.ast is not None and contains_call(n.ast, lambda c: (dotted(c.func) or "") == "self.device.set_ctm")) if nid is not None else [0]
        r3.check(wit is None, site(hcm), hcm.qualname, "cm re-issues the CTM to the device after updating it", why="device.set_ctm(self.ctm) does not follow the update on every path")
    except (NotPolynomial, IndexError) as ex:
        r3.violation(site(hcm), hcm.qualname, "cm: CTM' = operand matrix x CTM", f"cannot evaluate: {ex}")

    # ---------------------------------------------------------------- R4
    r4 = rep.rule("C05-R4", "COPYFIELDS", "state copies used by q/Q and text showing are complete and do not alias the live state", 6)
    state_copy_instances(model, r4, ("PDFTextState", "PDFGraphicState"))
    gcs = model.func(INTERP + ".get_current_state")
    ret = [n for n in walk_no_nested(gcs.node) if isinstance(n, ast.Return)]
    parts = [unparse(e) for e in ret[0].value.elts] if ret and isinstance(ret[0].value, ast.Tuple) else []
    r4.check(parts == ["self.ctm", "self.textstate.copy()", "self.graphicstate.copy()"], site(gcs), gcs.qualname, "q snapshots (ctm, textstate.copy(), graphicstate.copy())", why=f"returns {parts}")
    scs_ = model.func(INTERP + ".set_current_state")
    tg = [unparse(t) for n in walk_no_nested(scs_.node) if isinstance(n, ast.Assign) for t in n.targets]
    restored = any(t.replace(" ", "") == "(self.ctm,self.textstate,self.graphicstate)" for t in tg)
    okc, whyc = I.calls_in_order(scs_, ["self.device.set_ctm"])
    r4.check(restored and okc, site(scs_), scs_.qualname, "Q restores ctm, text state and graphics state and re-issues the CTM to the device", why=f"targets {tg}; {whyc}")
    hq, hQ = H("q"), H("Q")
    okq = any(isinstance(c, ast.Call) and (dotted(c.func) or "") == "self.gstack.append" and c.args and unparse(c.args[0]) == "self.get_current_state()" for c in walk_no_nested(hq.node))
    okQ = any(isinstance(c, ast.Call) and (dotted(c.func) or "") == "self.set_current_state" and c.args and unparse(c.args[0]) == "self.gstack.pop()" for c in walk_no_nested(hQ.node))
    guardQ = any(isinstance(n, ast.If) and unparse(n.test) == "self.gstack" for n in walk_no_nested(hQ.node))
    r4.check(okq and okQ and guardQ, site(hq), hq.qualname, "q pushes the snapshot; Q pops it (and is a no-op on an empty stack)", why=f"push={okq} pop={okQ} empty-guard={guardQ}")
    htj = H("TJ")
    rs_calls = [c for c in walk_no_nested(htj.node) if isinstance(c, ast.Call) and (dotted(c.func) or "") == "self.device.render_string"]
    okgs = bool(rs_calls) and len(rs_calls[0].args) >= 4 and unparse(rs_calls[0].args[3]) == "self.graphicstate.copy()" and unparse(rs_calls[0].args[0]) == "self.textstate" and unparse(rs_calls[0].args[2]) == "self.ncs"
    r4.check(okgs, site(htj), htj.qualname, "TJ hands the device the live text state, the non-stroking colour space and a *copy* of the graphics state", why=f"{[unparse(c) for c in rs_calls]}")

    # ---------------------------------------------------------------- R5
    _nested(model, rep, H, se)
    # ---------------------------------------------------------------- R6
    _pen(model, rep, se)
    # ---------------------------------------------------------------- R7
    _operand_safety(model, rep, spec)
    # ---------------------------------------------------------------- R8
    # ---------------------------------------------------------------- R11: every content (page or form) starts from the initial state
    fresh_state_rule(model, rep, "C05-R11")
    from .c16 import colour_ops_guarded_rule

    colour_ops_guarded_rule(model, rep, "C05-R14")
    ir5 = model.func(PI + "PDFPageInterpreter.init_resources")
    v5 = [unparse(n.value) for n in walk_no_nested(ir5.node) if isinstance(n, (ast.Assign, ast.AnnAssign)) and unparse(n.targets[0] if isinstance(n, ast.Assign) else n.target) == "self.csmap"]
    r12 = rep.rule("C05-R12", "ALIAS", "a form XObject's colour-space names stay in the form: every interpreter works on its own copy of the predefined colour-space table", 1)
    r12.check(len(v5) == 1 and v5[0] in ("PREDEFINED_COLORSPACE.copy()", "dict(PREDEFINED_COLORSPACE)", "{**PREDEFINED_COLORSPACE}"), site(ir5), ir5.qualname, "self.csmap = PREDEFINED_COLORSPACE.copy()", why=f"self.csmap = {v5}")
    from .interp import optional_number_truth_rule

    optional_number_truth_rule(model, rep, "C05-R10", [f for q, f in sorted(model.funcs.items()) if q.startswith("pdfminer.pdfinterp.PDFPageInterpreter.do_")], 8)
    from .c07 import char_width_rule

    char_width_rule(model, rep, "C05-R9")
    r8 = rep.rule("C05-R8", "WRITESET", "content spread over several streams: refilling carries the scanner state and inserts nothing", 3)
    fb = model.func(PI + "PDFContentParser.fillbuf")
    w = set(self_fields_written(fb))
    calls = {dotted(c.func) or "" for c in walk_no_nested(fb.node) if isinstance(c, ast.Call)}
    bad_w = w - {"bufpos", "buf", "charpos", "fp"}
    bad_c = {c for c in calls if c.endswith(".seek") or c.endswith("reset") or c.startswith("self._parse")}
    r8.check(not bad_w and not bad_c, site(fb), fb.qualname, "PDFContentParser.fillbuf writes only {fp, bufpos, buf, charpos} and never reseeks/resets the tokenizer", why=f"writes {sorted(bad_w)} calls {sorted(bad_c)}")
    sfb = "".join(unparse(fb.node).split())
    r8.check("self.fillfp()self.bufpos=self.fp.tell()self.buf=self.fp.read(self.BUFSIZ)" in sfb, site(fb), fb.qualname, "each refill: make sure a stream is open, take the position from that stream, read the next block", why="refill sequence changed: token positions in the second and later streams of a Contents array would no longer be positions in their own stream (the inline-image reader seeks with them)")
    ff = model.func(PI + "PDFContentParser.fillfp")
    w2 = set(self_fields_written(ff))
    calls2 = {dotted(c.func) or "" for c in walk_no_nested(ff.node) if isinstance(c, ast.Call)}
    bad_w2 = w2 - {"fp", "istream"}
    bad_c2 = {c for c in calls2 if c.endswith(".seek") or c.endswith("reset") or c.startswith("self._parse") or c.endswith("flush")}
    r8.check(not bad_w2 and not bad_c2, site(ff), ff.qualname, "PDFContentParser.fillfp (switching to the next stream) writes only {fp, istream}: the lexical state and a pending token are carried over", why=f"writes {sorted(bad_w2)} calls {sorted(bad_c2)}: a token that is still open at the end of one stream (a number, a name, a keyword without trailing white space) would be dropped or cut at the stream boundary")


def state_copy_instances(model: Model, rule, cnames) -> None:
    """<State>.copy() creates a fresh object and transfers every field that __init__ (and the methods it calls) creates.
    Accepted spellings: attribute-by-attribute assignment, or a loop `for a in (<literal names>): setattr(obj, a, getattr(self, a))`."""
    for cname in cnames:
        ci = model.cls(PI + cname)
        init = model.func(PI + cname + ".__init__")
        created: Set[str] = set(self_fields_written(init))
        for c in walk_no_nested(init.node):
            if isinstance(c, ast.Call) and isinstance(c.func, ast.Attribute) and isinstance(c.func.value, ast.Name) and c.func.value.id == "self":
                m2 = model.lookup_method(ci.qualname, c.func.attr)
                if m2 is not None:
                    created |= set(self_fields_written(m2))
        cp = model.func(PI + cname + ".copy")
        copied = {}
        for n in walk_no_nested(cp.node):
            if isinstance(n, ast.Assign) and len(n.targets) == 1 and isinstance(n.targets[0], ast.Attribute) and isinstance(n.targets[0].value, ast.Name) and n.targets[0].value.id != "self":
                copied[n.targets[0].attr] = unparse(n.value)
            if isinstance(n, ast.For) and isinstance(n.target, ast.Name) and isinstance(n.iter, (ast.Tuple, ast.List)) and all(isinstance(e, ast.Constant) and isinstance(e.value, str) for e in n.iter.elts):
                v = n.target.id
                for c in walk_no_nested(n):
                    if isinstance(c, ast.Call) and isinstance(c.func, ast.Name) and c.func.id == "setattr" and len(c.args) == 3 and unparse(c.args[1]) == v and "".join(unparse(c.args[2]).split()) == f"getattr(self,{v})" and isinstance(c.args[0], ast.Name) and c.args[0].id != "self":
                        for e in n.iter.elts:
                            copied[e.value] = f"self.{e.value}"
        missing = sorted(f for f in created if copied.get(f) != f"self.{f}")
        fresh = any(isinstance(n, ast.Call) and (dotted(n.func) or "") in (cname, "self.__class__", "type(self)") for n in walk_no_nested(cp.node))
        rule.check(not missing and fresh, site(cp), cp.qualname, f"{cname}.copy transfers every field __init__ creates: {sorted(created)}", why=f"not copied (or copied from something else): {missing}; fresh object: {fresh}: what q saved is not what Q restores")


def fresh_state_rule(model: Model, rep: Report, rid: str) -> None:
    r11 = rep.rule(rid, "WRITESET", "render_contents: resources, then a fresh state (empty stacks, the given CTM also on the device, new text and graphics state, empty path), then execution of all streams", 2)
    rc = model.func(PI + "PDFPageInterpreter.render_contents")
    calls_rc = ["".join(unparse(s_.value).split()) for s_ in rc.node.body if isinstance(s_, ast.Expr) and isinstance(s_.value, ast.Call) and (dotted(s_.value.func) or "").startswith("self.")]  # type: ignore[attr-defined]
    r11.check(calls_rc == ["self.init_resources(resources)", "self.init_state(ctm)", "self.execute(list_value(streams))"], site(rc), rc.qualname, "init_resources(resources); init_state(ctm); execute(list_value(streams))", why=f"{calls_rc}")
    ist = model.func(PI + "PDFPageInterpreter.init_state")
    ws = {k: "".join(unparse(v[0].value).split()) if isinstance(v[0], (ast.Assign, ast.AnnAssign)) and getattr(v[0], "value", None) is not None else "?" for k, v in self_fields_written(ist).items()}
    want_ws = {"gstack": "[]", "ctm": "ctm", "textstate": "PDFTextState()", "graphicstate": "PDFGraphicState()", "curpath": "[]", "argstack": "[]"}
    bad_ws = {k: ws.get(k) for k, v in want_ws.items() if ws.get(k) != v}
    r11.check(not bad_ws and "self.device.set_ctm(self.ctm)" in "".join(unparse(ist.node).split()), site(ist), ist.qualname, "init_state: gstack = [], ctm = ctm (also handed to the device), fresh PDFTextState / PDFGraphicState, curpath = [], argstack = []", why=f"differs: {bad_ws}: state of the previous page or of the invoking content would leak into this one")


def _need(f: Optional[FuncInfo], op: str) -> FuncInfo:
    if f is None:
        raise AnchorMissing(f"handler for operator {op} not found")
    return f


def _nested(model: Model, rep: Report, H, se: SymEval) -> None:
    r5 = rep.rule("C05-R5", "PAIR", "form XObjects run on a fresh interpreter, with own/copied resources, bracketed by begin/end_figure, CTM re-issued afterwards", 5)
    do = H("Do")
    # locate the form branch: the If whose body calls render_contents
    form = None
    for n in walk_no_nested(do.node):
        if isinstance(n, ast.If) and any(isinstance(c, ast.Call) and (dotted(c.func) or "").endswith(".render_contents") for st in n.body for c in [st] + list(walk_no_nested(st))):
            form = n
            break
    if form is None:
        raise AnchorMissing("form branch of do_Do (render_contents call) not found")
    body = ast.Module(body=form.body, type_ignores=[])
    rc = [c for c in walk_no_nested(body) if isinstance(c, ast.Call) and (dotted(c.func) or "").endswith(".render_contents")][0]
    recv = unparse(rc.func.value)  # type: ignore[attr-defined]
    fresh = any(isinstance(n, ast.Assign) and unparse(n.targets[0]) == recv and unparse(n.value) in ("self.dup()",) for n in walk_no_nested(body))
    dup = model.func(INTERP + ".dup")
    dup_ok = any(isinstance(n, ast.Return) and isinstance(n.value, ast.Call) and [unparse(a) for a in n.value.args] == ["self.rsrcmgr", "self.device"] for n in walk_no_nested(dup.node))
    r5.check(fresh and recv != "self" and dup_ok, site(do, form), do.qualname, "the form's content is rendered by self.dup(): a fresh interpreter sharing resource manager and device", why=f"receiver of render_contents is `{recv}` (fresh={fresh}, dup_ok={dup_ok})")
    # resources: own dict or a copy of the caller's
    res_arg = unparse(rc.args[0]) if rc.args else ""
    vals = [unparse(n.value) for n in walk_no_nested(body) if isinstance(n, ast.Assign) and unparse(n.targets[0]) == res_arg]
    okres = bool(vals) and all(v in ("dict_value(xobjres)", "self.resources.copy()") or v.startswith("dict_value(") or v.endswith(".copy()") for v in vals)
    r5.check(okres, site(do, form), do.qualname, "the form gets its own Resources or a copy of the caller's (never the live dict)", why=f"resources bound to {vals}")
    # ctm passed = form matrix x caller ctm
    kw = {k.arg: unparse(k.value) for k in rc.keywords}
    ctm_txt = kw.get("ctm") or (unparse(rc.args[2]) if len(rc.args) > 2 else "")
    r5.check(ctm_txt.replace(" ", "") == "mult_matrix(matrix,self.ctm)", site(do, rc), do.qualname, "the form runs under Matrix x CTM", why=f"ctm argument is `{ctm_txt}`")
    # bracket + restore on the sub-CFG of the branch body
    fn = ast.FunctionDef(name="_form", args=do.node.args, body=form.body, decorator_list=[], lineno=form.lineno, col_offset=0)  # type: ignore[attr-defined]
    g = build_cfg(fn, exc_edges=False)
    def nodes(nm: str) -> List[int]:
        return I.stmt_node_of_call(g, lambda c: (dotted(c.func) or "").endswith(nm))
    b, rcn, e = nodes(".begin_figure"), nodes(".render_contents"), nodes(".end_figure")
    dom = g.dominators()
    pair_ok = bool(b and rcn and e) and b[0] in dom[rcn[0]] and g.all_path_pass(rcn[0], lambda n: n.id in e) is None
    r5.check(pair_ok, site(do, form), do.qualname, "begin_figure dominates the nested rendering and end_figure follows it on every path", why="figure bracket incomplete")
    restore = g.all_path_pass(rcn[0], lambda n: n.ast is not None and n.id != rcn[0] and contains_call(n.ast, lambda c: (dotted(c.func) or "") in ("self.device.set_ctm",) and c.args and unparse(c.args[0]) == "self.ctm")) if rcn else [0]
    r5.check(restore is None, site(do, rc), do.qualname, "after the nested interpreter (whose init_state sets the shared device's CTM) the caller re-issues self.device.set_ctm(self.ctm)", why="the device keeps the form's matrix: glyphs shown after the form are placed with it")
    # init_state of a (nested) interpreter creates fresh state objects
    ist = model.func(INTERP + ".init_state")
    fresh_fields = {unparse(t): unparse(n.value) for n in walk_no_nested(ist.node) if isinstance(n, (ast.Assign, ast.AnnAssign)) for t in (n.targets if isinstance(n, ast.Assign) else [n.target])}
    okst = fresh_fields.get("self.textstate") == "PDFTextState()" and fresh_fields.get("self.graphicstate") == "PDFGraphicState()" and fresh_fields.get("self.gstack") == "[]" and fresh_fields.get("self.argstack") == "[]" and fresh_fields.get("self.curpath") == "[]"
    r5.check(okst, site(ist), ist.qualname, "init_state gives the interpreter fresh text/graphics state, stacks and path", why=f"{ {k: v for k, v in fresh_fields.items() if k in ('self.textstate', 'self.graphicstate', 'self.gstack', 'self.argstack', 'self.curpath')} }")


def _pen(model: Model, rep: Report, se: SymEval) -> None:
    r6 = rep.rule("C05-R6", "NORMFORM", "pen advance: scale factors, bindings into render_string_*, TJ adjustment, word spacing, sibling agreement horizontal/vertical", 8)
    D = "pdfminer.pdfdevice.PDFTextDevice."
    rs = model.func(D + "render_string")
    calls = [c for c in walk_no_nested(rs.node) if isinstance(c, ast.Call) and (dotted(c.func) or "") in ("self.render_string_horizontal", "self.render_string_vertical")]
    S, C, W, F = (Poly.var(f"textstate.{x}") for x in ("scaling", "charspace", "wordspace", "fontsize"))
    hundredth = Poly.const(1) * Poly.const(__import__("fractions").Fraction(1, 100))
    thousandth = Poly.const(__import__("fractions").Fraction(1, 1000))
    want = {
        "scaling": S * hundredth,
        "charspace": C * S * hundredth,
        "dxscale": thousandth * F * S * hundredth,
        "fontsize": F,
        "rise": Poly.var("textstate.rise"),
        "pos": Poly.var("textstate.linematrix"),
        "font": Poly.var("textstate.font"),
    }
    for c in calls:
        callee = model.func(D + (dotted(c.func) or "")[5:])
        params = callee.params[1:]
        # statement containing the call
        st = None
        for n in walk_no_nested(rs.node):
            if isinstance(n, ast.Assign) and any(x is c for x in ast.walk(n)):
                st = n
        if st is None:
            r6.violation(site(rs, c), rs.qualname, f"{callee.name}: result assigned to textstate.linematrix", "call result not assigned")
            continue
        try:
            env = env_before(rs.node, st, se, {})
        except NotPolynomial as ex:
            r6.violation(site(rs, c), rs.qualname, f"bindings into {callee.name}", f"cannot evaluate: {ex}")
            continue
        bound = {}
        for p, a in zip(params, c.args):
            bound[p] = a
        for k in c.keywords:
            if k.arg:
                bound[k.arg] = k.value
        bad = []
        for p, w in want.items():
            if p not in bound:
                bad.append(f"{p}: not passed")
                continue
            try:
                v = se.expr(bound[p], env)
            except NotPolynomial as ex:
                bad.append(f"{p}: {ex}")
                continue
            if v != w:
                bad.append(f"{p}: got {v!r}, want {w!r}")
        # matrix = textstate.matrix x device ctm
        try:
            mv = se.expr(bound["matrix"], env)
            wantm = se.calls["mult_matrix"](_vec("textstate.matrix", 6), _vec("self.ctm", 6))
            if mv != wantm:
                bad.append(f"matrix: got {mv!r}")
        except (NotPolynomial, KeyError) as ex:
            bad.append(f"matrix: {ex}")
        tgt = unparse(st.targets[0])
        if tgt != "textstate.linematrix":
            bad.append(f"result assigned to {tgt}")
        r6.check(not bad, site(rs, c), rs.qualname, f"{callee.name}(scaling=Tz/100, charspace=Tc*Tz/100, dxscale=Tfs*Tz/100000, matrix=Tm x CTM, pos=line offset) -> line offset", why="; ".join(bad))
    r6.check(len(calls) == 2, site(rs), rs.qualname, "render_string dispatches to the horizontal and the vertical renderer", why=f"{len(calls)} calls")
    # wordspace: Tw*Tz/100, zero for multibyte fonts
    ws = I.assigns_to(rs, "wordspace")
    try:
        first = se.expr(ws[0].value, env_before(rs.node, ws[0], se, {})) if ws else None  # type: ignore[attr-defined]
    except NotPolynomial:
        first = None
    mb = any(isinstance(n, ast.If) and "is_multibyte()" in unparse(n.test) and any(isinstance(s, ast.Assign) and unparse(s.targets[0]) == "wordspace" and unparse(s.value) == "0" for s in n.body) for n in walk_no_nested(rs.node))
    r6.check(first == W * S * hundredth and mb, site(rs), rs.qualname, "wordspace = Tw*Tz/100, and 0 for multi-byte fonts", why=f"first={first!r} multibyte-zero={mb}")
    # per-renderer loop shape
    hv = {}
    for nm, pen in (("render_string_horizontal", "x"), ("render_string_vertical", "y")):
        f = model.func(D + nm)
        aug = [n for n in walk_no_nested(f.node) if isinstance(n, ast.AugAssign)]
        pens = {unparse(n.target) for n in aug}
        num = [n for n in aug if isinstance(n.op, ast.Sub)]
        okn = len(num) == 1 and unparse(num[0].value).replace(" ", "") in ("obj*dxscale", "dxscale*obj")
        adv = [n for n in aug if isinstance(n.op, ast.Add) and isinstance(n.value, ast.Call) and (dotted(n.value.func) or "") == "self.render_char"]
        okadv = len(adv) == 1 and unparse(adv[0].value.args[0]).replace(" ", "") == "utils.translate_matrix(matrix,(x,y))"
        wsp = [n for n in walk_no_nested(f.node) if isinstance(n, ast.If) and unparse(n.test).replace(" ", "") in ("cid==32andwordspace", "wordspaceandcid==32") and any(isinstance(s, ast.AugAssign) and unparse(s.value) == "wordspace" for s in n.body)]
        csp = [n for n in aug if isinstance(n.op, ast.Add) and unparse(n.value) == "charspace"]
        ret = [n for n in walk_no_nested(f.node) if isinstance(n, ast.Return)]
        okret = bool(ret) and unparse(ret[-1].value).replace(" ", "") == "(x,y)"
        r6.check(pens == {pen} and okn and okadv and bool(wsp) and len(csp) == 1 and okret, site(f), f.qualname, f"{nm}: pen {pen}: number -> pen -= n*dxscale; glyph -> pen += render_char(translate(matrix,(x,y))); code 32 -> += wordspace; returns (x, y)", why=f"pens={pens} num={okn} adv={okadv} wordspace={bool(wsp)} charspace_sites={len(csp)} ret={okret}")
        # normalised twin
        cp = copy.deepcopy(f.node)
        for n in ast.walk(cp):
            if isinstance(n, ast.AugAssign) and isinstance(n.target, ast.Name):
                n.target.id = "PEN"
            if isinstance(n, ast.Constant) and isinstance(n.value, str):
                n.value = "S"
            if isinstance(n, ast.JoinedStr):
                n.values = []
        cp.name = "f"  # type: ignore[attr-defined]
        hv[nm] = ast.dump(ast.Module(body=cp.body, type_ignores=[]))  # type: ignore[attr-defined]
        # ORDER of character spacing: 9.4.4 adds Tc after every glyph; today it is added before every glyph but the first
        if csp:
            g = build_cfg(f.node, exc_edges=False)
            dom = g.dominators()
            cn, an = g.node_of(csp[0]), g.node_of(adv[0]) if adv else None
            before = cn is not None and an is not None and cn in dom.get(an, set()) or (cn is not None and an is not None and cn < an and an not in dom.get(cn, set()))
            if before:
                from ..util import guard_conjuncts

                gset = sorted(guard_conjuncts(f, csp[0], innermost=True))
                flag_writes = sorted({"".join(unparse(a).split()) for a in walk_no_nested(f.node) if isinstance(a, ast.Assign) and any(isinstance(t, ast.Name) and t.id in gset for t in a.targets)})
                # the finding recorded for today's tree is exactly: guard = the flag `needcharspace`, cleared at the start and set after
                # every number and every glyph; any other guard is a different defect and is reported as such
                guard_txt = ",".join(gset) if (gset != ["needcharspace"] or flag_writes != ["needcharspace=False", "needcharspace=True"]) else "needcharspace"
                r6.violation(site(f, csp[0]), f.qualname, f"character spacing is added before a glyph (guarded by {guard_txt}) instead of after each glyph", "9.4.4: tx = (w0*Tfs + Tc + Tw)*Th after *every* glyph: the spacing after the last glyph of a string is lost, so `5 Tc (A) Tj (B) Tj` places B differently from `(AB) Tj`")
            else:
                r6.ok(site(f, csp[0]), f.qualname, "character spacing added after each glyph")
    r6.check(len(set(hv.values())) == 1, site(model.func(D + "render_string_vertical")), D + "render_string_vertical", "vertical renderer == horizontal renderer with the pen coordinate swapped", why="the two renderers differ beyond the pen variable")
    # LTChar.adv and render_char result
    lc = model.func("pdfminer.layout.LTChar.__init__")
    advs = I.assigns_to(lc, "self.adv")
    try:
        v = se.expr(advs[0].value, {}) if advs else None  # type: ignore[attr-defined]
    except NotPolynomial:
        v = None
    r6.check(v == Poly.var("textwidth") * Poly.var("fontsize") * Poly.var("scaling"), site(lc), lc.qualname, "glyph advance = width * font size * horizontal scaling", why=f"got {v!r}")
    rc = model.func("pdfminer.converter.PDFLayoutAnalyzer.render_char")
    src = unparse(rc.node)
    okrc = "font.char_width(cid)" in src and any(isinstance(n, ast.Return) and unparse(n.value) == "item.adv" for n in walk_no_nested(rc.node))
    r6.check(okrc, site(rc), rc.qualname, "render_char measures font.char_width(cid) and returns the glyph's advance", why="width source or return value changed")


def _operand_safety(model: Model, rep: Report, spec: dict) -> None:
    r7 = rep.rule("C05-R7", "GUARD", "operands popped inside a handler are length-checked before being indexed or splatted; TJ operand is type-checked before iteration", 3)
    for op in ("SCN", "scn"):
        h = _need(I.handler(model, op, spec["mangling"]), op)
        for n in walk_no_nested(h.node):
            # self.pop(k)[0]
            if isinstance(n, ast.Subscript) and isinstance(n.value, ast.Call) and (dotted(n.value.func) or "") == "self.pop":
                r7.violation(site(h, n), h.qualname, unparse(n), "IndexError when the operand stack is empty (`sc` without operands aborts the page)")
            # f(*values) with values = self.pop(k) and no len test
            if isinstance(n, ast.Call) and any(isinstance(a, ast.Starred) for a in n.args):
                star = [a for a in n.args if isinstance(a, ast.Starred)][0]
                nm = unparse(star.value)
                guarded = any(isinstance(t, ast.If) and f"len({nm})" in unparse(t.test) for t in walk_no_nested(h.node))
                if guarded:
                    r7.ok(site(h, n), h.qualname, unparse(n), note="length-checked")
                else:
                    r7.violation(site(h, n), h.qualname, unparse(n), "TypeError when fewer operands than colour components are on the stack")
    htj = _need(I.handler(model, "TJ", spec["mangling"]), "TJ")
    typed = any(isinstance(n, ast.Call) and (dotted(n.func) or "") == "isinstance" and n.args and unparse(n.args[0]) == htj.params[1] for n in walk_no_nested(htj.node))
    if typed:
        r7.ok(site(htj), htj.qualname, "TJ operand type-checked")
    else:
        r7.violation(site(htj), htj.qualname, "cast(PDFTextSeq, seq) passed on without a type test", "`5 TJ` makes the device iterate an int: TypeError aborts the page")


def cm_order_rule(model: Model, rep: Report, rid: str) -> None:
    """cm: CTM' = operand matrix x CTM (the new matrix is applied first, 8.3.4) - as a polynomial identity."""
    from . import interp as I2

    spec = I2.load_ops()
    r = rep.rule(rid, "NORMFORM", "cm pre-multiplies: the new CTM is (operand matrix) x (current CTM), so nested transformations compose in the order the spec gives", 1)
    hcm = _need(I2.handler(model, "cm", spec["mangling"]), "cm")
    se = _se(model)
    sts = I2.assigns_to(hcm, "self.ctm")
    try:
        val, _ = _eval_assign(hcm, sts[0], se)
        ops = tuple(Poly.var(p) for p in hcm.params[1:7])
        Cm = _vec("self.ctm", 6)
        want = se.calls["mult_matrix"](ops, Cm)
        r.check(val == want, site(hcm, sts[0]), hcm.qualname, "cm: CTM' = operand matrix x CTM", why=f"got {val!r}: with the factors the other way round a scale followed by a translate (or any two matrices that do not commute) places every later shape wrongly")
    except (NotPolynomial, IndexError) as ex:
        r.violation(site(hcm), hcm.qualname, "cm: CTM' = operand matrix x CTM", f"cannot evaluate: {ex}")

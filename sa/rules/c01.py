"""C01 - object syntax: every conformant spelling of a value reads back as that value."""

from __future__ import annotations

import ast
import json
import os
from typing import Dict, FrozenSet, List, Optional, Set, Tuple

from ..fold import Folder, Lit, Regex, Unfoldable, byteset_str
from ..fsm import ScannerFSM
from ..model import AnchorMissing, FuncInfo, Model, dotted, unparse, walk_no_nested
from ..report import VERIF, Report
from ..util import site
from . import tokenizer as T

PS = "pdfminer.psparser."
BASE = PS + "PSBaseParser"


def _spec() -> dict:
    with open(os.path.join(VERIF, "spec", "pdf_lexical.json")) as f:
        return json.load(f)


def eval_byte_test(model: Model, f: FuncInfo, fo: Folder, test: ast.AST, var: str, b: int) -> bool:
    """Evaluate a scanner branch test on the single byte `var == bytes([b])` (finite-domain constant folding)."""
    c = bytes((b,))

    def ev(e: ast.AST):
        if isinstance(e, ast.Name) and e.id == var:
            return c
        if isinstance(e, ast.Constant):
            return e.value
        if isinstance(e, ast.BoolOp):
            vals = [ev(v) for v in e.values]
            return all(vals) if isinstance(e.op, ast.And) else any(vals)
        if isinstance(e, ast.UnaryOp) and isinstance(e.op, ast.Not):
            return not ev(e.operand)
        if isinstance(e, ast.Compare) and len(e.ops) == 1:
            l, r = ev(e.left), ev(e.comparators[0])
            op = e.ops[0]
            if isinstance(op, ast.Eq):
                return l == r
            if isinstance(op, ast.NotEq):
                return l != r
            if isinstance(op, ast.In):
                return l in r
            if isinstance(op, ast.NotIn):
                return l not in r
            raise Unfoldable("compare op")
        if isinstance(e, ast.Call) and isinstance(e.func, ast.Attribute):
            if isinstance(e.func.value, ast.Name) and e.func.value.id == var and e.func.attr in ("isdigit", "isalpha", "isspace", "isalnum", "isupper", "islower") and not e.args:
                return getattr(c, e.func.attr)()
            if e.func.attr in ("match", "fullmatch", "search") and len(e.args) == 1:
                rx = fo.fold(f.module, e.func.value, f.cls)
                if isinstance(rx, Regex):
                    import re

                    return bool(getattr(re.compile(rx.pattern, rx.flags), e.func.attr)(ev(e.args[0])))
        if isinstance(e, (ast.Name, ast.Attribute)):
            v = fo.fold(f.module, e, f.cls)
            return v
        raise Unfoldable(unparse(e))

    return bool(ev(test))


def run(model: Model, rep: Report) -> None:
    rep.explanation = (
        "C01: decides the structural part of 'every conformant spelling reads back': the byte classes of the scanner regexes and the "
        "dispatch of _parse_main are folded from the source and compared with ISO 32000-1 Tables 1-3; the scanner automaton is compared "
        "with a reference automaton; all buffer reads are shown to be at the current byte or consumed ranges (buffer/offset independence); "
        "array/dict/reference assembly is checked for balanced tags, even-length dict guard and the operand-count guard of `R`. "
        "Not decided: the value computed for each token (number grammar, #xx, nesting) - value level."
    )
    rep.assumptions += ["value-level conversions (int/float of the accumulated bytes, utf-8 decoding of names) are not decided"]
    spec = _spec()
    fo = Folder(model)
    mod = model.module("pdfminer.psparser")
    WS = frozenset(spec["whitespace"])
    DELIM = frozenset(spec["delimiters"].encode())
    HEXD = frozenset(b"0123456789abcdefABCDEF")
    ALL = frozenset(range(256))

    # ----------------------------------------------------------------- R1
    r1 = rep.rule("C01-R1", "TABLE", "lexical classes of the scanner regexes and the dispatch of _parse_main equal ISO 32000-1 Tables 1-2", 12)

    def cls(name: str) -> Optional[FrozenSet[int]]:
        if name not in mod.assigns:
            return None
        try:
            v = fo.fold(mod, mod.assigns[name])
        except Unfoldable:
            return None
        return v.byteset() if isinstance(v, Regex) else None

    expect: Dict[str, Tuple[str, object]] = {
        "EOL": ("==", frozenset(spec["eol"])),
        "SPC": ("==", WS),
        "NONSPC": ("==", ALL - WS),
        "HEX": ("==", HEXD),
        "END_LITERAL": ("==", WS | DELIM | frozenset(b"#")),
        "END_KEYWORD": ("range", (WS | DELIM, WS | DELIM | frozenset(b"#"))),
        "END_NUMBER": ("==", ALL - frozenset(b"0123456789")),
        "END_HEX_STRING": ("==", ALL - WS - HEXD),
        "END_STRING": ("==", frozenset(b"()\\")),
        "OCT_STRING": ("==", frozenset(b"01234567")),
    }
    msite = "pdfminer/psparser.py:0:<module>"
    for name, (mode, want) in expect.items():
        got = cls(name)
        if got is None:
            from ..model import AnchorMissing

            raise AnchorMissing(f"regex table pdfminer.psparser.{name} not found / not a literal regex")
        node = mod.assigns[name]
        st = f"pdfminer/psparser.py:{node.lineno}:{name}"
        if mode == "==":
            ok = got == want
            why = f"class is {{{byteset_str(set(got))}}}, spec is {{{byteset_str(set(want))}}}; extra={{{byteset_str(set(got - want))}}} missing={{{byteset_str(set(want - got))}}}"  # type: ignore[operator]
        else:
            lo, hi = want  # type: ignore[misc]
            ok = lo <= got <= hi
            why = f"class {{{byteset_str(set(got))}}} must contain white space and delimiters {{{byteset_str(set(lo))}}} and nothing beyond {{{byteset_str(set(hi))}}}"
        r1.check(ok, st, PS + name, f"{name} byte class", why=why)
    # dispatch of _parse_main
    pm = model.func(BASE + "._parse_main")
    chain = [n for n in pm.node.body if isinstance(n, ast.If) and isinstance(n.test, (ast.Compare, ast.BoolOp, ast.Call)) and not unparse(n.test).startswith("not ")]  # type: ignore[attr-defined]
    disp: Dict[int, str] = {}
    if chain:
        top = chain[-1]
        # variable holding the current byte: c = s[j:j+1]
        var = None
        for n in pm.node.body:  # type: ignore[attr-defined]
            if isinstance(n, ast.Assign) and isinstance(n.value, ast.Subscript) and isinstance(n.targets[0], ast.Name) and unparse(n.value.value) == pm.params[1]:
                var = n.targets[0].id
        branches: List[Tuple[Optional[ast.AST], List[ast.stmt]]] = []
        cur: Optional[ast.stmt] = top
        while isinstance(cur, ast.If):
            branches.append((cur.test, cur.body))
            if len(cur.orelse) == 1 and isinstance(cur.orelse[0], ast.If):
                cur = cur.orelse[0]
            else:
                branches.append((None, cur.orelse))
                cur = None

        def outcome(body: List[ast.stmt]) -> str:
            nxt = None
            emits = False
            for st_ in body:
                for n in [st_] + list(walk_no_nested(st_)):
                    if isinstance(n, ast.Assign) and unparse(n.targets[0]) == "self._parse1":
                        nxt = (dotted(n.value) or "")[5:]
                    if isinstance(n, ast.Call) and (dotted(n.func) or "") == "self._add_token":
                        emits = True
            return nxt or ("kwd" if emits else "skip")

        if var is not None:
            for b in sorted(ALL - WS):
                for (t, body) in branches:
                    try:
                        hit = True if t is None else eval_byte_test(model, pm, fo, t, var, b)
                    except Unfoldable as ex:
                        r1.violation(site(pm, t), pm.qualname, f"dispatch test `{unparse(t)}`", f"cannot be evaluated over single bytes: {ex}")
                        hit = False
                    if hit:
                        disp[b] = outcome(body)
                        break
    want_disp: Dict[int, str] = {}
    for k, v in spec["main_dispatch"].items():
        if k == "comment":
            continue
        for ch in k.encode():
            want_disp[ch] = v
    for b in sorted(ALL - WS):
        want_disp.setdefault(b, "kwd")
    bad = sorted(b for b in want_disp if disp.get(b) != want_disp[b])
    groups: Dict[str, List[int]] = {}
    for b in sorted(want_disp):
        groups.setdefault(want_disp[b], []).append(b)
    for tgt, bs in groups.items():
        wrong = [b for b in bs if disp.get(b) != tgt]
        r1.check(not wrong, site(pm), pm.qualname, f"first byte in {{{byteset_str(set(bs))}}} -> {tgt}", why="; ".join(f"{x:02x}->{disp.get(x)}" for x in wrong[:8]))
    # string / paren initialisation on '('
    okp = False
    for n in walk_no_nested(pm.node):
        if isinstance(n, ast.Assign) and unparse(n.targets[0]) == "self.paren" and isinstance(n.value, ast.Constant) and n.value.value == 1:
            okp = True
    r1.check(okp, site(pm), pm.qualname, "entering a literal string sets the parenthesis depth to 1", why="self.paren = 1 missing")

    # ----------------------------------------------------------------- R2
    r2 = rep.rule("C01-R2", "TABLE", "string escapes equal Table 3; at most three octal digits; unknown escapes keep the character", 4)
    try:
        esc = fo.fold(mod, mod.assigns["ESC_STRING"])
    except (KeyError, Unfoldable):
        from ..model import AnchorMissing

        raise AnchorMissing("pdfminer.psparser.ESC_STRING not found")
    want_esc = {k.encode("latin1"): v for k, v in spec["escapes"].items()}
    r2.check(esc == want_esc, f"pdfminer/psparser.py:{mod.assigns['ESC_STRING'].lineno}:ESC_STRING", PS + "ESC_STRING", "ESC_STRING == {n:10 r:13 t:9 b:8 f:12 (:40 ):41 \\:92}", why=f"differs: got {esc}")
    s1 = model.func(BASE + "._parse_string_1")
    lim = None
    for n in walk_no_nested(s1.node):
        if isinstance(n, ast.Compare) and unparse(n.left) == "len(self.oct)" and isinstance(n.ops[0], (ast.Lt, ast.LtE)) and isinstance(n.comparators[0], ast.Constant):
            lim = n.comparators[0].value + (1 if isinstance(n.ops[0], ast.LtE) else 0)
    r2.check(lim == spec["max_octal_digits"], site(s1), s1.qualname, "an octal escape takes at most 3 digits", why=f"limit found: {lim}")
    fsm = ScannerFSM(model)
    sc1 = fsm.scanners.get("_parse_string_1")
    # unknown escape: the path on which c is no digit, no table escape and no EOL must not consume c
    keep_ok = False
    drop_paths = []
    if sc1 is not None:
        for t in sc1.transitions:
            cs = " & ".join(t.conds)
            if "not c in ESC_STRING" in cs.replace("c not in ESC_STRING", "not c in ESC_STRING") and "not self.oct" in cs and "not c == b'\\r'" in cs.replace("c != b'\\r'", "not c == b'\\r'"):
                # neither octal, nor escape, nor CR
                is_lf_branch = "not c != b'\\n'" in cs or "c == b'\\n'" in cs.replace("not c == b'\\n'", "")
                if is_lf_branch:
                    continue
                if t.advance == "zero" and t.next_state == "_parse_string":
                    keep_ok = True
                else:
                    drop_paths.append(t)
    r2.check(keep_ok and not drop_paths, site(s1), s1.qualname, "a backslash before a non-escape byte drops only the backslash (byte re-scanned by _parse_string)", why=f"paths that consume the byte: {[(' & '.join(t.conds), t.ret_text) for t in drop_paths][:2]}" if drop_paths else "no zero-advance path for unknown escapes")
    # line continuation: backslash-EOL yields nothing
    cont_ok = sc1 is not None and any(t.next_state == "_parse_string_2" or ("c == b'\\r'" in " & ".join(t.conds)) for t in sc1.transitions)
    r2.check(bool(cont_ok), site(s1), s1.qualname, "backslash-CR (and a following LF) is a line continuation", why="no CR branch")

    # ----------------------------------------------------------------- R3
    T.buffer_oblivious(model, rep, "C01-R3", fsm)

    # ----------------------------------------------------------------- R4
    r4 = rep.rule("C01-R4", "SIBLING", "hex strings: a lone final digit is scaled like ascii85.asciihexdecode does (pad with 0)", 1)
    hx = model.func(BASE + "._parse_hexstring")
    try:
        pair = fo.fold(mod, mod.assigns["HEX_PAIR"])
    except (KeyError, Unfoldable):
        pair = None
    src = unparse(hx.node)
    pads = any(
        isinstance(n, (ast.AugAssign, ast.BinOp)) and isinstance(n.op, ast.Add) and isinstance(getattr(n, "value", getattr(n, "right", None)), ast.Constant) and getattr(n, "value", getattr(n, "right", None)).value == b"0"  # type: ignore[union-attr]
        for n in walk_no_nested(hx.node)
    ) or ".ljust(" in src or "<< 4" in src or "* 16" in src
    one_digit_alt = isinstance(pair, Regex) and pair.min_width() == 1
    if one_digit_alt and not pads:
        r4.violation(site(hx), hx.qualname, "HEX_PAIR's one-digit alternative converted with int(d, 16)", "an odd final digit is read as 0x0d instead of 0xd0 (ISO 32000-1 7.3.4.3: <901FA> is 90 1F A0); asciihexdecode pads with '0'")
    else:
        r4.ok(site(hx), hx.qualname, "odd final hex digit is padded / no one-digit alternative")

    # ----------------------------------------------------------------- R10
    r10 = rep.rule("C01-R10", "ORDER", "hex strings: white space is removed from the whole accumulated token before digits are paired, so the two digits of a byte may be separated by white space or by a buffer refill (7.3.4.3)", 2)
    sub = [c for c in walk_no_nested(hx.node) if isinstance(c, ast.Call) and isinstance(c.func, ast.Attribute) and c.func.attr == "sub" and unparse(c.func.value) == "HEX_PAIR"]
    if not sub:
        raise AnchorMissing("_parse_hexstring: HEX_PAIR.sub(...) not found")
    arg = sub[0].args[1] if len(sub[0].args) > 1 else None
    stripped = isinstance(arg, ast.Call) and isinstance(arg.func, ast.Attribute) and arg.func.attr == "sub" and unparse(arg.func.value) == "SPC" and len(arg.args) == 2 and isinstance(arg.args[0], ast.Constant) and arg.args[0].value == b"" and unparse(arg.args[1]) == "self._curtoken"
    r10.check(bool(stripped), site(hx, sub[0]), hx.qualname, "digits are paired over SPC.sub(b'', self._curtoken): the whole token with all white space removed", why=f"HEX_PAIR is applied to `{unparse(arg) if arg is not None else None}`: pairing restarts at white space (or at a refill), so `<4 1>` no longer reads as `A`")
    import re._parser as _sp  # type: ignore[import]

    try:
        tree = _sp.parse(pair.pattern) if isinstance(pair, Regex) else None
        want = _sp.parse(rb"[0-9a-fA-F]{2}|.")
        same = tree is not None and repr(tree) == repr(want)
    except Exception:
        same = False
    r10.check(same, site(hx), "pdfminer.psparser.HEX_PAIR", "HEX_PAIR matches two hexadecimal digits, or else any single byte (regex syntax trees compared)", why=f"pattern is {getattr(pair, 'pattern', None)!r}")

    # ----------------------------------------------------------------- R11 (shared with C12-R10): keywords and names are recognised by identity
    from .c12 import intern_monotone_rule

    intern_monotone_rule(model, rep, "C01-R11")
    # ----------------------------------------------------------------- R5
    _assembly(model, rep, fo)

    # ----------------------------------------------------------------- R7
    _keyword_values(model, rep)

    # ----------------------------------------------------------------- R9
    r9 = rep.rule("C01-R9", "TABLE", "an unescaped end-of-line inside a literal string (CR, LF or CR LF) reads as a single LF (7.3.4.2)", 1)
    ps = model.func(BASE + "._parse_string")
    try:
        end_re = fo.fold(mod, mod.assigns["END_STRING"])
        special = end_re.byteset() if isinstance(end_re, Regex) else frozenset()
    except (KeyError, Unfoldable):
        special = frozenset()
    psrc = "".join(unparse(ps.node).split())
    handles_cr = 0x0D in special or "replace(b'\\r" in psrc or "b'\\r'" in psrc
    if handles_cr:
        r9.ok(site(ps), ps.qualname, "CR is a special byte of the string scanner (normalised to LF)")
    else:
        r9.violation(site(ps), ps.qualname, "END_STRING does not stop at CR: raw CR / CR LF inside ( ) are copied as they are", "ISO 32000-1 7.3.4.2: an end-of-line marker within a literal string without a preceding backslash is the byte 0x0A whichever form it takes; `(a<CR>b)` reads back as a CR b and `(a<CR><LF>b)` as a CR LF b")

    # ----------------------------------------------------------------- R8
    r8 = rep.rule("C01-R8", "DEPEND", "name interning: the table is keyed by the name itself, so distinct names (str vs bytes, different bytes) never share an entry", 2)
    it = model.func("pdfminer.psparser.PSSymbolTable.intern")
    pname = it.params[1] if len(it.params) > 1 else "name"
    keys = []
    for n in walk_no_nested(it.node):
        if isinstance(n, ast.Subscript) and unparse(n.value) == "self.dict":
            keys.append((n, n.slice))
        elif isinstance(n, ast.Compare) and len(n.ops) == 1 and isinstance(n.ops[0], (ast.In, ast.NotIn)) and unparse(n.comparators[0]) == "self.dict":
            keys.append((n, n.left))
        elif isinstance(n, ast.Call) and isinstance(n.func, ast.Attribute) and unparse(n.func.value) == "self.dict" and n.func.attr in ("get", "setdefault", "pop") and n.args:
            keys.append((n, n.args[0]))
    if not keys:
        from ..model import AnchorMissing

        raise AnchorMissing("PSSymbolTable.intern: no access to self.dict found")
    for node, k in keys:
        r8.check(isinstance(k, ast.Name) and k.id == pname, site(it, node), it.qualname, f"`{unparse(node)[:50]}`: key is the name as given", why=f"the table is indexed by `{unparse(k)}`, a transformation of the name: two different names with the same image (b'Caf\\xe9' and 'Caf\u00e9') get one symbol, and whichever was read first in the process is returned for both")
    ctor = [c for c in walk_no_nested(it.node) if isinstance(c, ast.Call) and unparse(c.func) == "self.klass"]
    r8.check(len(ctor) == 1 and len(ctor[0].args) == 1 and unparse(ctor[0].args[0]) == pname, site(it), it.qualname, "a new symbol is built from the name as given", why="constructor argument changed")

    # ----------------------------------------------------------------- R6
    r6 = rep.rule("C01-R6", "TYPESTATE", "scanner state hygiene: every field a scanner reads is initialised on every way into it; reference automaton", 20)
    seek = model.func(BASE + ".seek")
    init0: Set[str] = set()
    for n in walk_no_nested(seek.node):
        if isinstance(n, (ast.Assign, ast.AnnAssign)):
            tg = n.targets if isinstance(n, ast.Assign) else [n.target]
            for t in tg:
                if isinstance(t, ast.Attribute) and isinstance(t.value, ast.Name) and t.value.id == "self":
                    init0.add(t.attr)
    ini = model.func(BASE + ".__init__")
    for n in walk_no_nested(ini.node):
        if isinstance(n, ast.Assign):
            for t in n.targets:
                if isinstance(t, ast.Attribute) and isinstance(t.value, ast.Name) and t.value.id == "self":
                    init0.add(t.attr)
    states = list(fsm.scanners)
    TOP = None
    init: Dict[str, Optional[Set[str]]] = {s: TOP for s in states}
    init["_parse_main"] = set(init0)
    changed = True
    while changed:
        changed = False
        for s in states:
            if init[s] is None:
                continue
            for t in fsm.scanners[s].transitions:
                out = set(init[s]) | set(t.assigned)  # type: ignore[arg-type]
                n = t.next_state
                if n not in init:
                    continue
                new = out if init[n] is None else (init[n] & out)  # type: ignore[operator]
                if init[n] is None or new != init[n]:
                    init[n] = new
                    changed = True
    for s in states:
        sc = fsm.scanners[s]
        have = init[s]
        if have is None:
            r6.violation(site(sc.f), sc.f.qualname, f"state {s} is reachable from _parse_main", "no transition enters this scanner")
            continue
        need: Set[str] = set()
        for t in sc.transitions:
            need |= set(t.reads_before_assign)
        missing = sorted(need - have)
        r6.check(not missing, site(sc.f), sc.f.qualname, f"{s} reads {sorted(need)}; initialised on every entry: {sorted(have & need)}", why=f"field(s) {missing} may be read uninitialised or stale on some way into {s}")
    # reference automaton
    ref = spec["scanner_fsm"]
    kinds = spec["token_kinds"]
    for s, want in ref.items():
        if s == "comment":
            continue
        sc = fsm.scanners.get(s)
        if sc is None:
            from ..model import AnchorMissing

            raise AnchorMissing(f"scanner {BASE}.{s} not found")
        got = {(t.next_state, t.advance, bool(t.tokens)) for t in sc.transitions}
        wset = {(a, b, bool(c)) for a, b, c in want}
        r6.check(got == wset, site(sc.f), sc.f.qualname, f"{s}: transitions == reference {sorted(wset)}", why=f"extra={sorted(got - wset)} missing={sorted(wset - got)}")
        toks = {tk for t in sc.transitions for tk in t.tokens}
        if s in kinds:
            okk = bool(toks) and all(any(tk.startswith(k) for k in kinds[s]) for tk in toks)
            r6.check(okk, site(sc.f), sc.f.qualname, f"{s} emits {kinds[s]}", why=f"emits {sorted(toks)}")
    # branch conditions of every transition (reviewed reference in spec/pdf_lexical.json)
    refc = spec.get("scanner_conditions", {})
    for s, want_c in sorted(refc.items()):
        sc = fsm.scanners.get(s)
        if sc is None or s == "_parse_main":
            continue  # the dispatch of _parse_main is decided semantically (byte by byte) by C01-R1
        got_c = sorted([[t.next_state, [" ".join(c.split()) for c in t.conds]] for t in sc.transitions])
        extra = [x for x in got_c if x not in want_c]
        missing = [x for x in want_c if x not in got_c]
        r6.check(not extra and not missing, site(sc.f), sc.f.qualname, f"{s}: each transition is taken under the reviewed condition", why=f"changed transitions: now {extra[:2]} / reference {missing[:2]}")
    # keyword scanner maps true/false to booleans
    kw = model.func(BASE + "._parse_keyword")
    m: Dict[bytes, object] = {}
    for n in walk_no_nested(kw.node):
        if isinstance(n, ast.If) and isinstance(n.test, ast.Compare) and unparse(n.test.left) == "self._curtoken" and isinstance(n.test.comparators[0], ast.Constant):
            for st_ in n.body:
                if isinstance(st_, (ast.Assign, ast.AnnAssign)) and isinstance(st_.value, ast.Constant):
                    m[n.test.comparators[0].value] = st_.value.value
    r6.check(m.get(b"true") is True and m.get(b"false") is False, site(kw), kw.qualname, "keywords true/false become the booleans True/False", why=f"mapping found: {m}")


def _assembly(model: Model, rep: Report, fo: Folder) -> None:
    r5 = rep.rule("C01-R5", "PAIR", "array/dict/proc assembly by balanced keywords; null and R handling", 9)
    from ..util import guard_conjuncts as _gc01

    _dk = model.func("pdfminer.pdfparser.PDFParser.do_keyword")
    _pushes = [c for c in walk_no_nested(_dk.node) if isinstance(c, ast.Call) and (dotted(c.func) or "") == "self.push" and "PDFObjRef" in unparse(c) or (isinstance(c, ast.Call) and (dotted(c.func) or "") == "self.push" and any(isinstance(a, ast.Name) and a.id == "obj" for t in c.args for a in ast.walk(t)) and "KEYWORD_R" in "".join(_gc01(_dk, c)))]
    if not _pushes:
        raise AnchorMissing("PDFParser.do_keyword: push of the indirect reference not found")
    for c in _pushes:
        extra = sorted(x for x in _gc01(_dk, c) if not any(k in x for k in ("KEYWORD_", "len(self.curstack)", "object_id")))
        r5.check(not extra, site(_dk, c), _dk.qualname, "`n g R` becomes a reference whenever n is an integer - whatever the generation number is", why=f"the reference is pushed only under {extra}: a conformant reference that fails it (12 3 R) pops its two integers and pushes nothing, so the array or dictionary around it loses an element and pairs keys with the wrong values")
    mod = model.module("pdfminer.psparser")
    no = model.func(PS + "PSStackParser.nextobject")
    pairs = {"ARRAY": (b"[", b"]"), "DICT": (b"<<", b">>"), "PROC": (b"{", b"}")}
    for nm, (o, c) in pairs.items():
        for suffix, want in (("BEGIN", o), ("END", c)):
            k = f"KEYWORD_{nm}_{suffix}"
            try:
                v = fo.fold(mod, mod.assigns[k])
            except (KeyError, Unfoldable):
                from ..model import AnchorMissing

                raise AnchorMissing(f"{PS}{k} not found")
            r5.check(v == Lit("KWD", want), f"pdfminer/psparser.py:{mod.assigns[k].lineno}:{k}", PS + k, f"{k} == KWD({want!r})", why=f"is {v!r}")
    # branch tags
    tags: Dict[str, Dict[str, str]] = {}
    dict_branch: Optional[ast.If] = None
    for n in walk_no_nested(no.node):
        if isinstance(n, ast.If) and isinstance(n.test, ast.Compare) and unparse(n.test.left) == "token" and isinstance(n.test.ops[0], (ast.Eq, ast.Is)):
            kw = unparse(n.test.comparators[0])
            for c in [x for st in n.body for x in [st] + list(walk_no_nested(st))]:
                if isinstance(c, ast.Call) and (dotted(c.func) or "") in ("self.start_type", "self.end_type"):
                    tagarg = c.args[-1]
                    if isinstance(tagarg, ast.Constant):
                        tags.setdefault(kw, {})[(dotted(c.func) or "")[5:]] = tagarg.value
            if kw == "KEYWORD_DICT_END":
                dict_branch = n
    for nm in pairs:
        b = tags.get(f"KEYWORD_{nm}_BEGIN", {}).get("start_type")
        e = tags.get(f"KEYWORD_{nm}_END", {}).get("end_type")
        r5.check(b is not None and b == e, site(no), no.qualname, f"{nm}: opening keyword starts and closing keyword ends the same context tag", why=f"start tag {b!r}, end tag {e!r}")
    alltags = [tags.get(f"KEYWORD_{nm}_BEGIN", {}).get("start_type") for nm in pairs]
    r5.check(len(set(alltags)) == 3, site(no), no.qualname, "the three context tags are distinct", why=f"{alltags}")
    # dict branch: even-length guard raising PSSyntaxError, literal_name keys, None values dropped
    ok_even = ok_keys = ok_none = False
    if dict_branch is not None:
        for n in walk_no_nested(dict_branch):
            if isinstance(n, ast.If) and "% 2" in unparse(n.test) and any(isinstance(x, ast.Raise) for x in ast.walk(n)):
                ok_even = True
            if isinstance(n, ast.DictComp):
                ok_keys = (dotted(n.key.func) if isinstance(n.key, ast.Call) else "") == "literal_name" and any("choplist(2" in unparse(g.iter) for g in n.generators)
                ok_none = any(any("is not None" in unparse(i) for i in g.ifs) for g in n.generators)
    r5.check(ok_even, site(no, dict_branch) if dict_branch is not None else site(no), no.qualname, "dictionary with an odd number of elements is rejected", why="no `len(objs) % 2` guard raising")
    r5.check(ok_keys, site(no, dict_branch) if dict_branch is not None else site(no), no.qualname, "dictionary = {literal_name(k): v for (k, v) in choplist(2, objs)}", why="dict not built from consecutive pairs with literal_name keys")
    r5.check(ok_none, site(no, dict_branch) if dict_branch is not None else site(no), no.qualname, "entries whose value is null are dropped (7.3.7)", why="`if v is not None` missing")
    # PDFParser.do_keyword: null and R
    dk = model.func("pdfminer.pdfparser.PDFParser.do_keyword")
    null_ok = ref_ok = ref_guard = False
    for n in walk_no_nested(dk.node):
        if isinstance(n, ast.If) and isinstance(n.test, ast.Compare):
            kw = unparse(n.test.comparators[0])
            if kw.endswith("KEYWORD_NULL"):
                null_ok = any(isinstance(c, ast.Call) and (dotted(c.func) or "") == "self.push" and "None" in unparse(c) for st in n.body for c in [st] + list(walk_no_nested(st)))
            if kw.endswith("KEYWORD_R"):
                body_src = " ".join(unparse(st) for st in n.body)
                ref_ok = "PDFObjRef(self.doc, object_id)" in body_src and "self.pop(2)" in body_src
                ref_guard = any(isinstance(c, ast.If) and "len(self.curstack) >= 2" in unparse(c.test) for st in n.body for c in [st] + list(walk_no_nested(st)))
    r5.check(null_ok, site(dk), dk.qualname, "`null` pushes None", why="KEYWORD_NULL branch does not push None")
    r5.check(ref_ok and ref_guard, site(dk), dk.qualname, "`R` consumes exactly two operands under a length guard and builds PDFObjRef from the object number", why=f"built={ref_ok} guarded={ref_guard}")


def _value_keywords(f: FuncInfo) -> Dict[str, Tuple[str, ast.AST]]:
    """keyword constant -> kind of value pushed in its place, for the arms `token is self.KEYWORD_X` of a do_keyword."""
    out: Dict[str, Tuple[str, ast.AST]] = {}

    def arm(test: ast.AST, body: List[ast.stmt]) -> None:
        kws = []
        if isinstance(test, ast.Compare) and len(test.ops) == 1 and unparse(test.left) == "token":
            if isinstance(test.ops[0], (ast.Is, ast.Eq)):
                kws = [unparse(test.comparators[0])]
            elif isinstance(test.ops[0], ast.In) and isinstance(test.comparators[0], (ast.Tuple, ast.List, ast.Set)):
                kws = [unparse(e) for e in test.comparators[0].elts]
        if not kws:
            return
        for c in [x for st in body for x in [st] + list(walk_no_nested(st))]:
            if isinstance(c, ast.Call) and (dotted(c.func) or "") == "self.push" and c.args and isinstance(c.args[0], ast.Tuple) and len(c.args[0].elts) == 2:
                v = c.args[0].elts[1]
                kind = "None" if isinstance(v, ast.Constant) and v.value is None else unparse(v)
                if isinstance(v, ast.Name):
                    # follow one local definition inside the arm
                    for a in [x for st in body for x in [st] + list(walk_no_nested(st))]:
                        if isinstance(a, ast.Assign) and unparse(a.targets[0]) == v.id and isinstance(a.value, ast.Call):
                            kind = dotted(a.value.func) or kind
                if kind == "token":
                    continue  # pushed unchanged: not a value keyword
                for k in kws:
                    out[k.replace("self.", "")] = (kind, c)

    for n in walk_no_nested(f.node):
        if isinstance(n, ast.If):
            arm(n.test, n.body)
    return out


def _keyword_values(model: Model, rep: Report) -> None:
    r7 = rep.rule("C01-R7", "SIBLING", "the two object readers agree on value keywords: what PDFParser.do_keyword turns into a value (null -> None, R -> reference), PDFStreamParser.do_keyword (object streams, content of PDFStreamParser(bytes)) turns into the same value", 2)
    a = model.func("pdfminer.pdfparser.PDFParser.do_keyword")
    b = model.func("pdfminer.pdfparser.PDFStreamParser.do_keyword")
    va, vb = _value_keywords(a), _value_keywords(b)
    if "KEYWORD_R" not in va or "KEYWORD_NULL" not in va:
        from ..model import AnchorMissing

        raise AnchorMissing(f"PDFParser.do_keyword: value keywords not recognised ({sorted(va)})")
    exempt = {"KEYWORD_STREAM": "stream objects cannot be stored in an object stream (ISO 32000-1 7.5.7), and a PDFStreamParser has no file to slice the payload from"}
    for k, (kind, node) in sorted(va.items()):
        if k in exempt and k not in vb:
            r7.safe(site(a, node), a.qualname, f"{k} -> {kind} only in the file-body reader", exempt[k])
        elif k in vb and vb[k][0] == kind:
            r7.ok(site(b, vb[k][1]), b.qualname, f"{k} -> {kind} in both readers")
        elif k in vb:
            r7.violation(site(b, vb[k][1]), b.qualname, f"{k} -> {vb[k][0]} (PDFParser: {kind})", "the same spelling reads back as different values depending on whether the object sits in the file body or in an object stream")
        else:
            r7.violation(site(b), b.qualname, f"{k} is not converted (PDFParser pushes {kind})", f"inside an object stream (and for PDFStreamParser(bytes).nextobject()) the keyword stays a PSKeyword: `<< /A null >>` reads back as {{'A': /b'null'}} instead of {{'A': None}}")

"""C17 - page labels, outlines and named destinations follow their tree definitions."""

from __future__ import annotations

import ast
from typing import Dict, List, Optional

from ..cfg import build_cfg
from ..fold import Folder, Lit, Unfoldable
from ..model import AnchorMissing, Model, dotted, unparse, walk_no_nested
from ..report import Report
from ..util import site

D = "pdfminer.pdfdocument."


def pdfdoc_reference() -> List[int]:
    """PDFDocEncoding, ISO 32000-1 Annex D.2 / Table D.2 (code -> Unicode; 0 for undefined codes)."""
    t = [0] * 256
    for c in range(0x00, 0x18):
        t[c] = c
    for c, u in zip(range(0x18, 0x20), (0x02D8, 0x02C7, 0x02C6, 0x02D9, 0x02DD, 0x02DB, 0x02DA, 0x02DC)):
        t[c] = u
    for c in range(0x20, 0x7F):
        t[c] = c
    t[0x7F] = 0
    hi = (0x2022, 0x2020, 0x2021, 0x2026, 0x2014, 0x2013, 0x0192, 0x2044, 0x2039, 0x203A, 0x2212, 0x2030, 0x201E, 0x201C, 0x201D, 0x2018,
          0x2019, 0x201A, 0x2122, 0xFB01, 0xFB02, 0x0141, 0x0152, 0x0160, 0x0178, 0x017D, 0x0131, 0x0142, 0x0153, 0x0161, 0x017E)
    for c, u in zip(range(0x80, 0x9F), hi):
        t[c] = u
    t[0x9F] = 0
    t[0xA0] = 0x20AC
    for c in range(0xA1, 0x100):
        t[c] = c
    t[0xAD] = 0
    return t


def run(model: Model, rep: Report) -> None:
    _round8(model, rep)
    rep.explanation = (
        "C17: decides the structural part: the PDFDocEncoding table equals Annex D.2 entry by entry and the UTF-16BE byte-order mark is tested "
        "first; the label-style dispatch maps D/R/r/A/a/none to the right formatter with the spec'd defaults; outline traversal yields the entry, "
        "then its children one level deeper, then its siblings; number-tree flattening pairs keys and values and keeps Kids order; name-tree lookup "
        "applies the Limits guard before Names and Kids. The numeral functions, label-range arithmetic and behaviour on arbitrary tree shapes are "
        "value level and not decided."
    )
    fo = Folder(model)
    um = model.module("pdfminer.utils")
    # ---------------------------------------------------------------- R1
    r1 = rep.rule("C17-R1", "TABLE", "PDFDocEncoding equals ISO 32000-1 Annex D.2; BOM decides between UTF-16BE and PDFDocEncoding", 257)
    try:
        tab = fo.fold(um, um.assigns["PDFDocEncoding"])
    except (KeyError, Unfoldable) as ex:
        raise AnchorMissing(f"utils.PDFDocEncoding not foldable: {ex}")
    ref = pdfdoc_reference()
    ln = um.assigns["PDFDocEncoding"].lineno
    r1.check(len(tab) == 256, f"pdfminer/utils.py:{ln}:PDFDocEncoding", "pdfminer.utils.PDFDocEncoding", "PDFDocEncoding has 256 entries", why=f"{len(tab)}")
    for c in range(min(256, len(tab))):
        r1.check(ord(tab[c]) == ref[c], f"pdfminer/utils.py:{ln}:PDFDocEncoding", "pdfminer.utils.PDFDocEncoding", f"PDFDocEncoding[0x{c:02X}]" + (f" == U+{ref[c]:04X}" if c != 0x16 else ""), why=f"is U+{ord(tab[c]):04X}, Annex D.2 has U+{ref[c]:04X}", )
    dt = model.func("pdfminer.utils.decode_text")
    s = "".join(unparse(dt.node).split())
    p = dt.params[0]
    r1.check(f"if{p}.startswith(b'\\xfe\\xff'):returnstr({p}[2:],'utf-16be','ignore')else:return''.join((PDFDocEncoding[c]forcin{p}))" in s, site(dt), dt.qualname, "FE FF -> the rest is UTF-16BE; otherwise byte-wise PDFDocEncoding", why="decode_text changed")
    # ---------------------------------------------------------------- R2
    r2 = rep.rule("C17-R2", "DISPATCH", "label styles D, R, r, A, a, none map to decimal, ROMAN, roman, ALPHA, alpha, empty; defaults St=1, empty prefix", 7)
    fl = model.func(D + "PageLabels._format_page_label")
    arms: Dict[str, str] = {}
    cur = next((n for n in fl.node.body if isinstance(n, ast.If)), None)  # type: ignore[attr-defined]
    sv, vv = fl.params[1], fl.params[0]
    while isinstance(cur, ast.If):
        t = cur.test
        key = None
        if isinstance(t, ast.Compare) and unparse(t.left) == sv and isinstance(t.ops[0], ast.Is):
            try:
                k = fo.fold(fl.module, t.comparators[0], fl.cls)
                key = k.name if isinstance(k, Lit) else ("None" if k is None else None)
            except Unfoldable:
                key = None
        val = next((unparse(s_.value) for s_ in cur.body if isinstance(s_, ast.Assign)), "")
        if key is not None:
            arms[key] = val
        cur = cur.orelse[0] if len(cur.orelse) == 1 and isinstance(cur.orelse[0], ast.If) else None
    want = {"None": "''", "D": f"str({vv})", "R": f"format_int_roman({vv}).upper()", "r": f"format_int_roman({vv})", "A": f"format_int_alpha({vv}).upper()", "a": f"format_int_alpha({vv})"}
    for k, w in want.items():
        r2.check(arms.get(k) == w, site(fl), fl.qualname, f"style {k} -> {w}", why=f"got {arms.get(k)!r}")
    lb = model.func(D + "PageLabels.labels")
    s2 = "".join(unparse(lb.node).split())
    r2.check(("style=label_dict.get('S')" in s2 or "style=resolve1(label_dict.get('S'))" in s2) and "prefix=decode_text(str_value(label_dict.get('P',b'')))" in s2 and "first_value=int_value(label_dict.get('St',1))" in s2 and "yield(prefix+label)" in s2, site(lb), lb.qualname, "a range uses /S, /P (decoded text string, default empty) and /St (default 1); label = prefix + numeral", why="label dictionary handling changed")
    r2.check("range_length=end-start" in s2 and "values=range(first_value,first_value+range_length)" in s2 and "itertools.count(first_value)" in s2, site(lb), lb.qualname, "a range covers the pages up to the next range's start; the last range is unbounded", why="range arithmetic changed")
    # every entry of a label dictionary may be an indirect reference: each one is read through a resolving accessor
    r8 = rep.rule("C17-R8", "SIBLING", "page labels: /S, /P and /St are all resolved before use (siblings agree)", 3)
    ld_reads = [c for c in ast.walk(lb.node) if isinstance(c, ast.Call) and (dotted(c.func) or "") == "label_dict.get" and c.args and isinstance(c.args[0], ast.Constant)]
    if len(ld_reads) < 3:
        raise AnchorMissing("PageLabels.labels: reads of the label dictionary not found")
    for c in ld_reads:
        wrapped = any(isinstance(n, ast.Call) and (dotted(n.func) or "") in ("resolve1", "str_value", "int_value", "literal_name", "num_value", "dict_value", "list_value") and n.args and n.args[0] is c for n in ast.walk(lb.node))
        r8.check(wrapped, site(lb, c), lb.qualname, f"{unparse(c)} is the argument of a resolving accessor", why=f"/{c.args[0].value} given as an indirect reference reaches the label formatting as a PDFObjRef (the other entries of the same dictionary are resolved): the style is not recognised and the numeric part of the label is lost")
    # ---------------------------------------------------------------- R3
    r3 = rep.rule("C17-R3", "ORDER", "outline traversal: the entry, then its children one level deeper, then its following siblings at the same level", 2)
    se = model.func(D + "PDFDocument.get_outlines.search")
    g = build_cfg(se.node, exc_edges=False)
    ys = [(n.lineno, unparse(n.ast)) for n in g.nodes if n.kind == "stmt" and n.ast is not None and any(isinstance(x, (ast.Yield, ast.YieldFrom)) for x in ast.walk(n.ast))]
    ys.sort()
    e, lv = se.params[0], se.params[1]
    seq = ["".join(t.split()) for _, t in ys]
    ok = len(seq) == 3 and seq[0].startswith(f"yield({lv},title,dest,action,se)") and seq[1] == f"yieldfromsearch({e}['First'],{lv}+1)" and seq[2] == f"yieldfromsearch({e}['Next'],{lv})"
    r3.check(ok, site(se), se.qualname, "yield (level, title, ...); then search(First, level + 1); then search(Next, level)", why=f"yield order {seq}")
    go_s = model.func(D + "PDFDocument.get_outlines.search")
    tt = ["".join(unparse(n.test).split()) for n in walk_no_nested(go_s.node) if isinstance(n, ast.If) and "Title" in unparse(n.test)]
    r3.check(tt == ["'Title'inentry"], site(go_s), go_s.qualname, "an item is reported when it has a /Title entry (whatever its value, also the empty string)", why=f"title test(s) {tt}: a truth test drops items whose title is the empty string")
    go = model.func(D + "PDFDocument.get_outlines")
    r3.check("return search(self.catalog['Outlines'], 0)" in unparse(go.node) and "raise PDFNoOutlines" in unparse(go.node), site(go), go.qualname, "traversal starts at /Outlines with level 0; no /Outlines -> PDFNoOutlines", why="changed")
    # ---------------------------------------------------------------- R4
    r4 = rep.rule("C17-R4", "ORDER", "number tree: keys paired with values, kids in order, sorted by key; name tree: Limits guard, then Names, then Kids; destinations", 4)
    np_ = model.func("pdfminer.data_structures.NumberTree._parse")
    s3 = "".join(unparse(np_.node).split())
    r4.check("fork,vinchoplist(2,self.nums):items.append((int_value(k),v))" in s3.replace("(k,v)", "k,v") and "forchild_refinself.kids:items+=NumberTree(child_ref)._parse()" in s3, site(np_), np_.qualname, "leaf: consecutive (key, value) pairs of /Nums; inner node: children in /Kids order", why="flattening changed")
    nv = model.func("pdfminer.data_structures.NumberTree.values")
    r4.check("values.sort(key=lambda t: t[0])" in unparse(nv.node), site(nv), nv.qualname, "entries are ordered by key", why="changed")
    lk = model.func(D + "PDFDocument.lookup_name.lookup")
    ifs = [unparse(n.test) for n in lk.node.body if isinstance(n, ast.If)]  # type: ignore[attr-defined]
    d_ = lk.params[0]
    r4.check(ifs == [f"'Limits' in {d_}", f"'Names' in {d_}", f"'Kids' in {d_}"], site(lk), lk.qualname, "lookup: Limits guard first, then the leaf's Names, then the Kids", why=f"{ifs}")
    s4 = "".join(unparse(lk.node).split())
    r4.check("ifkey<k1ork2<key:returnNone" in s4 and "names=dict(cast(Iterator[Tuple[Union[str,bytes],Any]],choplist(2,objs)))" in s4 and "returnnames[key]" in s4, site(lk), lk.qualname, "a node is skipped iff the key lies outside [Limits]; Names pairs keys with values", why="changed")
    gd = model.func(D + "PDFDocument.get_dest")
    s5 = "".join(unparse(gd.node).split())
    r4.check("obj=self.lookup_name('Dests',name)" in s5 and "exceptKeyError:" in s5 and "raisePDFDestinationNotFound(name)" in s5 and "d0=dict_value(self.catalog['Dests'])" in s5, site(gd), gd.qualname, "destinations: the Dests name tree first, then the PDF 1.1 /Dests dictionary, else PDFDestinationNotFound", why="changed")
    _numerals(model, rep)
    # ---------------------------------------------------------------- R6
    r6 = rep.rule("C17-R6", "EFFECTS", "every call of get_page_labels builds a new label generator from the catalog; no iterator is kept on the document", 2)
    from ..cfg import build_cfg as _bcfg
    from ..util import self_fields_written

    gl = model.func(D + "PDFDocument.get_page_labels")
    w = sorted(self_fields_written(gl))
    r6.check(not w, site(gl), gl.qualname, "get_page_labels writes no field of the document", why=f"writes {w}: a generator stored on the document is handed out again half-consumed, so a second pass over the pages starts its labels where the first pass stopped")
    gg = _bcfg(gl.node, exc_edges=False)
    wit = gg.all_path_pass(gg.entry, lambda n: n.ast is not None and n.kind == "stmt" and any(isinstance(c, ast.Call) and (dotted(c.func) or "") == "PageLabels" for c in ast.walk(n.ast)))
    rets = [n for n in walk_no_nested(gl.node) if isinstance(n, ast.Return) and n.value is not None]
    r6.check(wit is None and len(rets) == 1 and "".join(unparse(rets[0].value).split()) == "page_labels.labels", site(gl), gl.qualname, "every returning path constructs PageLabels(catalog['PageLabels']) and returns its fresh .labels generator", why="a path returns without building the labels anew")


def _numerals(model: Model, rep: Report) -> None:
    """C17-R5: the numeral formatters' tables and digit cases."""
    from ..norm import NotPolynomial, Poly, SymEval

    r5 = rep.rule("C17-R5", "TABLE", "roman numerals: digit tables i/x/c/m and v/l/d, digit 9 = one + next one, 4 = one + five, 5..8 = five + ones, decimal digits from the right; letters: as written today (a base-26 numeral) and as Table 159 has them (one letter repeated)", 7)
    um = model.module("pdfminer.utils")
    try:
        ones = ast.literal_eval(um.assigns["ROMAN_ONES"])
        fives = ast.literal_eval(um.assigns["ROMAN_FIVES"])
    except (KeyError, ValueError):
        raise AnchorMissing("utils.ROMAN_ONES / ROMAN_FIVES not literal")
    r5.check(ones == ["i", "x", "c", "m"] and fives == ["v", "l", "d"], f"{um.relpath}:{getattr(um.assigns['ROMAN_ONES'], 'lineno', 0)}:ROMAN_ONES", "pdfminer.utils", "ones = i x c m, fives = v l d (by decimal position)", why=f"{ones} {fives}")
    fr = model.func("pdfminer.utils.format_int_roman")
    s = "".join(unparse(fr.node).split())
    r5.check("value,remainder=divmod(value,10)" in s.replace("(value,remainder)", "value,remainder") and "index+=1" in s and "whilevalue!=0:" in s, site(fr), fr.qualname, "decimal digits are taken from the right, one table position per digit", why="digit loop changed")
    arms = {}
    for n in walk_no_nested(fr.node):
        if isinstance(n, ast.If) and isinstance(n.test, ast.Compare) and unparse(n.test.left) == "remainder" and isinstance(n.test.ops[0], ast.Eq) and isinstance(n.test.comparators[0], ast.Constant):
            arms[n.test.comparators[0].value] = ["".join(unparse(x).split()) for x in n.body]
    r5.check(arms.get(9) == ["result.insert(0,ROMAN_ONES[index])", "result.insert(1,ROMAN_ONES[index+1])"], site(fr), fr.qualname, "digit 9: the one of this position, then the one of the next position (ix, xc, cm)", why=f"{arms.get(9)}")
    r5.check(arms.get(4) == ["result.insert(0,ROMAN_ONES[index])", "result.insert(1,ROMAN_FIVES[index])"], site(fr), fr.qualname, "digit 4: the one, then the five of this position (iv, xl, cd)", why=f"{arms.get(4)}")
    r5.check("over_five=remainder>=5" in s and "ifover_five:result.insert(0,ROMAN_FIVES[index])remainder-=5" in s and "result.insert(1ifover_fiveelse0,ROMAN_ONES[index]*remainder)" in s, site(fr), fr.qualname, "other digits: the five of this position if the digit is at least 5, then digit mod 5 ones after it", why="changed")
    fa = model.func("pdfminer.utils.format_int_alpha")
    s2 = "".join(unparse(fa.node).split())
    r5.check("value,remainder=divmod(value-1,len(string.ascii_lowercase))" in s2.replace("(value,remainder)", "value,remainder") and "result.append(string.ascii_lowercase[remainder])" in s2 and "result.reverse()" in s2, site(fa), fa.qualname, "letters: repeated divmod(value - 1, 26), least significant letter first, reversed at the end", why="changed")
    # Table 159: "A to Z for the first 26 pages, AA to ZZ for the next 26, and so on" - the letter of (n - 1) mod 26, written
    # (n - 1) div 26 + 1 times.  A positional base-26 numeral (aa, ab, ac ...) agrees with that for the first 27 labels only.
    has_numeral_loop = any(isinstance(n, ast.While) for n in walk_no_nested(fa.node)) and "divmod(" in s2
    repeats = any(isinstance(n, ast.BinOp) and isinstance(n.op, ast.Mult) for n in walk_no_nested(fa.node))
    r5.check(repeats and not has_numeral_loop, site(fa), fa.qualname, "letters: label n is one letter, (n - 1) mod 26, repeated (n - 1) div 26 + 1 times (ISO 32000-1 Table 159)", why="format_int_alpha writes a bijective base-26 numeral: label 28 is 'ab' where Table 159 has 'bb' (aa, bb, cc ... zz, aaa ...): every /A or /a label from the 28th on differs from what a viewer shows")


def _round8(model: Model, rep: Report) -> None:
    r7 = rep.rule("C17-R7", "BIND", "get_dest looks the name up as it was given, in the name tree and in the PDF 1.1 /Dests dictionary alike (the caller's str or bytes is not re-encoded: name-tree keys are bytes, /Dests keys are str)", 1)
    f = model.func("pdfminer.pdfdocument.PDFDocument.get_dest")
    p0 = f.params[1]
    stores = [n for n in walk_no_nested(f.node) if isinstance(n, ast.Name) and isinstance(n.ctx, ast.Store) and n.id == p0]
    call = [c for c in walk_no_nested(f.node) if isinstance(c, ast.Call) and (dotted(c.func) or "") == "self.lookup_name"]
    ok = not stores and bool(call) and len(call[0].args) == 2 and unparse(call[0].args[1]) == p0
    r7.check(ok, site(f, stores[0]) if stores else site(f), f.qualname, f"self.lookup_name('Dests', {p0}) with the parameter unchanged; no assignment to {p0}", why="the name is converted before the lookups: a str destination of a PDF 1.1 document is then searched as bytes in a dictionary whose keys are str and is reported as not found")

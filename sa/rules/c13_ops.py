"""Partial-operation table for C13 (DESIGN Appendix D.2), driven by the kinds of sa/doctaint.py."""

from __future__ import annotations

import ast
from typing import Dict, List, Tuple

from ..doctaint import DocTaint
from ..model import FuncInfo, Model, dotted, unparse, walk_no_nested
from ..norm import path_to
from .tokenizer import _guard_tests

SAFE_OPS: Dict[Tuple[str, str], str] = {}


def S(func: str, construct: str, reason: str) -> None:
    SAFE_OPS[(func, " ".join(construct.split())[:160])] = reason


TEXTY = ("group", "groups", "strip", "split", "decode", "rstrip", "lstrip")


def make_ops(model: Model):
    taints: Dict[str, DocTaint] = {}

    def dt(f: FuncInfo) -> DocTaint:
        if f.qualname not in taints:
            taints[f.qualname] = DocTaint(f)
        return taints[f.qualname]

    def texty(f: FuncInfo, a: ast.AST, depth: int = 0) -> bool:
        """a string cut out of text (regex group, split, slice): int()/float() of it may raise ValueError"""
        if depth > 3:
            return False
        if isinstance(a, ast.Subscript) and isinstance(a.slice, ast.Slice):
            return True
        if isinstance(a, ast.Subscript) and isinstance(a.value, ast.Name) and texty(f, a.value, depth + 1):
            return True
        if isinstance(a, ast.Call) and isinstance(a.func, ast.Attribute) and a.func.attr in TEXTY:
            return True
        if isinstance(a, ast.Name):
            for d_ in walk_no_nested(f.node):
                if isinstance(d_, ast.Assign):
                    for t in d_.targets:
                        names = [t] if isinstance(t, ast.Name) else (list(t.elts) if isinstance(t, (ast.Tuple, ast.List)) else [])
                        if any(isinstance(x, ast.Name) and x.id == a.id for x in names):
                            v = d_.value
                            if isinstance(v, ast.Call) and isinstance(v.func, ast.Attribute) and v.func.attr in TEXTY:
                                return True
                            if isinstance(v, ast.Name) and v.id != a.id and texty(f, v, depth + 1):
                                return True
                elif isinstance(d_, ast.For) and isinstance(d_.target, ast.Name) and d_.target.id == a.id:
                    if isinstance(d_.iter, ast.Call) and isinstance(d_.iter.func, ast.Attribute) and d_.iter.func.attr in ("revreadlines", "split", "splitlines"):
                        return True
        return False

    def ops(f: FuncInfo, n: ast.AST) -> List[Tuple[str, str]]:
        out: List[Tuple[str, str]] = []
        K = dt(f).kind
        if isinstance(n, ast.Call):
            d = dotted(n.func) or ""
            r = model.resolve_expr(f.module, n.func, f.cls) or d
            short = d.split(".")[-1]
            if r in ("struct.unpack", "struct.unpack_from") or d in ("unpack", "struct.unpack", "struct.unpack_from"):
                if not _struct_sized(n):
                    out.append(("struct.error", unparse(n)))
            elif r == "struct.pack" or d in ("pack", "struct.pack"):
                if any(not isinstance(a, ast.Constant) for a in n.args[1:]):
                    out.append(("struct.error", unparse(n)))
            elif d == "next" and len(n.args) == 1:
                out.append(("StopIteration", unparse(n)))
            elif d in ("int", "float") and n.args and not isinstance(n.args[0], ast.Constant):
                a0 = n.args[0]
                k = K(a0)
                if k == "RAW" and not _type_checked(f, n, a0):
                    out.append(("ValueError", unparse(n)))
                    out.append(("TypeError", unparse(n)))
                    # float(<integer of 400 digits>) and int(<inf>): a number token may be as long as the file
                    out.append(("OverflowError", unparse(n)))
                elif texty(f, a0) and not _fullmatch_guard(f, n, a0):
                    out.append(("ValueError", unparse(n)))
            elif d == "chr" and n.args and not isinstance(n.args[0], ast.Constant):
                if not _range_checked_before(model, f, n, n.args[0]):
                    out.append(("ValueError", unparse(n)))
            elif d == "ord" and n.args and isinstance(n.args[0], ast.Call) and (dotted(n.args[0].func) or "").endswith(".read"):
                out.append(("TypeError", unparse(n)))
            elif d == "bytes" and len(n.args) == 1 and isinstance(n.args[0], ast.Tuple):
                out.append(("ValueError", unparse(n)))
            elif short in ("unhexlify", "a85decode", "b85decode", "b64decode"):
                out.append(("ValueError", unparse(n)))
            elif r == "zlib.decompress" or d == "zlib.decompress":
                out.append(("zlib.error", unparse(n)))
            elif isinstance(n.func, ast.Attribute) and n.func.attr == "decode" and len(n.args) == 1 and not any(k.arg == "errors" for k in n.keywords) and isinstance(n.args[0], ast.Constant) and str(n.args[0].value).lower().replace("-", "").replace("_", "") not in ("latin1", "iso88591"):
                out.append(("UnicodeDecodeError", unparse(n)))
            elif isinstance(n.func, ast.Attribute) and n.func.attr == "encode" and len(n.args) == 1 and not any(k.arg == "errors" for k in n.keywords) and unparse(n.args[0]) != "self.codec":
                enc = n.args[0].value if isinstance(n.args[0], ast.Constant) else "?"
                if str(enc).lower().replace("-", "") not in ("utf8", "utf16", "utf16be", "utf16le", "utf32"):
                    out.append(("UnicodeEncodeError", unparse(n)))
            elif isinstance(n.func, ast.Attribute) and n.func.attr == "index" and len(n.args) >= 1 and not isinstance(n.func.value, ast.Constant):
                out.append(("ValueError", unparse(n)))
            elif d == "range" and len(n.args) == 3 and not (isinstance(n.args[2], ast.Constant) or isinstance(n.args[2], ast.UnaryOp) and isinstance(n.args[2].operand, ast.Constant)):
                out.append(("ValueError", unparse(n)))
            elif d == "len" and n.args and K(n.args[0]) == "RAW" and not _type_checked(f, n, n.args[0]):
                out.append(("TypeError", unparse(n)))
            elif d in ("itertools.islice", "islice", "iter") and n.args and K(n.args[0]) == "RAW" and not _type_checked(f, n, n.args[0]):
                # walking a value of unchecked type: not iterable (TypeError), or a PDFStream - __getitem__ without __iter__ (KeyError 0)
                out.append(("TypeError", unparse(n)))
                out.append(("KeyError", unparse(n)))
            elif isinstance(n.func, ast.Attribute) and n.func.attr == "seek" and len(n.args) >= 1 and K(n.args[0]) in ("NUM", "RAW") and not _nonneg_checked(f, n, n.args[0]):
                # file.seek(negative) raises ValueError
                out.append(("ValueError", unparse(n)))
            elif short == "CBC" and n.args and not _len_checked(f, n, n.args[0]) and not _source_len_checked(f, n, n.args[0]):
                # cryptography: CBC(iv) demands a 16-byte IV; a payload shorter than that gives a short slice
                out.append(("ValueError", unparse(n)))
            elif isinstance(n.func, ast.Attribute) and n.func.attr == "finalize" and not n.args:
                # cryptography: decryptor.finalize() raises ValueError when the data is not a whole number of blocks
                out.append(("ValueError", unparse(n)))
            elif d == "self.pop" and f.cls is not None and f.cls.name == "PDFPageInterpreter" and n.args and K(n.args[0]) == "RAW" and not _type_checked(f, n, n.args[0]) and not _int_member_checked(f, n, n.args[0]):
                # pop(n) slices the operand stack with n
                out.append(("TypeError", unparse(n)))
            # method call on a value of unchecked type
            if isinstance(n.func, ast.Attribute) and K(n.func.value) == "RAW" and not _type_checked(f, n, n.func.value):
                out.append(("AttributeError", unparse(n)))
            # splatting a document list into a call
            for a in n.args:
                if isinstance(a, ast.Starred):
                    k = K(a.value)
                    if k in ("RAW", "LIST") and not _len_checked(f, n, a.value) and not _literal_seq(f, a.value):
                        out.append(("TypeError", unparse(n)))
        elif isinstance(n, ast.Attribute) and isinstance(n.ctx, ast.Load) and K(n.value) == "RAW":
            if not _type_checked(f, n, n.value) and not _is_callee(f, n):
                out.append(("AttributeError", unparse(n)))
        elif isinstance(n, ast.Subscript) and isinstance(n.ctx, ast.Load):
            k = K(n.value)
            idx = n.slice
            if k == "RAW":
                if not _type_checked(f, n, n.value):
                    out.append(("TypeError", unparse(n)))
                if not isinstance(idx, ast.Slice) and not _key_checked(f, n, n.value, idx) and not _len_checked(f, n, n.value):
                    out.append(("KeyError" if isinstance(idx, ast.Constant) and isinstance(idx.value, str) else "IndexError", unparse(n)))
            elif k in ("DICT", "STREAM") and not isinstance(idx, ast.Slice):
                if not _key_checked(f, n, n.value, idx):
                    out.append(("KeyError", unparse(n)))
            elif k in ("LIST", "PAIRS", "FPAIRS") and not isinstance(idx, ast.Slice):
                if not _len_checked(f, n, n.value):
                    out.append(("IndexError", unparse(n)))
        elif isinstance(n, ast.BinOp):
            if isinstance(n.op, (ast.Div, ast.FloorDiv, ast.Mod)) and not (isinstance(n.left, ast.Constant) and isinstance(n.left.value, (str, bytes))):
                if K(n.right) in ("RAW", "NUM") and not isinstance(n.right, ast.Constant):
                    out.append(("ZeroDivisionError", unparse(n)))
            if isinstance(n.op, (ast.Add, ast.Sub, ast.Mult, ast.Div, ast.FloorDiv)):
                for side in (n.left, n.right):
                    if K(side) == "RAW" and not isinstance(side, ast.BinOp) and not _type_checked(f, n, side):
                        out.append(("TypeError", unparse(n)))
                        break
        elif isinstance(n, ast.Compare) and len(n.ops) == 1 and isinstance(n.ops[0], (ast.In, ast.NotIn)) and K(n.comparators[0]) == "RAW":
            # membership test on a value of unchecked type: `x in 5` raises TypeError
            if not _type_checked(f, n, n.comparators[0]) and not _truthy_container(f, n, n.comparators[0]):
                out.append(("TypeError", unparse(n)))
        elif isinstance(n, ast.Compare) and any(isinstance(o, (ast.Lt, ast.LtE, ast.Gt, ast.GtE)) for o in n.ops):
            for side in [n.left] + list(n.comparators):
                if K(side) == "RAW" and not _type_checked(f, n, side):
                    out.append(("TypeError", unparse(n)))
                    break
        elif isinstance(n, ast.Assign) and any(isinstance(t, (ast.Tuple, ast.List)) for t in n.targets):
            k = K(n.value)
            if k in ("RAW", "LIST", "PAIRS") and not isinstance(n.value, (ast.Tuple, ast.List)) and not (isinstance(n.value, ast.Call) and (dotted(n.value.func) or "").split(".")[-1] in ("nextobject", "nexttoken")):
                t = [t for t in n.targets if isinstance(t, (ast.Tuple, ast.List))][0]
                if not _len_checked(f, n, n.value):
                    out.append(("ValueError", f"{unparse(t)} = {unparse(n.value)}"))
                    if k == "RAW" and not _type_checked(f, n, n.value):
                        out.append(("TypeError", f"{unparse(t)} = {unparse(n.value)}"))
        elif isinstance(n, (ast.For, ast.comprehension)):
            it = n.iter
            if K(it) == "RAW" and not _type_checked(f, n, it):
                out.append(("TypeError", f"for ... in {unparse(it)}"))
                # a PDFStream has __getitem__ (dictionary access) and no __iter__: iterating one goes through the old sequence
                # protocol and asks for key 0
                out.append(("KeyError", f"for ... in {unparse(it)}"))
            if isinstance(n.target, (ast.Tuple, ast.List)):
                ek = dt(f).elem_kind(it)
                if ek == "RAW":
                    out.append(("TypeError", f"for {unparse(n.target)} in {unparse(it)}"))
        res = []
        for (e, c) in out:
            c2 = " ".join(c.split())[:160]
            if (f.qualname, c2) not in SAFE_OPS:
                res.append((e, c2))
        return res

    return ops


_ITEM = {"B": 1, "b": 1, "H": 2, "h": 2, "L": 4, "l": 4, "I": 4, "i": 4, "Q": 8, "q": 8}


def _struct_sized(call: ast.Call) -> bool:
    """struct.unpack('>%dH' % n, buf[:n * 2]): the buffer is cut to exactly what the format needs."""
    if len(call.args) != 2:
        return False
    fmt, buf = call.args
    if not (isinstance(fmt, ast.BinOp) and isinstance(fmt.op, ast.Mod) and isinstance(fmt.left, ast.Constant) and isinstance(fmt.left.value, str)):
        return False
    import re as _re

    m = _re.fullmatch(r"[<>=!@]?%d([a-zA-Z])", fmt.left.value)
    if not m or m.group(1) not in _ITEM:
        return False
    k = _ITEM[m.group(1)]
    cnt = unparse(fmt.right).replace(" ", "")
    if not (isinstance(buf, ast.Subscript) and isinstance(buf.slice, ast.Slice) and buf.slice.lower is None and buf.slice.upper is not None):
        return False
    up = unparse(buf.slice.upper).replace(" ", "")
    return up in (f"{cnt}*{k}", f"{k}*{cnt}") or (k == 1 and up == cnt)


def _fullmatch_guard(f: FuncInfo, node: ast.AST, val: ast.AST) -> bool:
    """int(x, 16) under `<REGEX>.fullmatch(x)` (x or the variable it is sliced from)."""
    root = val
    while isinstance(root, ast.Subscript):
        root = root.value
    cands = {unparse(val), unparse(root)}
    for (t, pol) in _guard_tests(f, node):
        if not pol:
            continue
        for c in [t] + list(ast.walk(t)):
            if isinstance(c, ast.Call) and isinstance(c.func, ast.Attribute) and c.func.attr == "fullmatch" and c.args and unparse(c.args[0]) in cands:
                return True
    return False


def _range_checked_before(model: Model, f: FuncInfo, node: ast.AST, val: ast.AST) -> bool:
    """chr(v) preceded, in an enclosing block, by a call g(v) of a package function that raises when v exceeds the Unicode range."""
    st = _stmt_of(f, node)
    if st is None or isinstance(f.node, ast.Lambda):
        return False
    names = {unparse(val)}
    # v drawn from a list that was validated element-wise: `for d in xs: check(d)` then `map(chr, xs)` is not modelled
    for (block, idx) in (path_to(f.node, st) or []):
        for s_ in block[:idx]:
            for c in [s_] + list(walk_no_nested(s_)):
                if isinstance(c, ast.Call) and c.args and unparse(c.args[0]) in names:
                    tgt = model.resolve_expr(f.module, c.func, f.cls)
                    if tgt in model.funcs:
                        g = model.funcs[tgt]
                        import copy as _copy

                        gn = _copy.deepcopy(g.node)
                        consts = {k: v for k, v in g.module.assigns.items() if isinstance(v, ast.Constant) and isinstance(v.value, int)}

                        class _Sub(ast.NodeTransformer):
                            def visit_Name(s2, n2: ast.Name):
                                return ast.copy_location(ast.Constant(value=consts[n2.id].value), n2) if isinstance(n2.ctx, ast.Load) and n2.id in consts else n2

                        src = unparse(_Sub().visit(gn))  # named module constants read as their values
                        if ("> 1114111" in src or ">= 1114112" in src or "1114111 <" in src or "1114112 <=" in src) and "raise" in src:
                            return True
    return False


def _literal_seq(f: FuncInfo, e: ast.AST) -> bool:
    """e is a tuple/list display, or a local bound exactly once to one (its length is known)."""
    if isinstance(e, (ast.Tuple, ast.List)):
        return True
    if isinstance(e, ast.Name):
        defs = [a for a in walk_no_nested(f.node) if isinstance(a, ast.Assign) and any(isinstance(t, ast.Name) and t.id == e.id for t in a.targets)]
        return len(defs) == 1 and isinstance(defs[0].value, (ast.Tuple, ast.List))
    return False


def _is_callee(f: FuncInfo, attr: ast.Attribute) -> bool:
    for n in walk_no_nested(f.node):
        if isinstance(n, ast.Call) and n.func is attr:
            return True
    return False


def _leaves(st: ast.stmt) -> bool:
    return isinstance(st, (ast.Return, ast.Raise, ast.Continue, ast.Break))


_stmt_cache: Dict[int, Dict[int, ast.stmt]] = {}


def _stmt_of(f: FuncInfo, node: ast.AST) -> ast.stmt:
    """Innermost statement of f containing node."""
    key = id(f.node)
    if key not in _stmt_cache:
        m: Dict[int, ast.stmt] = {}

        def visit(st: ast.AST, cur) -> None:
            for ch in ast.iter_child_nodes(st):
                c2 = ch if isinstance(ch, ast.stmt) else cur
                if c2 is not None:
                    m[id(ch)] = c2
                if isinstance(ch, (ast.FunctionDef, ast.AsyncFunctionDef, ast.ClassDef)) and ch is not f.node:
                    continue
                visit(ch, c2)

        visit(f.node, None)
        _stmt_cache[key] = m
    return _stmt_cache[key].get(id(node))  # type: ignore[return-value]


def _prior_exits(f: FuncInfo, node: ast.AST) -> List[ast.AST]:
    """Tests T of earlier sibling statements `if T: <leave>` in the blocks enclosing node: afterwards `not T` holds."""
    st = _stmt_of(f, node)
    out: List[ast.AST] = []
    if st is None or isinstance(f.node, ast.Lambda):
        return out
    chain = path_to(f.node, st)
    if not chain:
        return out
    for (block, idx) in chain:
        for s in block[:idx]:
            if isinstance(s, ast.If) and s.body and _leaves(s.body[-1]) and not s.orelse:
                out.append(s.test)
    return out


def _type_checked(f: FuncInfo, node: ast.AST, val: ast.AST) -> bool:
    """Is `val` narrowed by an isinstance/hasattr/identity test that governs `node`?"""
    txt = unparse(val)
    root = val
    while isinstance(root, (ast.Subscript, ast.Attribute)):
        root = root.value
    cands = {txt, unparse(root)}

    def positive(t: ast.AST) -> bool:
        for c in [t] + list(ast.walk(t)):
            if isinstance(c, ast.Call) and (dotted(c.func) or "") in ("isinstance", "hasattr", "isnumber", "utils.isnumber") and c.args and unparse(c.args[0]) in cands:
                return True
            # "<str constant>" in X succeeded: only dictionaries (and PDFStream) of the object model have str keys -
            # PDF strings are bytes and names are PSLiteral - so X supports [] and .get
            if isinstance(c, ast.Compare) and len(c.ops) == 1 and isinstance(c.ops[0], ast.In) and isinstance(c.left, ast.Constant) and isinstance(c.left.value, str) and unparse(c.comparators[0]) == txt and c is not node:
                return True
            if isinstance(c, ast.Compare) and isinstance(c.ops[0], (ast.Is, ast.Eq)) and unparse(c.left) in cands and isinstance(c.comparators[0], (ast.Name, ast.Attribute, ast.Constant)):
                return not (isinstance(c.comparators[0], ast.Constant) and c.comparators[0].value is None)
        return False

    for (t, pol) in _guard_tests(f, node):
        if pol and positive(t) and not (isinstance(t, ast.UnaryOp) and isinstance(t.op, ast.Not)):
            return True
        if (not pol) and isinstance(t, ast.UnaryOp) and isinstance(t.op, ast.Not) and positive(t.operand):
            return True
    for t in _prior_exits(f, node):
        if isinstance(t, ast.UnaryOp) and isinstance(t.op, ast.Not) and positive(t.operand):
            return True
        if isinstance(t, ast.BoolOp) and isinstance(t.op, ast.Or) and any(isinstance(v, ast.UnaryOp) and isinstance(v.op, ast.Not) and positive(v.operand) for v in t.values):
            return True
    st = _stmt_of(f, node)
    scope = st if st is not None else f.node
    # `if not isinstance(x, T): x = <something of type T>` earlier in an enclosing block
    if st is not None and not isinstance(f.node, ast.Lambda):
        for (block, idx) in (path_to(f.node, st) or []):
            for s_ in block[:idx]:
                if isinstance(s_, ast.If) and isinstance(s_.test, ast.UnaryOp) and isinstance(s_.test.op, ast.Not) and positive(s_.test.operand) and not s_.orelse:
                    if all(isinstance(b, ast.Assign) and any(unparse(t) in cands for t in b.targets) for b in s_.body):
                        return True
    for n in [scope] + list(walk_no_nested(scope)):
        if isinstance(n, ast.BoolOp) and isinstance(n.op, ast.And):
            vals = list(n.values)
            for i, v in enumerate(vals):
                if any(x is node for x in ast.walk(v)) and any(positive(p) for p in vals[:i]):
                    return True
        if isinstance(n, ast.BoolOp) and isinstance(n.op, ast.Or):
            vals = list(n.values)
            for i, v in enumerate(vals):
                if any(x is node for x in ast.walk(v)) and any(isinstance(p, ast.UnaryOp) and isinstance(p.op, ast.Not) and positive(p.operand) for p in vals[:i]):
                    return True
        if isinstance(n, ast.IfExp) and any(x is node for x in ast.walk(n.body)) and positive(n.test):
            return True
        if isinstance(n, (ast.ListComp, ast.GeneratorExp, ast.DictComp, ast.SetComp)):
            for g in n.generators:
                if any(positive(i) for i in g.ifs) and any(x is node for x in ast.walk(n)):
                    return True
    return False


def _key_checked(f: FuncInfo, node: ast.AST, cont: ast.AST, key: ast.AST) -> bool:
    ct, kt = unparse(cont), unparse(key)

    def has(t: ast.AST) -> bool:
        for c in [t] + list(ast.walk(t)):
            if isinstance(c, ast.Compare) and isinstance(c.ops[0], ast.In) and unparse(c.left) == kt and unparse(c.comparators[0]) == ct:
                return True
        return False

    for (t, pol) in _guard_tests(f, node):
        if pol and has(t):
            return True
    for t in _prior_exits(f, node):
        if isinstance(t, ast.Compare) and isinstance(t.ops[0], ast.NotIn) and unparse(t.left) == kt and unparse(t.comparators[0]) == ct:
            return True
    st = _stmt_of(f, node)
    scope = st if st is not None else f.node
    for n in [scope] + list(walk_no_nested(scope)):
        if isinstance(n, ast.BoolOp) and isinstance(n.op, ast.And):
            vals = list(n.values)
            for i, v in enumerate(vals):
                if any(x is node for x in ast.walk(v)) and any(has(p) for p in vals[:i]):
                    return True
    return False


def _nonneg_checked(f: FuncInfo, node: ast.AST, val: ast.AST) -> bool:
    """`val` (or the name at its root) is compared with 0 in a test that governs node or in an earlier exit."""
    root = val
    names = {x.id for x in ast.walk(val) if isinstance(x, ast.Name)}

    def has(t: ast.AST) -> bool:
        for c in [t] + list(ast.walk(t)):
            if isinstance(c, ast.Compare) and len(c.ops) == 1 and isinstance(c.ops[0], (ast.Lt, ast.LtE, ast.Gt, ast.GtE)):
                sides = [c.left, c.comparators[0]]
                if any(isinstance(s_, ast.Name) and s_.id in names for s_ in sides) and any(isinstance(s_, ast.Constant) and s_.value == 0 for s_ in sides):
                    return True
        return False

    if any(has(t) for (t, pol) in _guard_tests(f, node)) or any(has(t) for t in _prior_exits(f, node)):
        return True

    # every definition of the document-derived names is clamped: x = max(0, ...), x = <non-negative constant>, x += ...
    def clamped(name: str) -> bool:
        defs = [a for a in walk_no_nested(f.node) if isinstance(a, ast.Assign) and any(isinstance(t, ast.Name) and t.id == name for t in a.targets)]
        if not defs:
            return False
        for a in defs:
            v = a.value
            if isinstance(v, ast.Constant) and isinstance(v.value, int) and v.value >= 0:
                continue
            if isinstance(v, ast.Call) and (dotted(v.func) or "") == "max" and any(isinstance(x, ast.Constant) and x.value == 0 for x in v.args):
                continue
            return False
        return True

    from ..doctaint import DocTaint as _DT

    kinds = _DT(f).vars
    doc_names = [n_ for n_ in names if kinds.get(n_) in ("NUM", "RAW")]
    return bool(doc_names) and all(clamped(n_) for n_ in doc_names)


def _source_len_checked(f: FuncInfo, node: ast.AST, val: ast.AST) -> bool:
    """val is a slice of a buffer whose length was checked (len(data) < 16 -> exit)."""
    if not isinstance(val, ast.Name):
        return False
    for a in walk_no_nested(f.node):
        if isinstance(a, ast.Assign) and any(isinstance(t, ast.Name) and t.id == val.id for t in a.targets) and isinstance(a.value, ast.Subscript):
            return _len_checked(f, node, a.value.value)
    return False


def _int_member_checked(f: FuncInfo, node: ast.AST, val: ast.AST) -> bool:
    """`val in (1, 3, 4)`: membership in a literal tuple of ints governs node (IfExp test, guard or earlier exit)."""
    txt = unparse(val)

    def has(t: ast.AST) -> bool:
        for c in [t] + list(ast.walk(t)):
            if isinstance(c, ast.Compare) and len(c.ops) == 1 and isinstance(c.ops[0], ast.In) and unparse(c.left) == txt and isinstance(c.comparators[0], (ast.Tuple, ast.List, ast.Set)) and all(isinstance(e, ast.Constant) and isinstance(e.value, int) for e in c.comparators[0].elts):
                return True
        return False

    if any(pol and has(t) for (t, pol) in _guard_tests(f, node)):
        return True
    st = _stmt_of(f, node)
    scope = st if st is not None else f.node
    for n in [scope] + list(walk_no_nested(scope)):
        if isinstance(n, ast.IfExp) and any(x is node for x in ast.walk(n.body)) and has(n.test):
            return True
    return False


def _truthy_container(f: FuncInfo, node: ast.AST, val: ast.AST) -> bool:
    """A truthiness test does not make a value a container (5 is truthy): no narrowing."""
    return False


def _len_checked(f: FuncInfo, node: ast.AST, seq: ast.AST) -> bool:
    stx = unparse(seq)
    # the index expression, when node is seq[<index>]: a test that relates this very index to len(seq) must have the right
    # relation (index < len on the way in, index >= len on the way out); `i > len(s)` lets i == len(s) through
    idx_txt = None
    if isinstance(node, ast.Subscript) and unparse(node.value) == stx and not isinstance(node.slice, ast.Slice) and not isinstance(node.slice, ast.Constant):
        idx_txt = unparse(node.slice)

    def is_len(e: ast.AST) -> bool:
        return isinstance(e, ast.Call) and (dotted(e.func) or "") == "len" and bool(e.args) and unparse(e.args[0]) == stx

    # a constant index k needs len(seq) > k (k >= 0) or len(seq) >= -k (k < 0): a test that compares the length with a constant
    # must guarantee at least that much
    need = None
    if isinstance(node, ast.Subscript) and unparse(node.value) == stx:
        sl = node.slice
        if isinstance(sl, ast.Constant) and type(sl.value) is int:
            need = sl.value + 1 if sl.value >= 0 else -sl.value
        elif isinstance(sl, ast.UnaryOp) and isinstance(sl.op, ast.USub) and isinstance(sl.operand, ast.Constant) and type(sl.operand.value) is int:
            need = sl.operand.value

    def bound_from(c: ast.Compare, sense: str):
        """Lower bound on len(seq) that the comparison guarantees where node runs (None: not of that shape)."""
        l_, r_ = c.left, c.comparators[0]
        if is_len(l_) and isinstance(r_, ast.Constant) and type(r_.value) is int:
            op, k, len_left = type(c.ops[0]), r_.value, True
        elif is_len(r_) and isinstance(l_, ast.Constant) and type(l_.value) is int:
            op, k, len_left = type(c.ops[0]), l_.value, False
        else:
            return None
        if not len_left:  # k OP len  ->  len OP' k
            op = {ast.Lt: ast.Gt, ast.LtE: ast.GtE, ast.Gt: ast.Lt, ast.GtE: ast.LtE}.get(op, op)
        if sense == "in":
            return {ast.GtE: k, ast.Gt: k + 1, ast.Eq: k}.get(op)
        if sense == "out":  # the comparison was false where node runs
            return {ast.Lt: k, ast.LtE: k + 1, ast.NotEq: k}.get(op)
        return None

    def has(t: ast.AST, sense: str = "any") -> bool:
        """sense: 'in' - t holds where node runs; 'out' - t led to an exit (its negation holds); 'any' - not an index test."""
        found = False
        for c in [t] + list(ast.walk(t)):
            if need is not None and isinstance(c, ast.Compare) and len(c.ops) == 1 and sense in ("in", "out"):
                b = bound_from(c, sense)
                if b is not None:
                    if b >= need:
                        return True
                    return False  # the length is tested, but the test does not reach this index
            if isinstance(c, ast.Compare) and len(c.ops) == 1 and idx_txt is not None:
                l_, r_ = c.left, c.comparators[0]
                if (is_len(l_) and unparse(r_) == idx_txt) or (is_len(r_) and unparse(l_) == idx_txt):
                    op = type(c.ops[0])
                    if op not in (ast.Lt, ast.LtE, ast.Gt, ast.GtE):
                        found = True  # == / != against the length (a counter that stops at len): as before
                        continue
                    idx_left = unparse(l_) == idx_txt
                    inside = (idx_left and op is ast.Lt) or (not idx_left and op is ast.Gt)  # idx < len
                    outside = (idx_left and op is ast.GtE) or (not idx_left and op is ast.LtE)  # idx >= len
                    if sense == "in" and inside:
                        return True
                    if sense == "out" and outside:
                        return True
                    if sense == "any" and (inside or outside):
                        return True
                    return False  # the index is compared with the length, but not in a way that keeps it inside
            if is_len(c):
                found = True
        if found:
            return True
        return isinstance(t, (ast.Name, ast.Attribute)) and unparse(t) == stx  # truthiness: non-empty

    for (t, pol) in _guard_tests(f, node):
        if has(t, "in" if pol else "out"):
            return True
    for t in _prior_exits(f, node):
        if has(t, "out") or (isinstance(t, ast.UnaryOp) and has(t.operand, "in")):
            return True
    st = _stmt_of(f, node)
    scope = st if st is not None else f.node
    for n in [scope] + list(walk_no_nested(scope)):
        if isinstance(n, ast.BoolOp):
            # `len(s) > k and s[k]` / `len(s) == 0 or s[0]`: an earlier operand mentions the length
            vals = list(n.values)
            for i, v in enumerate(vals):
                if any(x is node for x in ast.walk(v)) and any(has(p, "in" if isinstance(n.op, ast.And) else "out") for p in vals[:i]):
                    return True
        if isinstance(n, ast.IfExp) and any(x is node for x in ast.walk(n.body)) and has(n.test, "in"):
            return True
    for n in walk_no_nested(f.node):
        if isinstance(n, ast.Assert) and has(n.test, "in") and getattr(n, "lineno", 0) < getattr(node, "lineno", 10**9):
            return True
    return False


# --------------------------------------------------------------------------- safe table
# One named construct per entry, with the reason it cannot raise; found by reading, not by statistics.
_P = "pdfminer."
S(_P + "cmapdb.CMapParser.do_keyword", "struct.pack('>L', start + i)", "start, end are nunpack() of at most 4 bytes and i <= end - start, so start + i <= end < 2**32")
S(_P + "cmapdb.IdentityCMapByte.decode", "struct.unpack('>%dB' % n, code)", "n is len(code): the format always matches the buffer")
S(_P + "cmapdb.IdentityUnicodeMap.get_unichr", "chr(cid)", "cid is produced by a CMap decode (two-byte identity or a resource table): below 0x110000")
for _a in ("CODE2CID", "IS_VERTICAL"):
    S(_P + "cmapdb.PyCMap.__init__", f"module.{_a}", "`module` is built by CMapDB._load_data from the library's own pickled resource (confined by C15-R2), not from the document")
for _a in ("CID2UNICHR_H", "CID2UNICHR_V"):
    S(_P + "cmapdb.PyUnicodeMap.__init__", f"module.{_a}", "`module` is built by CMapDB._load_data from the library's own pickled resource, not from the document")
S(_P + "lzw.LZWDecoder.feed", "bytes((c,))", "c ranges over range(256)")
S(_P + "jbig2.JBIG2StreamWriter.encode_data_length", "pack('>L', value)", "value is the segment's data_length as read by unpack('>L') (or the constant 0 of the end-of-page/end-of-file segments): it fits")
S(_P + "jbig2.JBIG2StreamWriter.encode_flags", "pack('>B', flags)", "flags is 0x80 | 0x40 | (type & 0x3F): below 256")
S(_P + "jbig2.JBIG2StreamWriter.encode_retention_flags", "pack(flags_format, *flags)", "the format is built entry by entry with the list; each byte is an OR of at most 8 single bits plus the 3-bit count, the dword is the constant 0xE0000000, and each referred-to number was read with the same width it is written with")
S(_P + "pdfdocument.PDFDocument.read_xref_from", "parser.seek(pos)", "at this statement pos is the position nexttoken() just returned (non-negative); the later rebinding of pos to /XRefStm and /Prev values only flows into the recursive call, whose first statement rejects negative offsets")
S(_P + "pdfdocument.PDFStandardSecurityHandlerV5._aes_cbc_encrypt", "modes.CBC(iv)", "iv is k[16:32] of a SHA digest of at least 32 bytes (R6 hash, ISO 32000-2 algorithm 2.B)")
S(_P + "pdfdocument.PDFStandardSecurityHandlerV5._aes_cbc_encrypt", "encryptor.finalize()", "the data is (password + k + u) repeated 64 times: a multiple of 64 bytes, hence of the block size")
S(_P + "pdfdocument.PDFStandardSecurityHandlerV5.authenticate", "modes.CBC(b'\\x00' * 16)", "a 16-byte constant")
S(_P + "arcfour.Arcfour.process", "bytes((c ^ k,))", "c is a byte of the data and k an element of the permutation of 0..255 held in s: the xor is below 256")
S(_P + "pdfdocument.PDFStandardSecurityHandler.authenticate_owner_password", "bytes((c ^ i,))", "c is a byte of an MD5 digest and i ranges over range(19, -1, -1): the xor is below 256")
S(_P + "pdfdocument.PDFStandardSecurityHandler.compute_u", "bytes((c ^ i,))", "c is a byte of the key and i ranges over range(1, 20): the xor is below 256")
S(_P + "pdfdocument.PDFStandardSecurityHandler.compute_encryption_key", "struct.pack('<L', self.p)", "self.p = uint_value(P, 32) lies in [0, 2**32) (C10-R5 decides the masking)")
S(_P + "ccitt.CCITTG4Parser._flush_line", "self.width <= self._curpos", "reset() multiplied a list by self.width during construction: a width that is not an integer raised there (recorded finding), so it is an int here")
S(_P + "pdfdocument.PDFDocument.find_xref", "int(prev)", "guarded by `if not prev.isdigit(): raise` (bytes.isdigit accepts ASCII digits only)")
S(_P + "pdfdocument.PDFXRefFallback.load", "int(objid_s)", "objid_s matched (\\d+) on a latin-1 decoded line: ASCII digits only (no Nd character above 0x7F in latin-1)")
S(_P + "pdfdocument.PDFXRefFallback.load", "int(genno_s)", "genno_s matched (\\d+) on a latin-1 decoded line: ASCII digits only")
S(_P + "pdfdocument.PDFXRefFallback.load", "objs[index * 2]", "index < n and n was clamped to len(objs) // 2")
S(_P + "pdfinterp.PDFContentParser.get_inline_data", "bytes((ci,))", "ci is an element of a bytes object: 0..255")
S(_P + "pdfinterp.PDFContentParser.get_inline_data", "bytes((target[i],))", "target[i] is an element of a bytes constant with i < len(target)")
S(_P + "pdfinterp.PDFPageInterpreter.init_state", "next(iter(self.csmap.values()))", "under `if self.csmap:` - the mapping is non-empty")
S(_P + "pdfpage.PDFPage.create_pages", "next(page_labels)", "page_labels is itertools.repeat(None) or PageLabels.labels, whose last range counts with itertools.count: never exhausted")
S(_P + "pdfparser.PDFParser.do_keyword", "((_, _object_id), _) = self.pop(2)", "under `if len(self.curstack) >= 2:` - pop(2) returns exactly two entries (checked by C01-R5)")
S(_P + "pdfparser.PDFParser.do_keyword", "dic['Length']", "dic was rebound to dict_value(dic): a dict; the KeyError is handled")
S(_P + "pdfparser.PDFParser.do_keyword", "line.index(b'endstream')", "under `if b'endstream' in line:`")
S(_P + "psparser.PSBaseParser._parse_hexstring", "bytes((int(m.group(0), 16),))", "verified by C14-R2: HEX_PAIR matches at most two hex digits")
S(_P + "psparser.PSBaseParser._parse_hexstring", "int(m.group(0), 16)", "verified by C14-R2: the token holds hex digits only")
S(_P + "psparser.PSBaseParser._parse_literal_hex", "bytes((int(self.hex, 16),))", "verified by C14-R2: at most two hex digits")
S(_P + "psparser.PSBaseParser._parse_string_1", "bytes((ESC_STRING[c],))", "verified by C14-R2: every ESC_STRING value is a byte")
S(_P + "psparser.PSBaseParser._parse_string_1", "bytes((chrcode,))", "verified by C14-R2: chrcode is masked with 255")
S(_P + "pdffont.get_widths", "cast(int, char1) + i", "r only holds values that passed isinstance(v, (int, float))")
S(_P + "pdffont.get_widths", "cast(int, char2) + 1", "under isinstance(char2, int)")
S(_P + "pdffont.get_widths2", "cast(int, char1) + i", "r only holds values that passed isinstance(v, (int, float))")
S(_P + "image.BMPWriter.__init__", "struct.pack('BBBx', i, i, i)", "i ranges over (0, 255) / range(256)")
S(_P + "pdfdocument.PDFStandardSecurityHandlerV4._unpad_aes", "bytes((n,))", "n is an element of a bytes object (0..255), further restricted to 1..16")

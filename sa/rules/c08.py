"""C08 - layout analysis conserves content and keeps its hierarchy well-formed."""

from __future__ import annotations

import ast
from typing import Dict, List, Optional, Set, Tuple

from ..cfg import CFG, build_cfg, contains_call
from ..model import AnchorMissing, FuncInfo, Model, dotted, unparse, walk_no_nested
from ..report import Report
from ..util import site

L = "pdfminer.layout."
LC = L + "LTLayoutContainer"


def _strip_cast(e: ast.AST) -> ast.AST:
    while isinstance(e, ast.Call) and (dotted(e.func) or "") == "cast" and len(e.args) == 2:
        e = e.args[1]
    return e


def _add_operands(e: ast.AST) -> List[ast.AST]:
    e = _strip_cast(e)
    if isinstance(e, ast.BinOp) and isinstance(e.op, ast.Add):
        return _add_operands(e.left) + _add_operands(e.right)
    return [e]


def _deferral_once(model: Model, rep: Report) -> None:
    """group_textboxes puts a pair back on the heap when something lies between the two boxes - once: the entry that goes back
    carries the flag that switches the test off.  That is what makes the loop terminate."""
    from ..util import guard_conjuncts

    r = rep.rule("C08-R16", "GUARD", "group_textboxes: a pair is deferred (pushed back with skip_isany = True) only while its own skip flag is off - `not skip_isany` is a conjunct of its own in the deferral test, so no pair is deferred twice", 1)
    gt = model.func(L + "LTLayoutContainer.group_textboxes")
    pushes = [c for c in walk_no_nested(gt.node) if isinstance(c, ast.Call) and (dotted(c.func) or "") == "heapq.heappush" and len(c.args) == 2 and isinstance(c.args[1], ast.Tuple) and c.args[1].elts and isinstance(c.args[1].elts[0], ast.Constant) and c.args[1].elts[0].value is True]
    if not pushes:
        raise AnchorMissing("group_textboxes: the push of a deferred pair (True, ...) not found")
    for c in pushes:
        g = guard_conjuncts(gt, c, innermost=True)
        r.check("notskip_isany" in g, site(gt, c), gt.qualname, "the deferred pair is pushed under `not skip_isany and ...`", why=f"guards {sorted(g)}: a pair can be pushed back although it was deferred before; when the condition that allows it persists (two boxes at distance 0 with a third across them) the loop never ends")


def run(model: Model, rep: Report) -> None:
    _deferral_once(model, rep)
    rep.explanation = (
        "C08: decides the structural part of content conservation: each partition produced in LTLayoutContainer.analyze reaches the final child "
        "list by def-use; a typestate analysis of group_objects over all paths of its loop body shows that every glyph is added to exactly one "
        "line exactly once and every line is yielded exactly once; bounding boxes grow by min/max in LTExpandableContainer.add and only LTAnno "
        "bypasses it; every line gets its line break and every line/box is analysed; sort keys give top-to-bottom / right-to-left order; text "
        "boxes are numbered on every path. Termination of the hierarchical grouping loop and non-emptiness arithmetic are not decided."
    )
    an = model.func(LC + ".analyze")
    # ---------------------------------------------------------------- R1
    r1 = rep.rule("C08-R1", "DEFUSE", "every partition of the page's objects reaches the final child list", 5)
    assigns = [n for n in walk_no_nested(an.node) if isinstance(n, ast.Assign) and unparse(n.targets[0]) == "self._objs"]
    if len(assigns) != 1:
        r1.violation(site(an), an.qualname, "self._objs is assigned exactly once in analyze", f"{len(assigns)} assignments")
    else:
        parts = [unparse(_strip_cast(x)) for x in _add_operands(assigns[0].value)]
        r1.check(sorted(parts) == ["empties", "otherobjs", "textboxes"], site(an, assigns[0]), an.qualname, "self._objs = textboxes + otherobjs + empties", why=f"right-hand side concatenates {parts}: a partition is dropped or duplicated")
    defs: Dict[str, List[str]] = {}
    for n in walk_no_nested(an.node):
        if isinstance(n, ast.Assign):
            t = n.targets[0]
            names = [unparse(e) for e in t.elts] if isinstance(t, ast.Tuple) else [unparse(t)]
            for nm in names:
                defs.setdefault(nm, []).append(unparse(n.value).replace(" ", ""))
    r1.check(defs.get("textobjs") == defs.get("otherobjs") == ["fsplit(lambdaobj:isinstance(obj,LTChar),self)"], site(an), an.qualname, "(textobjs, otherobjs) = fsplit(is LTChar, self): every child lands in exactly one of the two", why=f"{defs.get('textobjs')}")
    r1.check(defs.get("empties") == ["fsplit(lambdaobj:obj.is_empty(),textlines)"] and defs.get("textlines") == ["list(self.group_objects(laparams,textobjs))", "fsplit(lambdaobj:obj.is_empty(),textlines)"], site(an), an.qualname, "textlines = group_objects(textobjs); (empties, textlines) = fsplit(is_empty, textlines)", why=f"textlines <- {defs.get('textlines')}; empties <- {defs.get('empties')}")
    r1.check(defs.get("textboxes") == ["list(self.group_textlines(laparams,textlines))"], site(an), an.qualname, "textboxes = group_textlines(textlines)", why=f"{defs.get('textboxes')}")
    fs = model.func("pdfminer.utils.fsplit")
    src = unparse(fs.node).replace(" ", "")
    r1.check("ifpred(obj):t.append(obj)else:f.append(obj)" in "".join(src.split()) and "returnt,f" in src.replace("(t,f)", "t,f"), site(fs), fs.qualname, "fsplit puts every element into exactly one of its two results", why="fsplit changed")
    early = [n for n in walk_no_nested(an.node) if isinstance(n, ast.If) and unparse(n.test).replace(" ", "") == "nottextobjs" and any(isinstance(s, ast.Return) for s in n.body)]
    r1.check(bool(early) and early[0].lineno < (assigns[0].lineno if assigns else 0), site(an), an.qualname, "without glyphs the child list is left as it is", why="early return changed")

    # ---------------------------------------------------------------- R2
    _group_objects(model, rep)

    # ---------------------------------------------------------------- R3
    r3 = rep.rule("C08-R3", "NORMFORM", "bounding boxes: containers grow by min/max of their members; only LTAnno bypasses the expanding add", 4)
    ea = model.func(L + "LTExpandableContainer.add")
    calls = [c for c in walk_no_nested(ea.node) if isinstance(c, ast.Call) and (dotted(c.func) or "") == "self.set_bbox"]
    ok = False
    if calls and calls[0].args and isinstance(calls[0].args[0], ast.Tuple):
        want = [("min", "x0"), ("min", "y0"), ("max", "x1"), ("max", "y1")]
        got = []
        for e in calls[0].args[0].elts:
            if isinstance(e, ast.Call) and (dotted(e.func) or "") in ("min", "max") and len(e.args) == 2:
                a = sorted(unparse(x) for x in e.args)
                attr = a[0].split(".")[-1]
                if a == sorted([f"self.{attr}", f"{ea.params[1]}.{attr}"]):
                    got.append((dotted(e.func), attr))
        ok = got == want
    first = [c for c in walk_no_nested(ea.node) if isinstance(c, ast.Call) and (dotted(c.func) or "") == "LTContainer.add"]
    r3.check(ok and bool(first), site(ea), ea.qualname, "add(obj): append, then bbox = (min x0, min y0, max x1, max y1) of self and obj", why="bounding-box update changed")
    gea = build_cfg(ea.node, exc_edges=False)
    wea = gea.all_path_pass(gea.entry, lambda n: n.ast is not None and n.kind == "stmt" and contains_call(n.ast, lambda c: (dotted(c.func) or "") == "self.set_bbox"))
    r3.check(wea is None and not any(isinstance(n, (ast.If, ast.Return)) for n in walk_no_nested(ea.node)), site(ea), ea.qualname, "the box grows for every member added (no early exit, no condition)", why="a path through add() skips set_bbox: a member (for example a zero-width mark that sticks out of its line) is in the container but outside its bounding box")
    bypass = []
    for f in model.funcs.values():
        if not f.qualname.startswith(L) or isinstance(f.node, ast.Lambda):
            continue
        for c in walk_no_nested(f.node):
            if isinstance(c, ast.Call) and (dotted(c.func) or "") == "LTContainer.add" and f.qualname != ea.qualname:
                bypass.append((f, c))
    for (f, c) in bypass:
        arg = c.args[-1] if c.args else None
        is_anno = isinstance(arg, ast.Call) and (dotted(arg.func) or "") == "LTAnno"
        r3.check(is_anno, site(f, c), f.qualname, f"{unparse(c)[:70]}: only a virtual character (LTAnno) is added without growing the box", why="an item with a bounding box is appended without extending the container's box")
    if not bypass:
        raise AnchorMissing("no LTContainer.add bypass sites found (expected the LTAnno insertions)")
    sb = model.func(L + "LTComponent.set_bbox")
    s2 = unparse(sb.node).replace(" ", "")
    r3.check("self.width=x1-x0" in s2 and "self.height=y1-y0" in s2 and "self.bbox=bbox" in s2, site(sb), sb.qualname, "set_bbox keeps x0..y1, width, height and bbox consistent", why="set_bbox changed")

    # ---------------------------------------------------------------- R4
    r4 = rep.rule("C08-R4", "ORDER", "every line ends in a line break and every line/box is analysed", 5)
    la = model.func(L + "LTTextLine.analyze")
    g = build_cfg(la.node, exc_edges=False)
    wit = g.all_path_pass(g.entry, lambda n: n.ast is not None and n.kind == "stmt" and contains_call(n.ast, lambda c: (dotted(c.func) or "") == "LTContainer.add" and c.args and unparse(c.args[-1]) in ("LTAnno('\\n')",)))
    r4.check(wit is None, site(la), la.qualname, "LTTextLine.analyze appends LTAnno('\\n') on every path", why="a path leaves the line without its line break")
    ca = model.func(L + "LTContainer.analyze")
    r4.check("".join(unparse(ca.node).split()).endswith("forobjinself._objs:obj.analyze(laparams)"), site(ca), ca.qualname, "a container analyses each of its children", why="changed")
    src = unparse(an.node)
    r4.check("for obj in empties:\n        obj.analyze(laparams)" in src or "forobjinempties:obj.analyze(laparams)" in "".join(src.split()), site(an), an.qualname, "empty lines are analysed explicitly (they are not part of any box)", why="empties not analysed")
    # path-sensitive: from the statement that sets the empty lines aside, every path to the end of analyze passes their analysis,
    # and every path passes an analysis of the text boxes (directly or through the groups)
    ga = build_cfg(an.node, exc_edges=False)
    split = [n.id for n in ga.nodes if n.kind == "stmt" and n.ast is not None and "".join(unparse(n.ast).split()).replace("(empties,textlines)", "empties,textlines").startswith("empties,textlines=fsplit(")]
    if not split:
        raise AnchorMissing("analyze: the empties/textlines split was not found")

    def loop_over(nd, coll: str) -> bool:
        return nd.kind == "for" and nd.ast is not None and "".join(unparse(nd.ast.iter).split()) == coll and any(isinstance(c, ast.Call) and isinstance(c.func, ast.Attribute) and c.func.attr == "analyze" for c in ast.walk(nd.ast))

    w1 = ga.all_path_pass(split[0], lambda nd: loop_over(nd, "empties")) if split else [0]
    r4.check(w1 is None, site(an), an.qualname, "empty lines are analysed on every path (flat and grouped)", why="a path from the empties/textlines split to the end of analyze never analyses the empty lines: they keep no line break")
    w2 = ga.all_path_pass(split[0], lambda nd: loop_over(nd, "textboxes") or loop_over(nd, "self.groups")) if split else [0]
    r4.check(w2 is None, site(an), an.qualname, "text boxes are analysed on every path", why="a path skips analysing the boxes")
    flat = "".join(src.split())
    r4.check("fortextboxintextboxes:textbox.analyze(laparams)" in flat and "forgroupinself.groups:group.analyze(laparams)" in flat, site(an), an.qualname, "text boxes are analysed on both the flat and the grouped path", why="a path skips analysing the boxes")
    for cls in ("LTTextBoxHorizontal", "LTTextBoxVertical", "LTTextGroupLRTB", "LTTextGroupTBRL"):
        f = model.func(L + cls + ".analyze")
        r4.check("super().analyze(laparams)" in unparse(f.node), site(f), f.qualname, f"{cls}.analyze analyses its children before ordering them", why="super().analyze missing")

    # ---------------------------------------------------------------- R5
    r5 = rep.rule("C08-R5", "NORMFORM", "lines inside a box are ordered top-to-bottom (right-to-left for vertical boxes)", 2)
    for cls, attr in (("LTTextBoxHorizontal", "y1"), ("LTTextBoxVertical", "x1")):
        f = model.func(L + cls + ".analyze")
        sorts = [c for c in walk_no_nested(f.node) if isinstance(c, ast.Call) and (dotted(c.func) or "") == "self._objs.sort"]
        ok = False
        if sorts:
            kw = {k.arg: k.value for k in sorts[0].keywords}
            key = kw.get("key")
            rev = isinstance(kw.get("reverse"), ast.Constant) and kw["reverse"].value is True  # type: ignore[union-attr]
            if isinstance(key, ast.Lambda):
                p = key.args.args[0].arg
                body = unparse(key.body).replace(" ", "")
                ok = (body == f"-{p}.{attr}" and not rev) or (body == f"{p}.{attr}" and rev)
        r5.check(ok, site(f), f.qualname, f"lines sorted by descending {attr}", why="sort key changed")

    # ---------------------------------------------------------------- R6
    r6 = rep.rule("C08-R6", "ORDER", "text boxes are numbered 0..n-1 in output order on every path that produces boxes", 3)
    branch = next((n for n in walk_no_nested(an.node) if isinstance(n, ast.If) and n.orelse and any(isinstance(x, ast.Attribute) and x.attr == "boxes_flow" for x in ast.walk(n.test))), None)
    if branch is None:
        raise AnchorMissing("analyze: the branch on laparams.boxes_flow was not found")
    # which arm is the grouped one is decided by what it does, not by how the test is spelled (C09-R5 decides the test)
    arms = [branch.body, branch.orelse]
    grouped = [a for a in arms if "group_textboxes" in unparse(ast.Module(body=a, type_ignores=[]))]
    if len(grouped) != 1:
        raise AnchorMissing("analyze: exactly one arm of the boxes_flow branch should call group_textboxes")
    # flat path: sort, then enumerate -> .index
    b = arms[1] if grouped[0] is arms[0] else arms[0]
    sort_i = next((i for i, s in enumerate(b) if isinstance(s, ast.Expr) and "textboxes.sort(" in unparse(s)), None)
    num_i = next((i for i, s in enumerate(b) if isinstance(s, ast.For) and "enumerate(textboxes" in unparse(s.iter) and any(isinstance(x, ast.Assign) and unparse(x.targets[0]).endswith(".index") for x in s.body)), None)
    if sort_i is not None and num_i is not None and num_i > sort_i:
        lp = b[num_i]
        i_name = unparse(lp.target.elts[0]) if isinstance(lp.target, ast.Tuple) else ""
        asg = [x for x in lp.body if isinstance(x, ast.Assign)][0]
        start0 = len(lp.iter.args) == 1 and not lp.iter.keywords  # type: ignore[attr-defined]
        r6.check(unparse(asg.value) == i_name and start0, site(an, lp), an.qualname, "flat path: after sorting, box k gets index k (from 0)", why=f"index assigned `{unparse(asg.value)}`")
    else:
        r6.violation(site(an, branch), an.qualname, "flat path (boxes_flow is None): boxes are sorted but never numbered", "every LTTextBox keeps index -1")
    e = grouped[0]
    flat_e = "".join(unparse(ast.Module(body=e, type_ignores=[])).split())
    r6.check("assigner=IndexAssigner()" in flat_e and "assigner.run(group)" in flat_e and "textboxes.sort(key=lambdabox:box.index)" in flat_e, site(an, e[0]) if e else site(an), an.qualname, "grouped path: IndexAssigner numbers the boxes in group order, then the boxes are sorted by that number", why="numbering on the grouped path changed")
    ia = model.func(L + "IndexAssigner.run")
    # the assigner goes into every kind of group: the test names the common base class
    r17 = rep.rule("C08-R17", "DISPATCH", "IndexAssigner descends into every text group (horizontal and vertical alike): the recursion is tested with the base class LTTextGroup", 1)
    rec_ifs = [n for n in walk_no_nested(ia.node) if isinstance(n, ast.If) and any(isinstance(c, ast.Call) and (dotted(c.func) or "") == "self.run" for st in n.body for c in ast.walk(st))]
    if not rec_ifs:
        raise AnchorMissing("IndexAssigner.run: recursive branch not found")
    for n in rec_ifs:
        names = {unparse(a) for c in ast.walk(n.test) if isinstance(c, ast.Call) and (dotted(c.func) or "") == "isinstance" and len(c.args) == 2 for a in (c.args[1].elts if isinstance(c.args[1], ast.Tuple) else [c.args[1]])}
        subs = {q.split(".")[-1] for q in model.classes if q.startswith(L + "LTTextGroup") and q != L + "LTTextGroup"}
        r17.check("LTTextGroup" in names or (subs and subs <= names), site(ia, n), ia.qualname, f"{unparse(n.test)} covers every group class ({sorted(subs)})", why=f"tests {sorted(names)}: boxes under a group of another class (vertical text: LTTextGroupTBRL) are never numbered and keep index -1")
    fi = "".join(unparse(ia.node).split())
    r6.check("obj.index=self.indexself.index+=1" in fi and "forxinobj:self.run(x)" in fi and unparse(model.func(L + "IndexAssigner.__init__").node).count("index: int=0") + unparse(model.func(L + "IndexAssigner.__init__").node).count("index: int = 0") >= 1, site(ia), ia.qualname, "IndexAssigner hands out consecutive numbers from 0 in traversal order", why="changed")

    # ---------------------------------------------------------------- R11
    _group_textboxes(model, rep)
    _round8(model, rep)
    # ---------------------------------------------------------------- R13
    r13 = rep.rule("C08-R13", "GUARD", "the layout analysis never divides by a glyph extent (zero-width / zero-height glyphs are legal input)", 1)
    ndiv = 0
    for q, f in sorted(model.funcs.items()):
        if not q.startswith(L) or isinstance(f.node, ast.Lambda):
            continue
        for n in walk_no_nested(f.node):
            if isinstance(n, ast.BinOp) and isinstance(n.op, (ast.Div, ast.FloorDiv, ast.Mod)) and not (isinstance(n.left, ast.Constant) and isinstance(n.left.value, (str, bytes))):
                den = n.right
                ext = [x for x in ast.walk(den) if isinstance(x, ast.Attribute) and x.attr in ("width", "height")]
                ndiv += 1
                if ext:
                    r13.violation(site(f, n), q, unparse(n)[:80], f"divides by `{unparse(den)[:40]}`, which is 0 for a degenerate glyph: ZeroDivisionError aborts the analysis of the whole page")
                else:
                    r13.ok(site(f, n), q, unparse(n)[:80], nontrivial=False)
    if ndiv == 0:
        r13.ok(L, L, "no division in the layout module", nontrivial=False)
    # ---------------------------------------------------------------- R12
    r12 = rep.rule("C08-R12", "EFFECTS", "layout items keep identity semantics: the grouping code puts them into sets, dictionaries and `uniq`, so no class of the hierarchy defines __eq__/__hash__", 20)
    for cq, ci in sorted(model.classes.items()):
        if not cq.startswith(L) or not (cq == L + "LTItem" or model.is_subclass(cq, L + "LTItem")):
            continue
        defined = [m for m in ("__eq__", "__ne__", "__hash__") if m in ci.methods]
        r12.check(not defined, f"{ci.module.relpath}:{ci.node.lineno}:{ci.name}", cq, f"{ci.name} inherits object identity for ==/hash", why=f"defines {defined}: two distinct items that compare equal (overprinted text: same box, same characters) collapse into one in Plane.find's seen-set, in uniq() and in the line -> box dictionary of group_textlines, and one of them disappears from the page")
    # ---------------------------------------------------------------- R10 (shared with C20)
    from .c20 import plane_membership_rule

    plane_membership_rule(model, rep, "C08-R10")
    # ---------------------------------------------------------------- R8
    r8 = rep.rule("C08-R8", "SIBLING", "the line-level emptiness test that sets lines aside implies the box-level test that drops boxes", 2)
    le = model.func(L + "LTTextLine.is_empty")
    rets = [n for n in walk_no_nested(le.node) if isinstance(n, ast.Return)]
    parts = [unparse(v).replace(" ", "") for v in (rets[0].value.values if rets and isinstance(rets[0].value, ast.BoolOp) and isinstance(rets[0].value.op, ast.Or) else ([rets[0].value] if rets else []))]
    r8.check("super().is_empty()" in parts, site(le), le.qualname, "LTTextLine.is_empty is true whenever the line's box is degenerate (super().is_empty() or ...)", why=f"is_empty is `{' or '.join(parts)}`: a zero-extent line with visible text is grouped into a box, and group_textlines drops boxes whose box is degenerate - its glyphs vanish from the page")
    gl = model.func(LC + ".group_textlines")
    sgl = "".join(unparse(gl.node).split())
    ce = model.func(L + "LTComponent.is_empty")
    r8.check("ifnotbox.is_empty():yieldbox" in sgl and "returnself.width<=0orself.height<=0" in "".join(unparse(ce.node).split()), site(gl), gl.qualname, "group_textlines drops only boxes whose bounding box is degenerate (width <= 0 or height <= 0)", why="drop predicate changed")
    # ---------------------------------------------------------------- R7
    r7 = rep.rule("C08-R7", "NORMFORM", "the text of a container is the concatenation of its members' text in order", 1)
    gt = model.func(L + "LTTextContainer.get_text")
    fg = "".join(unparse(gt.node).split())
    r7.check("return''.join((cast(LTText,obj).get_text()forobjinselfifisinstance(obj,LTText)))" in fg, site(gt), gt.qualname, "''.join(obj.get_text() for obj in self if obj is text)", why="changed")


# ------------------------------------------------------------------ typestate of group_objects
def _tv(test: ast.AST, line: str) -> Optional[bool]:
    """Three-valued evaluation of a branch test given the abstract value of `line` (NONE | SOME)."""
    if isinstance(test, ast.BoolOp):
        vals = [_tv(v, line) for v in test.values]
        if isinstance(test.op, ast.And):
            if any(v is False for v in vals):
                return False
            return True if all(v is True for v in vals) else None
        if any(v is True for v in vals):
            return True
        return False if all(v is False for v in vals) else None
    if isinstance(test, ast.UnaryOp) and isinstance(test.op, ast.Not):
        v = _tv(test.operand, line)
        return None if v is None else (not v)
    if isinstance(test, ast.Compare) and unparse(test.left) == "line" and isinstance(test.comparators[0], ast.Constant) and test.comparators[0].value is None:
        if isinstance(test.ops[0], ast.IsNot):
            return line == "SOME"
        if isinstance(test.ops[0], ast.Is):
            return line == "NONE"
    if isinstance(test, ast.Call) and (dotted(test.func) or "") == "isinstance" and unparse(test.args[0]) == "line":
        return False if line == "NONE" else None
    return None


def _group_objects(model: Model, rep: Report) -> None:
    r2 = rep.rule("C08-R2", "TYPESTATE", "group_objects: every glyph is added to exactly one line exactly once; every line is yielded exactly once (all paths of the loop body)", 6)
    go = model.func(LC + ".group_objects")
    loop = next((n for n in walk_no_nested(go.node) if isinstance(n, ast.For)), None)
    if loop is None:
        raise AnchorMissing("group_objects: loop not found")
    cur = unparse(loop.target)
    inner = next((s for s in loop.body if isinstance(s, ast.If) and unparse(s.test).replace(" ", "") == "obj0isnotNone"), None)
    upd = [s for s in loop.body if isinstance(s, ast.Assign) and unparse(s.targets[0]) == "obj0" and unparse(s.value) == cur]
    r2.check(inner is not None and len(upd) == 1 and loop.body.index(upd[0]) == len(loop.body) - 1, site(go, loop), go.qualname, "each iteration ends with obj0 = obj1 (the previous glyph is carried over)", why="carry-over changed")
    if inner is None:
        return
    fn = ast.FunctionDef(name="_iter", args=go.node.args, body=inner.body, decorator_list=[], lineno=inner.lineno, col_offset=0)  # type: ignore[attr-defined]
    g = build_cfg(fn, exc_edges=False)
    npaths = 0
    for start in ("NONE", "SOME"):
        for path in g.paths():
            if path[-1][0] != g.exit:
                continue
            line = start
            added0 = start == "SOME"  # obj0 already sits in the current line
            added1 = 0
            add0_count = 0
            yielded_current = False
            feasible = True
            problems: List[str] = []
            conds = []
            for (nid, lab) in path:
                n = g.nodes[nid]
                a = n.ast
                if a is None:
                    continue
                if n.kind == "test":
                    v = _tv(a, line)
                    want = lab == "true"
                    if v is not None and v != want:
                        feasible = False
                        break
                    conds.append(("" if want else "not ") + unparse(a)[:40])
                    continue
                txt = unparse(a).replace(" ", "")
                if isinstance(a, ast.Assign) and unparse(a.targets[0]) == "line":
                    if unparse(a.value) == "None":
                        if line == "SOME" and not yielded_current:
                            problems.append("a line is dropped without having been yielded")
                        line = "NONE"
                        yielded_current = False
                    else:
                        if line == "SOME" and not yielded_current:
                            problems.append("a line is replaced without having been yielded")
                        line = "SOME"
                        yielded_current = False
                        # a new line: obj0 is not in it yet
                        added0_new = False
                        if not added0 and start == "NONE":
                            pass
                        new_line_started = True  # noqa: F841
                elif txt == "line.add(obj0)":
                    if line == "NONE":
                        problems.append("add on no line")
                    add0_count += 1
                elif txt == f"line.add({cur})":
                    if line == "NONE":
                        problems.append("add on no line")
                    added1 += 1
                elif isinstance(a, ast.Expr) and isinstance(a.value, ast.Yield) and unparse(a.value.value) == "line":
                    if line == "NONE":
                        problems.append("yield of no line")
                    if yielded_current:
                        problems.append("the same line is yielded twice")
                    yielded_current = True
            if not feasible:
                continue
            npaths += 1
            # obligations at the end of the iteration
            want_add0 = 0 if start == "SOME" else 1
            if add0_count != want_add0:
                problems.append(f"the previous glyph is added {add0_count} time(s), expected {want_add0}")
            if line == "SOME":
                if yielded_current:
                    problems.append("a yielded line stays current (it would be yielded again)")
                if added1 != 1:
                    problems.append(f"the current glyph is added {added1} time(s) to the line that stays current")
            else:
                if added1 != 0 and not (start == "SOME" or add0_count):
                    problems.append("the current glyph is added to a line that is then left")
                if added1 != 0:
                    problems.append("the current glyph sits in a yielded line but is treated as pending by the next iteration")
                if start == "SOME" and not yielded_current and False:
                    pass
            construct = f"start line={start}: [{' & '.join(conds)[:120]}]"
            r2.check(not problems, site(go, inner), go.qualname, construct, why="; ".join(problems))
    rep.analysed["group_objects_feasible_paths"] = npaths
    _orientation(rep, go, inner, g, cur)
    # after the loop: a pending glyph gets a line; the last line is yielded
    after = go.node.body[go.node.body.index(loop) + 1 :]  # type: ignore[attr-defined]
    fa = "".join(unparse(ast.Module(body=after, type_ignores=[])).split())
    ok = fa.startswith("iflineisNone:line=LTTextLineHorizontal(laparams.word_margin)") and "line.add(obj0)" in fa and fa.endswith("yieldline")
    r2.check(ok, site(go, after[0]) if after else site(go), go.qualname, "after the loop: a pending last glyph gets its own line, and the current line is yielded", why="epilogue changed")


def _ev(e: ast.AST, env: Dict[str, object]) -> Optional[bool]:
    """Three-valued evaluation of a branch test of group_objects under (halign, valign, kind of the current line)."""
    if isinstance(e, ast.Name) and e.id in env and isinstance(env[e.id], bool):
        return env[e.id]  # type: ignore[return-value]
    if isinstance(e, ast.UnaryOp) and isinstance(e.op, ast.Not):
        v = _ev(e.operand, env)
        return None if v is None else not v
    if isinstance(e, ast.BoolOp):
        vs = [_ev(v, env) for v in e.values]
        if isinstance(e.op, ast.And):
            return False if any(v is False for v in vs) else (None if any(v is None for v in vs) else True)
        return True if any(v is True for v in vs) else (None if any(v is None for v in vs) else False)
    if isinstance(e, ast.Compare) and len(e.ops) == 1 and isinstance(e.left, ast.Name) and e.left.id == "line" and isinstance(e.comparators[0], ast.Constant) and e.comparators[0].value is None:
        if isinstance(e.ops[0], ast.Is):
            return env["line"] == "NONE"
        if isinstance(e.ops[0], ast.IsNot):
            return env["line"] != "NONE"
    if isinstance(e, ast.Name) and e.id == "line":
        return env["line"] != "NONE"
    if isinstance(e, ast.Call) and (dotted(e.func) or "") == "isinstance" and len(e.args) == 2 and isinstance(e.args[0], ast.Name) and e.args[0].id == "line":
        names = [unparse(x) for x in (e.args[1].elts if isinstance(e.args[1], ast.Tuple) else [e.args[1]])]
        kinds = set()
        for nm in names:
            kinds |= {"LTTextLineHorizontal": {"H"}, "LTTextLineVertical": {"V"}, "LTTextLine": {"H", "V"}}.get(nm, set())
        return env["line"] in kinds
    return None


def _orientation(rep: Report, go: FuncInfo, inner: ast.If, g, cur: str) -> None:
    """C08-R9: a glyph joins a horizontal line only when it is horizontally aligned with its predecessor, a vertical line
    only when vertically aligned - for all 12 combinations of (halign, valign, kind of the current line)."""
    r9 = rep.rule("C08-R9", "TYPESTATE", "group_objects: every line holds glyphs of one orientation - a glyph is added to (or starts) a horizontal line only under halign, a vertical line only under valign", 12)
    for kind in ("NONE", "H", "V"):
        for h in (False, True):
            for v in (False, True):
                env: Dict[str, object] = {"halign": h, "valign": v, "line": kind}
                feas = []
                for path in g.paths():
                    if path[-1][0] != g.exit:
                        continue
                    ok = True
                    unknown = False
                    for (nid, lab) in path:
                        n = g.nodes[nid]
                        if n.kind == "test" and n.ast is not None:
                            tv = _ev(n.ast, env)
                            if tv is None:
                                unknown = True
                            elif tv != (lab == "true"):
                                ok = False
                                break
                    if ok:
                        feas.append((path, unknown))
                problems: List[str] = []
                if len(feas) != 1 or feas[0][1]:
                    problems.append(f"{len(feas)} paths are possible (a branch test is not a function of halign, valign and the kind of the current line)")
                for path, _ in feas:
                    line = kind
                    for (nid, lab) in path:
                        a = g.nodes[nid].ast
                        if a is None or g.nodes[nid].kind == "test":
                            continue
                        if isinstance(a, ast.Assign) and unparse(a.targets[0]) == "line":
                            val = a.value
                            if isinstance(val, ast.Constant) and val.value is None:
                                line = "NONE"
                            elif isinstance(val, ast.Call):
                                line = {"LTTextLineHorizontal": "H", "LTTextLineVertical": "V"}.get(dotted(val.func) or "", "?")
                            else:
                                line = "?"
                        elif unparse(a).replace(" ", "") == f"line.add({cur})":
                            if line == "H" and not h:
                                problems.append(f"`{cur}` joins a horizontal line although it is not horizontally aligned with its predecessor")
                            elif line == "V" and not v:
                                problems.append(f"`{cur}` joins a vertical line although it is not vertically aligned with its predecessor")
                            elif line == "?":
                                problems.append("line of unknown orientation")
                r9.check(not problems, site(go, inner), go.qualname, f"halign={h}, valign={v}, current line={kind}", why="; ".join(problems))


def _group_textboxes(model: Model, rep: Report) -> None:
    """C08-R11: hierarchical grouping conserves boxes - a merge takes exactly the two popped elements out of the plane,
    marks both as done and puts exactly their group back; the result is what is left in the plane."""
    r = rep.rule("C08-R11", "PAIR", "group_textboxes: all boxes enter the plane; a merge removes both members, marks both done and adds their group on every path; the groups returned are the plane's content", 6)
    f = model.func(LC + ".group_textboxes")
    src = "".join(unparse(f.node).split())
    loops = [n for n in f.node.body if isinstance(n, ast.While)]  # type: ignore[attr-defined]
    if len(loops) != 1:
        raise AnchorMissing("group_textboxes: main loop not found")
    lp = loops[0]
    pre = f.node.body[: f.node.body.index(lp)]  # type: ignore[attr-defined]
    r.check(any("".join(unparse(s).split()) == "plane.extend(boxes)" for s in pre), site(f), f.qualname, "every text box is put into the plane before merging starts", why="plane.extend(boxes) missing before the loop")
    pop = [s for s in lp.body if isinstance(s, ast.Assign) and "heapq.heappop(dists)" in unparse(s.value)]
    names = [unparse(e) for e in pop[0].targets[0].elts] if pop and isinstance(pop[0].targets[0], ast.Tuple) else []
    if len(names) != 6:
        raise AnchorMissing("group_textboxes: heap element unpacking not found")
    id1, id2, o1, o2 = names[2], names[3], names[4], names[5]
    guard = [s for s in lp.body if isinstance(s, ast.If) and "notindone" in "".join(unparse(s.test).split())]
    gt = "".join(unparse(guard[0].test).split()).replace("(", "").replace(")", "") if guard else ""
    r.check(len(guard) == 1 and f"{id1}notindone" in gt and f"{id2}notindone" in gt and isinstance(guard[0].test, ast.BoolOp) and isinstance(guard[0].test.op, ast.And), site(f, guard[0]) if guard else site(f), f.qualname, "a pair is merged only if neither member was merged before", why=f"guard `{gt}`")
    if not guard:
        return
    body = guard[0].body
    fn = ast.FunctionDef(name="_merge", args=f.node.args, body=body, decorator_list=[], lineno=guard[0].lineno, col_offset=0)  # type: ignore[attr-defined]
    g = build_cfg(fn, exc_edges=False)
    creates = [n for n in g.nodes if n.kind == "stmt" and isinstance(n.ast, (ast.Assign, ast.AnnAssign)) and unparse(n.ast.targets[0] if isinstance(n.ast, ast.Assign) else n.ast.target) == "group"]
    ok_members = bool(creates) and all(isinstance(getattr(n.ast, "value", None), ast.Call) and "".join(unparse(n.ast.value.args[0]).split()) == f"[{o1},{o2}]" for n in creates)
    r.check(ok_members, site(f, creates[0].ast) if creates else site(f), f.qualname, f"the group consists of exactly the two popped elements [{o1}, {o2}]", why=f"{[unparse(n.ast)[:60] for n in creates]}")
    need = {f"plane.remove({o1})": "the first member leaves the plane", f"plane.remove({o2})": "the second member leaves the plane", "plane.add(group)": "the group enters the plane", f"done.update([{id1},{id2}])": "both members are marked as merged"}
    for txt, what in need.items():
        bad = None
        for c in creates:
            wit = g.all_path_pass(c.id, lambda n, txt=txt: n.ast is not None and n.kind == "stmt" and "".join(unparse(n.ast).split()) == txt)
            if wit is not None:
                bad = wit
        cnt = sum(1 for n in g.nodes if n.ast is not None and n.kind == "stmt" and "".join(unparse(n.ast).split()) == txt)
        r.check(bool(creates) and bad is None and cnt == 1, site(f, guard[0]), f.qualname, f"after a group is formed, {what} on every path, exactly once (`{txt}`)", why="a path from the creation of the group to the end of the iteration misses it" if bad is not None else f"{cnt} occurrence(s)")
    r.check("returnlist(cast(LTTextGroup,g)forginplane)" in src.replace("((", "(").replace("))", ")"), site(f), f.qualname, "the result is everything left in the plane", why="return changed")


def _round8(model: Model, rep: Report) -> None:
    r14 = rep.rule("C08-R14", "ORDER", "group_textlines: every neighbour of a line joins its members, and a box the neighbour was in is dissolved into them (no neighbour is skipped - the line itself is one of its neighbours, and that is how an earlier box containing it is absorbed)", 1)
    f = model.func("pdfminer.layout.LTLayoutContainer.group_textlines")
    inner = None
    for n in walk_no_nested(f.node):
        if isinstance(n, ast.For) and isinstance(n.iter, ast.Name) and any(isinstance(c, ast.Call) and isinstance(c.func, ast.Attribute) and c.func.attr == "append" and c.args and unparse(c.args[0]) == unparse(n.target) for st in n.body for c in ast.walk(st)):
            defs = [a for a in walk_no_nested(f.node) if isinstance(a, ast.Assign) and any(isinstance(t, ast.Name) and t.id == n.iter.id for t in a.targets) and "find_neighbors" in unparse(a.value)]
            if defs:
                inner = n
                break
    if inner is None:
        raise AnchorMissing("group_textlines: loop over the neighbours not found")
    from ..cfg import build_cfg as _b

    frag = ast.FunctionDef(name="_body", args=ast.arguments(posonlyargs=[], args=[], kwonlyargs=[], kw_defaults=[], defaults=[]), body=inner.body, decorator_list=[], lineno=inner.lineno, col_offset=0)
    g = _b(frag, exc_edges=False)
    tv = unparse(inner.target)
    wit = g.all_path_pass(g.entry, lambda nd: nd.ast is not None and nd.kind == "stmt" and any(isinstance(c, ast.Call) and isinstance(c.func, ast.Attribute) and c.func.attr == "append" and c.args and unparse(c.args[0]) == tv for c in ast.walk(nd.ast)))
    r14.check(wit is None, site(f, inner), f.qualname, f"every iteration of `for {tv} in {unparse(inner.iter)}` appends {tv} to the members", why="a neighbour can be skipped: a line that an earlier, taller line pulled into its box is then put into a second box while the first keeps it - its glyphs occur twice")
    from .c20 import _getrange_clamp

    _getrange_clamp(model, rep, "C08-R15")


def _children_first(model: Model, rep: Report) -> None:
    """C08-R18: a container without glyphs of its own still has children (figures) with glyphs of theirs: the recursion into the
    children comes before every way out of LTLayoutContainer.analyze.  Behind `if not textobjs: return` a page whose text lives
    in form XObjects only leaves its figures unanalysed (loose LTChar items, no lines, no boxes)."""
    r = rep.rule("C08-R18", "ORDER", "LTLayoutContainer.analyze recurses into the non-glyph children before any return: no way out of the function precedes the loop that analyses them", 1)
    f = model.func("pdfminer.layout.LTLayoutContainer.analyze")
    body = list(f.node.body)
    idx_loop = None
    for i, st in enumerate(body):
        if isinstance(st, ast.For) and any(isinstance(c, ast.Call) and isinstance(c.func, ast.Attribute) and c.func.attr == "analyze" for c in ast.walk(st)):
            idx_loop = i
            break
    if idx_loop is None:
        raise AnchorMissing("LTLayoutContainer.analyze: loop analysing the children not found")
    early = [st for st in body[:idx_loop] if any(isinstance(x, (ast.Return, ast.Raise)) for x in ast.walk(st))]
    loop = body[idx_loop]
    src = "".join(unparse(loop.iter).split())
    r.check(not early, site(f, early[0] if early else loop), f.qualname, f"`for ... in {src}: ....analyze(laparams)` precedes every return", why=f"`{unparse(early[0]).splitlines()[0] if early else ''}` leaves the function before the children are analysed: a figure inside a container that has no glyph of its own is never laid out")


_run_before_r18 = run


def run(model: Model, rep: Report) -> None:  # noqa: F811
    _run_before_r18(model, rep)
    _children_first(model, rep)

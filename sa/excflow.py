"""E6 - exception flow: which exception classes may escape each function, with origins.

Origins: explicit `raise`, `assert`, partial library operations (supplied by an `ops`
callback so each rule can choose its table), and calls (callee summaries, to a fixpoint
over the resolved call graph).  `try` handlers subtract by the real class hierarchy.
"""

from __future__ import annotations

import ast
from dataclasses import dataclass
from typing import Callable, Dict, Iterable, List, Optional, Set, Tuple

from .callgraph import Resolver
from .model import FuncInfo, Model, dotted, unparse, walk_no_nested


@dataclass(frozen=True)
class Event:
    exc: str  # class name: package qualname or builtin ("ValueError", "struct.error")
    func: str  # qualname of the function where it originates
    construct: str  # normalised source of the originating construct
    site: str  # file:line:function of the origin
    chain: Tuple[str, ...] = ()  # call sites it travelled through (innermost first)

    def key(self) -> Tuple[str, str, str]:
        return (self.exc, self.func, self.construct)


OpsFn = Callable[[FuncInfo, ast.AST], List[Tuple[str, str]]]  # (exc class, construct text)


class ExcFlow:
    def __init__(
        self,
        model: Model,
        resolver: Resolver,
        ops: OpsFn,
        scope: Optional[Set[str]] = None,
        call_filter: Optional[Callable[[FuncInfo, ast.Call, List[FuncInfo]], List[FuncInfo]]] = None,
        include_assert: bool = True,
        max_chain: int = 6,
        dead_test: Optional[Callable[[FuncInfo, ast.AST], Optional[bool]]] = None,
        implicit: Optional[Dict[str, Dict[int, List[FuncInfo]]]] = None,
    ) -> None:
        self.m = model
        self.r = resolver
        self.ops = ops
        self.scope = scope
        self.call_filter = call_filter
        self.include_assert = include_assert
        self.max_chain = max_chain
        self.dead_test = dead_test
        self.implicit = implicit or {}
        self.esc: Dict[str, Dict[Tuple[str, str, str], Event]] = {}
        self.handled: Dict[str, List[Tuple[Event, str]]] = {}  # func -> (event, handler text) caught locally

    # ------------------------------------------------------------------ api
    def solve(self, roots: Optional[Iterable[str]] = None) -> None:
        funcs = [f for q, f in self.m.funcs.items() if self.scope is None or q in self.scope]
        for f in funcs:
            self.esc[f.qualname] = {}
        for _ in range(60):
            changed = False
            for f in funcs:
                self.handled[f.qualname] = []
                new = self._function(f)
                cur = self.esc[f.qualname]
                for k, ev in new.items():
                    if k not in cur:
                        cur[k] = ev
                        changed = True
            if not changed:
                break

    def escapes(self, qn: str) -> List[Event]:
        return list(self.esc.get(qn, {}).values())

    # ------------------------------------------------------------- internals
    def _exc_class(self, f: FuncInfo, e: Optional[ast.AST]) -> str:
        if e is None:
            return "?"
        if isinstance(e, ast.Call):
            e = e.func
        r = self.m.resolve_expr(f.module, e, f.cls)
        if r is None:
            d = dotted(e) or "?"
            return d
        if r in self.m.classes:
            return r
        # module-level alias to a class not in the package (struct.error etc.)
        return r

    def _handler_classes(self, f: FuncInfo, h: ast.ExceptHandler) -> Optional[List[str]]:
        if h.type is None:
            return None
        elts = h.type.elts if isinstance(h.type, ast.Tuple) else [h.type]
        return [self._exc_class(f, e) for e in elts]

    def _catches(self, classes: Optional[List[str]], exc: str) -> bool:
        if classes is None:
            return True
        for c in classes:
            if c in ("Exception", "BaseException"):
                return True
            if exc == c:
                return True
            try:
                if self.m.is_subclass(exc, c):
                    return True
            except Exception:
                pass
        return False

    def _function(self, f: FuncInfo) -> Dict[Tuple[str, str, str], Event]:
        body = f.node.body if not isinstance(f.node, ast.Lambda) else [ast.Expr(value=f.node.body)]  # type: ignore[attr-defined]
        evs = self._block(f, body, None)
        out: Dict[Tuple[str, str, str], Event] = {}
        for ev in evs:
            out.setdefault(ev.key(), ev)
        return out

    def _block(self, f: FuncInfo, stmts: List[ast.stmt], reraise: Optional[List[Event]]) -> List[Event]:
        out: List[Event] = []
        for st in stmts:
            out.extend(self._stmt(f, st, reraise))
        return out

    def _expr_events(self, f: FuncInfo, e: Optional[ast.AST]) -> List[Event]:
        if e is None:
            return []
        out: List[Event] = []
        for n in [e] + list(walk_no_nested(e)):
            for (exc, construct) in self.ops(f, n):
                out.append(Event(exc, f.qualname, " ".join(construct.split()), f.site(n)))
            if isinstance(n, ast.Call):
                callees, status = self.r.resolve_call(f, n)
                if self.call_filter is not None:
                    callees = self.call_filter(f, n, callees)
                for g in callees:
                    if self.scope is not None and g.qualname not in self.scope:
                        continue
                    for ev in self.esc.get(g.qualname, {}).values():
                        ch = ev.chain
                        if len(ch) < self.max_chain:
                            ch = ch + (f.site(n),)
                        out.append(Event(ev.exc, ev.func, ev.construct, ev.site, ch))
            # implicit calls performed by this node: property getter behind an attribute load, getattr(self, "prefix%s") reflection
            for g in self.implicit.get(f.qualname, {}).get(id(n), []):
                if self.scope is not None and g.qualname not in self.scope:
                    continue
                for ev in self.esc.get(g.qualname, {}).values():
                    ch = ev.chain
                    if len(ch) < self.max_chain:
                        ch = ch + (f.site(n),)
                    out.append(Event(ev.exc, ev.func, ev.construct, ev.site, ch))
            if isinstance(n, ast.Lambda):
                # a lambda defined here runs when called by the consumer; treat as executed in place
                pass
        return out

    def _stmt(self, f: FuncInfo, st: ast.stmt, reraise: Optional[List[Event]]) -> List[Event]:
        if isinstance(st, ast.Try):
            body = self._block(f, st.body, reraise)
            out: List[Event] = []
            remaining = body
            for h in st.handlers:
                cls = self._handler_classes(f, h)
                caught = [ev for ev in remaining if self._catches(cls, ev.exc)]
                remaining = [ev for ev in remaining if not self._catches(cls, ev.exc)]
                htxt = "except " + (unparse(h.type) if h.type is not None else "")
                for ev in caught:
                    self.handled[f.qualname].append((ev, htxt))
                out.extend(self._block(f, h.body, caught))
            out.extend(remaining)
            out.extend(self._block(f, st.orelse, reraise))
            out.extend(self._block(f, st.finalbody, reraise))
            return out
        if isinstance(st, ast.Raise):
            if st.exc is None:
                return list(reraise or [])
            evs = self._expr_events(f, st.exc)
            exc = self._exc_class(f, st.exc)
            # `raise e` where e is the bound handler variable: re-raise
            if isinstance(st.exc, ast.Name) and reraise is not None and exc == st.exc.id and exc not in self.m.classes:
                return evs + list(reraise)
            evs.append(Event(exc, f.qualname, " ".join(unparse(st).split())[:200], f.site(st)))
            return evs
        if isinstance(st, ast.Assert):
            evs = self._expr_events(f, st.test)
            if self.include_assert:
                evs.append(Event("AssertionError", f.qualname, " ".join(("assert " + unparse(st.test)).split())[:200], f.site(st)))
            return evs
        if isinstance(st, ast.If):
            known = self.dead_test(f, st.test) if self.dead_test is not None else None
            if known is True:
                return self._block(f, st.body, reraise)
            if known is False:
                return self._block(f, st.orelse, reraise)
            return self._expr_events(f, st.test) + self._block(f, st.body, reraise) + self._block(f, st.orelse, reraise)
        if isinstance(st, ast.While):
            return self._expr_events(f, st.test) + self._block(f, st.body, reraise) + self._block(f, st.orelse, reraise)
        if isinstance(st, (ast.For, ast.AsyncFor)):
            head = [Event(exc, f.qualname, " ".join(c.split()), f.site(st)) for (exc, c) in self.ops(f, st)]
            return head + self._expr_events(f, st.iter) + self._block(f, st.body, reraise) + self._block(f, st.orelse, reraise)
        if isinstance(st, (ast.With, ast.AsyncWith)):
            evs = []
            for it in st.items:
                evs += self._expr_events(f, it.context_expr)
            return evs + self._block(f, st.body, reraise)
        if isinstance(st, (ast.FunctionDef, ast.AsyncFunctionDef, ast.ClassDef)):
            return []
        if isinstance(st, ast.Return):
            return self._expr_events(f, st.value)
        # simple statements
        evs = []
        for ch in ast.iter_child_nodes(st):
            evs += self._expr_events(f, ch)
        # statement-level partial ops (tuple unpacking in assignment targets)
        for (exc, construct) in self.ops(f, st):
            evs.append(Event(exc, f.qualname, " ".join(construct.split()), f.site(st)))
        return evs

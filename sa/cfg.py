"""E3 - statement-level control-flow graph with dominators / post-dominators.

Nodes are simple statements and branch tests.  Edges carry a label:
  'next' | 'true' | 'false' | 'loop' (back edge to loop head) | 'exc' (try body -> handler)
  | 'iter' (for: next item) | 'done' (for/while exhausted)
Special nodes: ENTRY, EXIT (normal return / fall off the end), RAISE (explicit raise leaving the function).
"""

from __future__ import annotations

import ast
from dataclasses import dataclass, field
from typing import Callable, Dict, Iterator, List, Optional, Sequence, Set, Tuple


@dataclass
class Node:
    id: int
    kind: str  # entry | exit | raise | stmt | test | for | with | handler | join
    ast: Optional[ast.AST] = None

    @property
    def lineno(self) -> int:
        return getattr(self.ast, "lineno", 0)


class CFG:
    def __init__(self) -> None:
        self.nodes: List[Node] = []
        self.succ: Dict[int, List[Tuple[int, str]]] = {}
        self.pred: Dict[int, List[Tuple[int, str]]] = {}
        self.entry = self._new("entry").id
        self.exit = self._new("exit").id
        self.raise_exit = self._new("raise").id
        self.by_ast: Dict[int, int] = {}  # id(ast node) -> node id

    def _new(self, kind: str, node: Optional[ast.AST] = None) -> Node:
        n = Node(len(self.nodes), kind, node)
        self.nodes.append(n)
        self.succ[n.id] = []
        self.pred[n.id] = []
        if node is not None:
            self.by_ast[id(node)] = n.id
        return n

    def edge(self, a: int, b: int, label: str = "next") -> None:
        if (b, label) not in self.succ[a]:
            self.succ[a].append((b, label))
            self.pred[b].append((a, label))

    def node_of(self, a: ast.AST) -> Optional[int]:
        return self.by_ast.get(id(a))

    # -------------------------------------------------------------- analyses
    def reachable(self, start: Optional[int] = None, skip_labels: Sequence[str] = ()) -> Set[int]:
        start = self.entry if start is None else start
        seen = {start}
        st = [start]
        while st:
            n = st.pop()
            for (m, lab) in self.succ[n]:
                if lab in skip_labels:
                    continue
                if m not in seen:
                    seen.add(m)
                    st.append(m)
        return seen

    def dominators(self, skip_labels: Sequence[str] = ()) -> Dict[int, Set[int]]:
        reach = self.reachable(skip_labels=skip_labels)
        alln = set(reach)
        dom: Dict[int, Set[int]] = {n: set(alln) for n in reach}
        dom[self.entry] = {self.entry}
        changed = True
        order = sorted(reach)
        while changed:
            changed = False
            for n in order:
                if n == self.entry:
                    continue
                preds = [p for (p, lab) in self.pred[n] if p in reach and lab not in skip_labels]
                if not preds:
                    continue
                new = set.intersection(*(dom[p] for p in preds)) | {n}
                if new != dom[n]:
                    dom[n] = new
                    changed = True
        return dom

    def postdominators(self, exits: Optional[Sequence[int]] = None, skip_labels: Sequence[str] = ()) -> Dict[int, Set[int]]:
        """Post-dominators w.r.t. the given exits (default: normal EXIT only)."""
        exits = [self.exit] if exits is None else list(exits)
        # nodes that can reach an exit
        can = set(exits)
        st = list(exits)
        while st:
            n = st.pop()
            for (p, lab) in self.pred[n]:
                if lab in skip_labels:
                    continue
                if p not in can:
                    can.add(p)
                    st.append(p)
        pdom: Dict[int, Set[int]] = {n: set(can) for n in can}
        for e in exits:
            pdom[e] = {e}
        changed = True
        while changed:
            changed = False
            for n in sorted(can, reverse=True):
                if n in exits:
                    continue
                succs = [s for (s, lab) in self.succ[n] if s in can and lab not in skip_labels]
                if not succs:
                    continue
                new = set.intersection(*(pdom[s] for s in succs)) | {n}
                if new != pdom[n]:
                    pdom[n] = new
                    changed = True
        return pdom

    def paths(self, start: Optional[int] = None, limit: int = 20000, skip_labels: Sequence[str] = ("loop",)) -> Iterator[List[Tuple[int, str]]]:
        """Enumerate acyclic paths from start to EXIT/RAISE as lists of (node, label-of-edge-taken-from-it)."""
        start = self.entry if start is None else start
        count = 0
        stack: List[Tuple[int, List[Tuple[int, str]], Set[int]]] = [(start, [], {start})]
        while stack:
            n, path, seen = stack.pop()
            if n in (self.exit, self.raise_exit):
                count += 1
                if count > limit:
                    raise RuntimeError("path limit exceeded")
                yield path + [(n, "end")]
                continue
            outs = [(m, lab) for (m, lab) in self.succ[n] if lab not in skip_labels]
            if not outs:
                continue
            for (m, lab) in reversed(outs):
                if m in seen:
                    continue
                stack.append((m, path + [(n, lab)], seen | {m}))

    def all_path_pass(self, src: int, dst_pred: Callable[[Node], bool], until: Optional[Sequence[int]] = None, skip_labels: Sequence[str] = ()) -> Optional[List[int]]:
        """Must-pass-through: does every path from src to `until` (default EXIT) pass a node
        satisfying dst_pred?  Returns None if yes, else a witness path (node ids) avoiding it."""
        until_set = {self.exit} if until is None else set(until)
        # search for a path from src to until avoiding dst_pred nodes
        prev: Dict[int, Optional[int]] = {src: None}
        st = [src]
        while st:
            n = st.pop()
            if n in until_set and n != src:
                # reconstruct
                out = []
                cur: Optional[int] = n
                while cur is not None:
                    out.append(cur)
                    cur = prev[cur]
                return list(reversed(out))
            for (m, lab) in self.succ[n]:
                if lab in skip_labels:
                    continue
                if m in prev:
                    continue
                if dst_pred(self.nodes[m]):
                    continue
                prev[m] = n
                st.append(m)
        return None


class _Builder:
    def __init__(self, exc_edges: bool = True) -> None:
        self.g = CFG()
        self.exc_edges = exc_edges
        self.loop_stack: List[Tuple[int, int]] = []  # (continue target, break target)
        self.try_stack: List[List[int]] = []  # handler entry nodes of enclosing trys
        self.finally_stack: List[int] = []

    def build(self, fn: ast.AST) -> CFG:
        body = fn.body if not isinstance(fn, ast.Lambda) else [ast.Return(value=fn.body)]  # type: ignore[attr-defined]
        if isinstance(fn, ast.Lambda):
            ast.copy_location(body[0], fn.body)
        outs = self.seq(body, [(self.g.entry, "next")])
        for (n, lab) in outs:
            self.g.edge(n, self.g.exit, lab)
        return self.g

    # `ins`: list of (node, label) dangling edges to connect to the next node
    def connect(self, ins: List[Tuple[int, str]], n: int) -> None:
        for (p, lab) in ins:
            self.g.edge(p, n, lab)

    def seq(self, stmts: Sequence[ast.stmt], ins: List[Tuple[int, str]]) -> List[Tuple[int, str]]:
        for st in stmts:
            ins = self.stmt(st, ins)
        return ins

    def _exc(self, n: int) -> None:
        if self.exc_edges and self.try_stack:
            for h in self.try_stack[-1]:
                self.g.edge(n, h, "exc")

    def stmt(self, st: ast.stmt, ins: List[Tuple[int, str]]) -> List[Tuple[int, str]]:
        g = self.g
        if isinstance(st, ast.If):
            t = g._new("test", st.test)
            g.by_ast[id(st)] = t.id
            self.connect(ins, t.id)
            self._exc(t.id)
            outs = self.seq(st.body, [(t.id, "true")])
            if st.orelse:
                outs += self.seq(st.orelse, [(t.id, "false")])
            else:
                outs.append((t.id, "false"))
            return outs
        if isinstance(st, ast.While):
            t = g._new("test", st.test)
            g.by_ast[id(st)] = t.id
            self.connect(ins, t.id)
            self._exc(t.id)
            brk = g._new("join", st)
            self.loop_stack.append((t.id, brk.id))
            outs = self.seq(st.body, [(t.id, "true")])
            self.loop_stack.pop()
            for (n, lab) in outs:
                g.edge(n, t.id, "loop")
            is_forever = isinstance(st.test, ast.Constant) and bool(st.test.value)
            res: List[Tuple[int, str]] = []
            if not is_forever:
                if st.orelse:
                    res += self.seq(st.orelse, [(t.id, "false")])
                else:
                    res.append((t.id, "false"))
            if g.pred[brk.id]:
                res.append((brk.id, "next"))
            return res
        if isinstance(st, (ast.For, ast.AsyncFor)):
            h = g._new("for", st)
            self.connect(ins, h.id)
            self._exc(h.id)
            brk = g._new("join", st)
            g.by_ast[id(st)] = h.id
            self.loop_stack.append((h.id, brk.id))
            outs = self.seq(st.body, [(h.id, "iter")])
            self.loop_stack.pop()
            for (n, lab) in outs:
                g.edge(n, h.id, "loop")
            res = []
            if st.orelse:
                res += self.seq(st.orelse, [(h.id, "done")])
            else:
                res.append((h.id, "done"))
            if g.pred[brk.id]:
                res.append((brk.id, "next"))
            return res
        if isinstance(st, ast.Try):
            # handlers
            hnodes = []
            for h in st.handlers:
                hn = g._new("handler", h)
                hnodes.append(hn)
            fin_entry: Optional[Node] = None
            self.try_stack.append([hn.id for hn in hnodes] if hnodes else (self.try_stack[-1] if self.try_stack else []))
            marker = g._new("join", st)  # try entry marker
            g.by_ast[id(st)] = marker.id
            self.connect(ins, marker.id)
            if st.finalbody:
                self.finally_stack.append(marker.id)
            body_outs = self.seq(st.body, [(marker.id, "next")])
            self.try_stack.pop()
            if st.orelse:
                body_outs = self.seq(st.orelse, body_outs)
            outs = list(body_outs)
            for h, hn in zip(st.handlers, hnodes):
                outs += self.seq(h.body, [(hn.id, "next")])
            if st.finalbody:
                self.finally_stack.pop()
                fouts = self.seq(st.finalbody, outs)
                # a `return` inside the try body is routed to EXIT directly by stmt(Return);
                # the finally body is additionally reachable from it (approximation):
                return fouts
            return outs
        if isinstance(st, (ast.With, ast.AsyncWith)):
            w = g._new("with", st)
            self.connect(ins, w.id)
            self._exc(w.id)
            return self.seq(st.body, [(w.id, "next")])
        if isinstance(st, ast.Return):
            n = g._new("stmt", st)
            self.connect(ins, n.id)
            self._exc(n.id)
            g.edge(n.id, g.exit, "return")
            return []
        if isinstance(st, ast.Raise):
            n = g._new("stmt", st)
            self.connect(ins, n.id)
            if self.try_stack and self.try_stack[-1]:
                for h in self.try_stack[-1]:
                    g.edge(n.id, h, "exc")
                # may also escape if no handler matches: keep an escape edge
                g.edge(n.id, g.raise_exit, "raise")
            else:
                g.edge(n.id, g.raise_exit, "raise")
            return []
        if isinstance(st, ast.Break):
            n = g._new("stmt", st)
            self.connect(ins, n.id)
            if self.loop_stack:
                g.edge(n.id, self.loop_stack[-1][1], "break")
            else:
                # body fragment analysed on its own: `break` leaves through the secondary exit
                g.edge(n.id, g.raise_exit, "break")
            return []
        if isinstance(st, ast.Continue):
            n = g._new("stmt", st)
            self.connect(ins, n.id)
            if self.loop_stack:
                g.edge(n.id, self.loop_stack[-1][0], "loop")
            else:
                # body fragment analysed on its own: `continue` is the normal exit (next iteration)
                g.edge(n.id, g.exit, "continue")
            return []
        # simple statement (incl. nested def/class as opaque statements)
        n = g._new("stmt", st)
        self.connect(ins, n.id)
        self._exc(n.id)
        if isinstance(st, ast.Assert):
            g.edge(n.id, g.raise_exit, "raise")
        return [(n.id, "next")]


def build_cfg(fn: ast.AST, exc_edges: bool = True) -> CFG:
    return _Builder(exc_edges=exc_edges).build(fn)


def stmt_nodes(g: CFG, pred: Callable[[ast.AST], bool]) -> List[int]:
    return [n.id for n in g.nodes if n.ast is not None and pred(n.ast)]


def contains_call(node: ast.AST, match: Callable[[ast.Call], bool]) -> bool:
    """Does the statement/test node contain a matching call (not descending into nested defs)?"""
    from .model import walk_no_nested

    target = node
    # for compound heads only inspect the head expression
    if isinstance(node, (ast.For, ast.AsyncFor)):
        target = node.iter
    elif isinstance(node, (ast.With, ast.AsyncWith)):
        for it in node.items:
            for c in [it.context_expr]:
                for x in [c] + list(walk_no_nested(c)):
                    if isinstance(x, ast.Call) and match(x):
                        return True
        return False
    elif isinstance(node, ast.ExceptHandler):
        return False
    elif isinstance(node, ast.Try):
        return False
    elif isinstance(node, (ast.While, ast.If)):
        target = node.test
    for x in [target] + list(walk_no_nested(target)):
        if isinstance(x, ast.Call) and match(x):
            return True
    return False

"""E7 - demand-driven backward provenance (taint) analysis.

Given an expression at a sink, walk backwards through local definitions, parameters
(to every resolved call site), fields (to every store of that attribute in the package,
field-based) and callee returns until leaves are reached.  Leaves are classified by the
client as DOC (document-controlled), CLEAN, or followed further.  Sanitizers cut the walk.
"""

from __future__ import annotations

import ast
import re
from dataclasses import dataclass
from typing import Callable, Dict, FrozenSet, Iterable, List, Optional, Set, Tuple

from .callgraph import CallGraph
from .model import FuncInfo, Model, dotted, unparse, walk_no_nested


@dataclass(frozen=True)
class Leaf:
    tag: str  # DOC | CLEAN | UNKNOWN
    desc: str
    site: str
    trail: Tuple[str, ...] = ()


NUMERIC_CALLS = {"int", "float", "len", "id", "hash", "ord", "round", "abs", "bool", "min", "max", "sum", "safe_int", "safe_float", "int_value", "num_value", "float_value", "uint_value", "nunpack", "align32", "divmod", "bbox2str", "matrix2str", "range", "enumerate"}


class Provenance:
    def __init__(
        self,
        model: Model,
        cg: CallGraph,
        is_source: Callable[[FuncInfo, ast.AST], Optional[str]],
        is_sanitizer: Callable[[FuncInfo, ast.Call], bool],
        param_source: Callable[[FuncInfo, str], Optional[str]],
        public: Callable[[FuncInfo, str], bool],
        field_filter: Optional[Callable[[str], bool]] = None,
        max_depth: int = 14,
    ) -> None:
        self.m = model
        self.cg = cg
        self.is_source = is_source
        self.is_sanitizer = is_sanitizer
        self.param_source = param_source
        self.public = public
        self.max_depth = max_depth
        self._callers: Dict[str, List[Tuple[FuncInfo, ast.Call]]] = {}
        for q, es in cg.edges.items():
            f = model.funcs[q]
            for (c, callees, status) in es:
                for g in callees:
                    self._callers.setdefault(g.qualname, []).append((f, c))
        # field stores: attr name -> [(func, value expr)]
        self._stores: Dict[str, List[Tuple[FuncInfo, ast.AST]]] = {}
        for f in model.funcs.values():
            for n in walk_no_nested(f.node):
                if isinstance(n, ast.Assign):
                    for t in n.targets:
                        self._note_store(f, t, n.value)
                elif isinstance(n, ast.AnnAssign) and n.value is not None:
                    self._note_store(f, n.target, n.value)
                elif isinstance(n, ast.AugAssign):
                    self._note_store(f, n.target, n.value)
        self._memo: Dict[Tuple[str, int], FrozenSet[Leaf]] = {}

    def _note_store(self, f: FuncInfo, t: ast.AST, v: ast.AST) -> None:
        if isinstance(t, ast.Attribute):
            self._stores.setdefault(t.attr, []).append((f, v))
        elif isinstance(t, (ast.Tuple, ast.List)) and isinstance(v, (ast.Tuple, ast.List)) and len(t.elts) == len(v.elts):
            for a, b in zip(t.elts, v.elts):
                self._note_store(f, a, b)
        elif isinstance(t, (ast.Tuple, ast.List)):
            for a in t.elts:
                self._note_store(f, a, v)

    # ------------------------------------------------------------------
    def trace(self, f: FuncInfo, e: ast.AST) -> Set[Leaf]:
        return set(self._trace(f, e, 0, frozenset(), ()))

    def _trace(self, f: FuncInfo, e: ast.AST, depth: int, seen: FrozenSet[Tuple[str, int]], trail: Tuple[str, ...]) -> Set[Leaf]:
        key = (f.qualname, id(e))
        if key in seen:
            return set()
        if depth > self.max_depth:
            return {Leaf("UNKNOWN", "depth limit", f.site(e), trail)}
        seen = seen | {key}
        T = lambda x, tr=trail: self._trace(f, x, depth + 1, seen, tr)  # noqa: E731
        src = self.is_source(f, e)
        if src is not None:
            return {Leaf("DOC", src, f.site(e), trail)}
        if isinstance(e, ast.Constant):
            return set()
        if isinstance(e, (ast.Compare, ast.BoolOp)) and not (isinstance(e, ast.BoolOp)):
            return set()
        if isinstance(e, ast.BoolOp):
            out: Set[Leaf] = set()
            for v in e.values:
                out |= T(v)
            return out
        if isinstance(e, ast.UnaryOp):
            return set() if isinstance(e.op, ast.Not) else T(e.operand)
        if isinstance(e, ast.IfExp):
            return T(e.body) | T(e.orelse)
        if isinstance(e, ast.JoinedStr):
            out = set()
            for v in e.values:
                if isinstance(v, ast.FormattedValue):
                    spec = unparse(v.format_spec) if v.format_spec is not None else ""
                    if re.search(r"[dfeEgGxXobn%]'?$", spec.strip("f'\"")) and spec:
                        continue
                    out |= T(v.value)
            return out
        if isinstance(e, ast.FormattedValue):
            return T(e.value)
        if isinstance(e, ast.BinOp):
            if isinstance(e.op, ast.Mod) and isinstance(e.left, ast.Constant) and isinstance(e.left.value, (str, bytes)):
                fmt = e.left.value if isinstance(e.left.value, str) else e.left.value.decode("latin1")
                specs = re.findall(r"%[-+ #0]*\d*(?:\.\d+)?([a-zA-Z%])", fmt)
                specs = [s for s in specs if s != "%"]
                args = list(e.right.elts) if isinstance(e.right, ast.Tuple) else [e.right]
                out = set()
                for i, a in enumerate(args):
                    sp = specs[i] if i < len(specs) else "s"
                    if sp in "dfeEgGxXoic":
                        continue
                    out |= T(a)
                return out
            if isinstance(e.op, (ast.Add, ast.Mod, ast.Mult)):
                return T(e.left) | T(e.right)
            return set()  # arithmetic on numbers
        if isinstance(e, (ast.Tuple, ast.List, ast.Set)):
            out = set()
            for x in e.elts:
                out |= T(x.value if isinstance(x, ast.Starred) else x)
            return out
        if isinstance(e, ast.Dict):
            out = set()
            for x in list(e.keys) + list(e.values):
                if x is not None:
                    out |= T(x)
            return out
        if isinstance(e, (ast.ListComp, ast.GeneratorExp, ast.SetComp)):
            out = T(e.elt)
            return out
        if isinstance(e, ast.Subscript):
            return T(e.value)
        if isinstance(e, ast.Starred):
            return T(e.value)
        if isinstance(e, ast.Call):
            return self._call(f, e, depth, seen, trail)
        if isinstance(e, ast.Attribute):
            return self._attribute(f, e, depth, seen, trail)
        if isinstance(e, ast.Name):
            return self._name(f, e, depth, seen, trail)
        if isinstance(e, ast.Lambda):
            return T(e.body)
        return set()

    def _call(self, f: FuncInfo, e: ast.Call, depth: int, seen: FrozenSet[Tuple[str, int]], trail: Tuple[str, ...]) -> Set[Leaf]:
        d = dotted(e.func) or ""
        short = d.split(".")[-1]
        if self.is_sanitizer(f, e):
            return set()
        if short in NUMERIC_CALLS or d in NUMERIC_CALLS:
            return set()
        callees, status = self.cg.r.resolve_call(f, e)
        out: Set[Leaf] = set()
        if callees and status in ("resolved",):
            for g in callees:
                if g.name == "__init__":
                    # constructor: the object carries its arguments
                    for a in e.args:
                        out |= self._trace(f, a, depth + 1, seen, trail)
                    for k in e.keywords:
                        out |= self._trace(f, k.value, depth + 1, seen, trail)
                    continue
                rets = [n for n in walk_no_nested(g.node) if isinstance(n, ast.Return) and n.value is not None]
                if isinstance(g.node, ast.Lambda):
                    rets = []
                    out |= self._trace(g, g.node.body, depth + 1, seen, trail + (f.site(e),))
                for r in rets:
                    out |= self._trace(g, r.value, depth + 1, seen, trail + (f.site(e),))
                ys = [n for n in walk_no_nested(g.node) if isinstance(n, ast.Yield) and n.value is not None]
                for y in ys:
                    out |= self._trace(g, y.value, depth + 1, seen, trail + (f.site(e),))
            return out
        # external / unresolved: result derives from receiver and arguments
        if isinstance(e.func, ast.Attribute):
            out |= self._trace(f, e.func.value, depth + 1, seen, trail)
        for a in e.args:
            out |= self._trace(f, a, depth + 1, seen, trail)
        for k in e.keywords:
            out |= self._trace(f, k.value, depth + 1, seen, trail)
        return out

    def _attribute(self, f: FuncInfo, e: ast.Attribute, depth: int, seen: FrozenSet[Tuple[str, int]], trail: Tuple[str, ...]) -> Set[Leaf]:
        # module constant / class attribute
        r = self.m.resolve_expr(f.module, e, f.cls)
        if r is not None and (r.rsplit(".", 1)[0] in self.m.modules):
            modn, attr = r.rsplit(".", 1)
            mi = self.m.modules[modn]
            if attr in mi.assigns:
                return set()  # module-level constants are not document data
        out: Set[Leaf] = set()
        stores = self._stores.get(e.attr, [])
        for (g, v) in stores:
            out |= self._trace(g, v, depth + 1, seen, trail + (f"field .{e.attr} <- {g.site(v)}",))
        if not stores:
            # attribute of a value (e.g. literal.name, m.group): derives from its base
            out |= self._trace(f, e.value, depth + 1, seen, trail)
        return out

    def _name(self, f: FuncInfo, e: ast.Name, depth: int, seen: FrozenSet[Tuple[str, int]], trail: Tuple[str, ...]) -> Set[Leaf]:
        name = e.id
        out: Set[Leaf] = set()
        # local definitions (flow-insensitive)
        defs: List[ast.AST] = []
        for n in walk_no_nested(f.node):
            if isinstance(n, ast.Assign):
                for t in n.targets:
                    defs.extend(self._defs_in_target(t, n.value, name))
            elif isinstance(n, ast.AnnAssign) and n.value is not None:
                defs.extend(self._defs_in_target(n.target, n.value, name))
            elif isinstance(n, ast.AugAssign) and isinstance(n.target, ast.Name) and n.target.id == name:
                defs.append(n.value)
            elif isinstance(n, (ast.For, ast.AsyncFor)):
                defs.extend(self._defs_in_target(n.target, n.iter, name))
            elif isinstance(n, (ast.With, ast.AsyncWith)):
                for it in n.items:
                    if it.optional_vars is not None:
                        defs.extend(self._defs_in_target(it.optional_vars, it.context_expr, name))
            elif isinstance(n, ast.comprehension):
                defs.extend(self._defs_in_target(n.target, n.iter, name))
            elif isinstance(n, ast.NamedExpr) and isinstance(n.target, ast.Name) and n.target.id == name:
                defs.append(n.value)
        for d in defs:
            out |= self._trace(f, d, depth + 1, seen, trail)
        # parameter?
        node = f.node
        allp = []
        if hasattr(node, "args"):
            a = node.args  # type: ignore[attr-defined]
            allp = [x.arg for x in a.posonlyargs + a.args + a.kwonlyargs] + ([a.vararg.arg] if a.vararg else []) + ([a.kwarg.arg] if a.kwarg else [])
        if name in allp:
            ps = self.param_source(f, name)
            if ps is not None:
                out.add(Leaf("DOC", ps, f.site(), trail))
                return out
            callers = self._callers.get(f.qualname, [])
            pos = f.params.index(name) if name in f.params else -1
            is_method = f.cls is not None and not f.is_static and f.parent is None
            for (cf, call) in callers:
                arg = self._arg_for(call, f, name, pos, is_method)
                if arg is not None:
                    out |= self._trace(cf, arg, depth + 1, seen, trail + (f"param {name} of {f.name} <- {cf.site(call)}",))
            if self.public(f, name) or not callers:
                out.add(Leaf("CLEAN", f"caller-supplied parameter {name} of {f.qualname}", f.site(), trail))
            return out
        if not defs:
            # closure variable of an enclosing function
            if f.parent is not None:
                return self._name(f.parent, e, depth + 1, seen, trail)
            # global constant / import
            return set()
        return out

    def _defs_in_target(self, t: ast.AST, v: ast.AST, name: str) -> List[ast.AST]:
        if isinstance(t, ast.Name):
            return [v] if t.id == name else []
        if isinstance(t, (ast.Tuple, ast.List)):
            if isinstance(v, (ast.Tuple, ast.List)) and len(v.elts) == len(t.elts):
                out: List[ast.AST] = []
                for a, b in zip(t.elts, v.elts):
                    out.extend(self._defs_in_target(a, b, name))
                return out
            out = []
            for a in t.elts:
                out.extend(self._defs_in_target(a, v, name))
            return out
        if isinstance(t, ast.Starred):
            return self._defs_in_target(t.value, v, name)
        return []

    def _arg_for(self, call: ast.Call, callee: FuncInfo, name: str, pos: int, is_method: bool) -> Optional[ast.AST]:
        for k in call.keywords:
            if k.arg == name:
                return k.value
        if pos < 0:
            return None
        idx = pos
        args = list(call.args)
        if is_method:
            # bound call: self is implicit unless called as Class.m(self, ...)
            explicit_self = bool(args) and isinstance(args[0], ast.Name) and args[0].id == "self" and isinstance(call.func, ast.Attribute) and not (isinstance(call.func.value, ast.Name) and call.func.value.id == "self") and self.m.resolve_expr(callee.module, call.func.value, None) in self.m.classes
            if callee.name == "__init__" and not explicit_self:
                idx = pos - 1
            elif not explicit_self:
                idx = pos - 1
        if any(isinstance(a, ast.Starred) for a in args):
            st = [a for a in args if isinstance(a, ast.Starred)]
            return st[0].value
        if 0 <= idx < len(args):
            return args[idx]
        return None

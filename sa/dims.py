"""E11 - dimension (homogeneity) analysis: every comparison, sum, min/max and sort key combines
quantities of the same degree in 'length' (0 = pure number, 1 = length, 2 = area), so that
multiplying all coordinates by one factor cannot change any decision.
"""

from __future__ import annotations

import ast
from dataclasses import dataclass
from typing import Callable, Dict, List, Optional, Tuple, Union

from .model import dotted, unparse

ANY = "any"  # zero / infinity sentinels: fit every degree
Deg = Union[int, str, None, Tuple]


class Inhomogeneous(Exception):
    def __init__(self, node: ast.AST, msg: str) -> None:
        super().__init__(msg)
        self.node = node


LENGTH_ATTRS = {"x0", "y0", "x1", "y1", "width", "height", "_x1", "_y0", "gridsize"}
NUMBER_ATTRS = {"line_overlap", "char_margin", "line_margin", "word_margin", "boxes_flow", "index"}
LENGTH_CALLS = {"hdistance", "vdistance", "hoverlap", "voverlap"}
AREA_CALLS = {"dist"}
SENTINELS = {"INF"}


@dataclass
class Check:
    node: ast.AST
    what: str
    ok: bool
    why: str = ""


class DimChecker:
    def __init__(self, param_deg: Optional[Dict[str, Deg]] = None) -> None:
        self.param_deg = dict(param_deg or {})
        self.checks: List[Check] = []

    def _same(self, node: ast.AST, what: str, degs: List[Deg]) -> Deg:
        ds = [d for d in degs if d not in (ANY, None)]
        unknown = any(d is None for d in degs)
        if not ds:
            return ANY if not unknown else None
        ok = all(d == ds[0] for d in ds)
        self.checks.append(Check(node, what, ok, "" if ok else f"operands of degree {degs} are combined: a bare number is mixed with a length/area, so the outcome changes when all coordinates are scaled"))
        return ds[0] if ok else None

    def expr(self, e: ast.AST, env: Dict[str, Deg]) -> Deg:
        if isinstance(e, ast.Constant):
            if isinstance(e.value, bool) or e.value is None or isinstance(e.value, str):
                return None
            if isinstance(e.value, (int, float)):
                return ANY if e.value == 0 else 0
            return None
        if isinstance(e, ast.Name):
            if e.id in env:
                return env[e.id]
            if e.id in self.param_deg:
                return self.param_deg[e.id]
            if e.id in SENTINELS:
                return ANY
            return None
        if isinstance(e, ast.Attribute):
            if e.attr in LENGTH_ATTRS:
                return 1
            if e.attr in NUMBER_ATTRS:
                return 0
            return None
        if isinstance(e, ast.UnaryOp):
            return self.expr(e.operand, env)
        if isinstance(e, ast.BinOp):
            a, b = self.expr(e.left, env), self.expr(e.right, env)
            if isinstance(e.op, (ast.Add, ast.Sub)):
                return self._same(e, f"`{unparse(e)[:70]}`", [a, b])
            if isinstance(e.op, ast.Mult):
                if a is None or b is None:
                    return None
                if a == ANY or b == ANY:
                    return ANY
                return int(a) + int(b)  # type: ignore[arg-type]
            if isinstance(e.op, (ast.Div, ast.FloorDiv)):
                if a is None or b is None:
                    return None
                if a == ANY:
                    return ANY
                if b == ANY:
                    return None
                return int(a) - int(b)  # type: ignore[arg-type]
            return None
        if isinstance(e, ast.Call):
            d = dotted(e.func) or ""
            short = d.split(".")[-1]
            if short in ("min", "max"):
                return self._same(e, f"`{unparse(e)[:70]}`", [self.expr(a, env) for a in e.args])
            if short in ("abs", "float", "int", "round"):
                return self.expr(e.args[0], env) if e.args else None
            if short in LENGTH_CALLS:
                return 1
            if short in AREA_CALLS:
                return 2
            if short in ("len", "id"):
                return 0
            return None
        if isinstance(e, ast.IfExp):
            return self._same(e, f"`{unparse(e)[:70]}`", [self.expr(e.body, env), self.expr(e.orelse, env)])
        if isinstance(e, ast.Tuple):
            return tuple(self.expr(x, env) for x in e.elts)
        if isinstance(e, ast.Compare):
            self.compare(e, env)
            return None
        if isinstance(e, ast.BoolOp):
            for v in e.values:
                self.expr(v, env)
            return None
        return None

    def compare(self, e: ast.Compare, env: Dict[str, Deg]) -> None:
        left = e.left
        for op, right in zip(e.ops, e.comparators):
            if isinstance(op, (ast.Lt, ast.LtE, ast.Gt, ast.GtE, ast.Eq, ast.NotEq)):
                a, b = self.expr(left, env), self.expr(right, env)
                if not (isinstance(a, tuple) or isinstance(b, tuple)):
                    if a is not None and b is not None:
                        self._same(e, f"`{unparse(e)[:80]}`", [a, b])
            left = right

    def function(self, fn: ast.AST, env: Optional[Dict[str, Deg]] = None) -> Dict[str, Deg]:
        """Walk a function body in source order, tracking local degrees; every comparison / sum / min / max is checked."""
        env = dict(env or {})
        body = fn.body if not isinstance(fn, ast.Lambda) else [ast.Return(value=fn.body)]  # type: ignore[attr-defined]
        self._block(body, env)
        return env

    def _block(self, stmts: List[ast.stmt], env: Dict[str, Deg]) -> None:
        for st in stmts:
            if isinstance(st, ast.Assign):
                d = self.expr(st.value, env)
                for t in st.targets:
                    self._bind(t, d, env)
            elif isinstance(st, ast.AnnAssign) and st.value is not None:
                self._bind(st.target, self.expr(st.value, env), env)
            elif isinstance(st, ast.AugAssign):
                a, b = self.expr(st.target, env), self.expr(st.value, env)
                if isinstance(st.op, (ast.Add, ast.Sub)):
                    self._same(st, f"`{unparse(st)[:70]}`", [a, b])
            elif isinstance(st, (ast.If, ast.While)):
                self.expr(st.test, env)
                self._block(st.body, env)
                self._block(st.orelse, env)
            elif isinstance(st, ast.For):
                self.expr(st.iter, env)
                self._block(st.body, env)
                self._block(st.orelse, env)
            elif isinstance(st, ast.Return):
                if st.value is not None:
                    env["<return>"] = self.expr(st.value, env)
            elif isinstance(st, ast.Expr):
                self.expr(st.value, env)
                # walk into call arguments to catch nested comparisons / keys
                for n in ast.walk(st.value):
                    if isinstance(n, ast.Compare):
                        self.compare(n, env)
            elif isinstance(st, (ast.With, ast.Try)):
                self._block(getattr(st, "body", []), env)
            elif isinstance(st, (ast.FunctionDef,)):
                continue
            # comparisons nested anywhere in assigned values
            if isinstance(st, (ast.Assign, ast.AnnAssign, ast.Return)) and getattr(st, "value", None) is not None:
                for n in ast.walk(st.value):  # type: ignore[arg-type]
                    if isinstance(n, ast.Compare):
                        self.compare(n, env)
                    elif isinstance(n, ast.Call) and (dotted(n.func) or "").split(".")[-1] in ("min", "max"):
                        self.expr(n, env)

    def _bind(self, t: ast.AST, d: Deg, env: Dict[str, Deg]) -> None:
        if isinstance(t, ast.Name):
            env[t.id] = d if not isinstance(d, tuple) else None
        elif isinstance(t, (ast.Tuple, ast.List)):
            if isinstance(d, tuple) and len(d) == len(t.elts):
                for a, b in zip(t.elts, d):
                    self._bind(a, b, env)
            else:
                for a in t.elts:
                    self._bind(a, None, env)

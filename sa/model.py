"""E1 - source model: every module of <repo>/pdfminer parsed, classes with MRO,
functions (incl. nested), module-level bindings and import resolution.

Nothing of the repository is imported or executed: only ``ast.parse``.
"""

from __future__ import annotations

import ast
import os
from dataclasses import dataclass, field
from typing import Dict, Iterator, List, Optional, Tuple


class AnchorMissing(Exception):
    """An anchor (module, class, function, table) a rule is about is gone."""


def repo_root() -> str:
    return os.environ.get("VERIF_REPO", "/repo")


@dataclass
class ModuleInfo:
    name: str
    path: str
    relpath: str
    src: str
    tree: ast.Module
    # name -> dotted target ("pdfminer.psparser.LIT", "struct", ...)
    imports: Dict[str, str] = field(default_factory=dict)
    # module-level simple assignments name -> value node (last one wins)
    assigns: Dict[str, ast.expr] = field(default_factory=dict)
    # all module-level assignment nodes in order (for effects inventory)
    assign_nodes: List[ast.stmt] = field(default_factory=list)


@dataclass
class FuncInfo:
    qualname: str
    name: str
    module: ModuleInfo
    node: ast.AST  # FunctionDef | AsyncFunctionDef | Lambda
    cls: Optional["ClassInfo"] = None
    parent: Optional["FuncInfo"] = None
    decorators: Tuple[str, ...] = ()

    @property
    def is_static(self) -> bool:
        return "staticmethod" in self.decorators

    @property
    def is_classmethod(self) -> bool:
        return "classmethod" in self.decorators

    @property
    def is_property(self) -> bool:
        return "property" in self.decorators

    def site(self, node: Optional[ast.AST] = None) -> str:
        ln = getattr(node, "lineno", None) or getattr(self.node, "lineno", 0)
        return f"{self.module.relpath}:{ln}:{self.qualname.split('.', 2)[-1]}"

    @property
    def params(self) -> List[str]:
        a = self.node.args  # type: ignore[attr-defined]
        return [x.arg for x in a.posonlyargs + a.args]


@dataclass
class ClassInfo:
    qualname: str
    name: str
    module: ModuleInfo
    node: ast.ClassDef
    base_exprs: List[ast.expr] = field(default_factory=list)
    bases: List[str] = field(default_factory=list)  # resolved qualnames (package or builtin names)
    methods: Dict[str, FuncInfo] = field(default_factory=dict)
    attrs: Dict[str, ast.expr] = field(default_factory=dict)  # class-level assignments
    outer: Optional["ClassInfo"] = None


BUILTIN_EXC_BASES = {
    # class -> bases (only what the analyses need)
    "BaseException": [],
    "Exception": ["BaseException"],
    "ArithmeticError": ["Exception"],
    "ZeroDivisionError": ["ArithmeticError"],
    "OverflowError": ["ArithmeticError"],
    "AssertionError": ["Exception"],
    "AttributeError": ["Exception"],
    "EOFError": ["Exception"],
    "ImportError": ["Exception"],
    "ModuleNotFoundError": ["ImportError"],
    "LookupError": ["Exception"],
    "IndexError": ["LookupError"],
    "KeyError": ["LookupError"],
    "MemoryError": ["Exception"],
    "NameError": ["Exception"],
    "OSError": ["Exception"],
    "IOError": ["Exception"],  # alias of OSError; treated as the same below
    "FileNotFoundError": ["OSError"],
    "RuntimeError": ["Exception"],
    "NotImplementedError": ["RuntimeError"],
    "RecursionError": ["RuntimeError"],
    "StopIteration": ["Exception"],
    "SyntaxError": ["Exception"],
    "TypeError": ["Exception"],
    "ValueError": ["Exception"],
    "UnicodeError": ["ValueError"],
    "UnicodeDecodeError": ["UnicodeError"],
    "UnicodeEncodeError": ["UnicodeError"],
    "Warning": ["Exception"],
    "UserWarning": ["Warning"],
    "SyntaxWarning": ["Warning"],
    "DeprecationWarning": ["Warning"],
    "struct.error": ["Exception"],
    "zlib.error": ["Exception"],
    "binascii.Error": ["ValueError"],
    "binascii.Incomplete": ["Exception"],
    "pickle.UnpicklingError": ["Exception"],
    "object": [],
}


class Model:
    def __init__(
        self,
        root: Optional[str] = None,
        packages: Tuple[str, ...] = ("pdfminer",),
        overrides: Optional[Dict[str, str]] = None,
        reuse: Optional["Model"] = None,
        canonical_locals: bool = True,
        heal: bool = True,
    ) -> None:
        """overrides: relpath -> source text replacing the file on disk (seeded variants are analysed
        as source text; nothing is written or executed).  reuse: a model of the same root whose parsed
        trees are shared for files without an override."""
        self.root = root or repo_root()
        self.src_overrides = dict(overrides or {})
        self._reuse = reuse
        self._heal = heal and canonical_locals
        # functions analysed in their reviewed form because the current form was proven equivalent (sa/equiv.py)
        self.heal_log: List[str] = list(reuse.heal_log) if reuse is not None else []
        self.modules: Dict[str, ModuleInfo] = {}
        self.classes: Dict[str, ClassInfo] = {}
        self.funcs: Dict[str, FuncInfo] = {}
        self._mro_cache: Dict[str, List[str]] = {}
        self._to_heal: List[str] = []
        for pkg in packages:
            self._load_package(pkg)
        self._heal_all()
        for m in list(self.modules.values()):
            self._index_module(m)
        self.renamed_functions: List[str] = []
        if canonical_locals:
            from .reflocals import canonicalise, unflip, uninvert

            for q, f in self.funcs.items():
                if f.parent is None and not isinstance(f.node, ast.Lambda):
                    uninvert(q, f.node)
                    if canonicalise(q, f.node):
                        self.renamed_functions.append(q)
                    unflip(q, f.node)
        for c in self.classes.values():
            c.bases = [self.resolve_expr(c.module, b, c) or _dotted(b) or "?" for b in c.base_exprs]

    # ------------------------------------------------------------------ loading
    def _load_package(self, pkg: str) -> None:
        pdir = os.path.join(self.root, pkg)
        if not os.path.isdir(pdir):
            raise AnchorMissing(f"package directory {pdir} not found")
        for dirpath, dirnames, filenames in os.walk(pdir):
            dirnames[:] = sorted(d for d in dirnames if d != "__pycache__")
            for fn in sorted(filenames):
                if not fn.endswith(".py"):
                    continue
                path = os.path.join(dirpath, fn)
                rel = os.path.relpath(path, self.root)
                modname = rel[:-3].replace(os.sep, ".")
                if modname.endswith(".__init__"):
                    modname = modname[: -len(".__init__")]
                if rel in self.src_overrides:
                    src = self.src_overrides[rel]
                    tree = ast.parse(src, filename=path)
                    self._to_heal.append(modname)
                elif self._reuse is not None and modname in self._reuse.modules and rel not in self._reuse.src_overrides:
                    old = self._reuse.modules[modname]
                    src, tree = old.src, old.tree
                else:
                    with open(path, "r", encoding="utf-8") as f:
                        src = f.read()
                    tree = ast.parse(src, filename=path)
                    self._to_heal.append(modname)
                self.modules[modname] = ModuleInfo(modname, path, rel, src, tree)

    def _heal_all(self) -> None:
        """Equivalence layer (sa/equiv.py): first undo pure renames of functions/methods across all changed modules, then
        compare every changed function with its reviewed form."""
        if not self._heal or not self._to_heal:
            return
        import copy as _copy

        from .equiv import _rename_everywhere, detect_renames, heal_module, reference_module

        changed = [self.modules[n] for n in self._to_heal if reference_module(self.modules[n].relpath) is not None and reference_module(self.modules[n].relpath)[0] != self.modules[n].src]
        # literal constants introduced at module level in a changed module, usable from the other changed modules
        from . import equiv as _equiv

        _equiv.EXTRA_CONSTS = {}
        ids = _equiv.reference_identifiers()
        for m in changed:
            cc = _equiv.const_table(m.tree)
            rc = _equiv.const_table(reference_module(m.relpath)[1])
            for k, v in cc.items():
                if "." not in k and k not in rc and k not in ids:
                    _equiv.EXTRA_CONSTS[k] = v
        _equiv.EXTRA_HELPERS = {}
        for m in changed:
            cft = _equiv.function_table(m.tree)
            rft = _equiv.function_table(reference_module(m.relpath)[1])
            for k, v in cft.items():
                if "." not in k and "#" not in k and k not in rft and k not in ids:
                    _equiv.EXTRA_HELPERS[k] = v[0]
        # a module-level literal table moved to another module (IDENTITY_ENCODER): the reviewed module keeps a definition
        for m in changed:
            cc = _equiv.const_table(m.tree)
            rc = _equiv.const_table(reference_module(m.relpath)[1])
            for k, v in rc.items():
                if "." in k or k in cc:
                    continue
                for other in changed:
                    if other is m:
                        continue
                    oc = _equiv.const_table(other.tree)
                    orc = _equiv.const_table(reference_module(other.relpath)[1])
                    if k in oc and k not in orc and _equiv.dump(oc[k]) == _equiv.dump(v):
                        m.tree = _copy.deepcopy(m.tree)
                        body = []
                        for st in m.tree.body:
                            if isinstance(st, ast.ImportFrom):
                                st.names = [a for a in st.names if (a.asname or a.name) != k]
                                if not st.names:
                                    continue
                            body.append(st)
                        m.tree.body = body + [ast.Assign(targets=[ast.Name(id=k, ctx=ast.Store())], value=_copy.deepcopy(v))]
                        ast.fix_missing_locations(m.tree)
                        self.heal_log.append(f"{m.relpath}:{k}: table moved to {other.relpath} unchanged; also analysed at its reviewed place")
                        break
        renames: Dict[str, str] = {}
        for m in changed:
            for new, old in detect_renames(m.relpath, m.src, m.tree).items():
                if new not in renames:
                    renames[new] = old
                    self.heal_log.append(f"{m.relpath}:{new}: a pure rename of `{old}` (bodies equal in normal form); analysed under the reviewed name")
        # a top-level function moved to another module of the package (same name, same normal form): the reviewed module
        # gets its definition back, so that rules anchored there still find it
        from .equiv import Ctx, function_table, normal_form

        cur_tabs = {m.relpath: function_table(m.tree) for m in changed}
        ref_tabs = {m.relpath: function_table(reference_module(m.relpath)[1]) for m in changed}
        for m in changed:
            gone = [k for k in ref_tabs[m.relpath] if "." not in k and "#" not in k and k not in cur_tabs[m.relpath]]
            for k in gone:
                rnode = ref_tabs[m.relpath][k][0]
                for other in changed:
                    if other is m or k not in cur_tabs[other.relpath] or k in ref_tabs[other.relpath]:
                        continue
                    try:
                        same = normal_form(cur_tabs[other.relpath][k][0], Ctx({}, {}, None, set())) == normal_form(rnode, Ctx({}, {}, None, set()))
                    except Exception:
                        same = False
                    if same:
                        m.tree = _copy.deepcopy(m.tree) if m.tree is (self._reuse.modules[m.name].tree if self._reuse is not None and m.name in self._reuse.modules else None) else m.tree
                        # drop an import of the same name (the moved function is imported back), then define it here
                        body = []
                        for st in m.tree.body:
                            if isinstance(st, ast.ImportFrom):
                                st.names = [a for a in st.names if (a.asname or a.name) != k]
                                if not st.names:
                                    continue
                            body.append(st)
                        m.tree.body = body + [_copy.deepcopy(rnode)]
                        ast.fix_missing_locations(m.tree)
                        self.heal_log.append(f"{m.relpath}:{k}: moved to {other.relpath} unchanged (normal forms equal); also analysed at its reviewed place")
                        break
        # a top-level class moved to another module of the package (same name, every method equal in normal form, the other
        # class-level statements equal): the reviewed module gets its definition back as well
        def _classes(tree: ast.Module) -> Dict[str, ast.ClassDef]:
            return {n.name: n for n in tree.body if isinstance(n, ast.ClassDef)}

        def _non_methods(c: ast.ClassDef) -> List[str]:
            out = []
            for st in c.body:
                if isinstance(st, (ast.FunctionDef, ast.AsyncFunctionDef)):
                    continue
                if isinstance(st, ast.Expr) and isinstance(st.value, ast.Constant) and isinstance(st.value.value, str):
                    continue
                out.append(ast.dump(st, annotate_fields=False, include_attributes=False))
            return out

        for m in changed:
            ref_tree = reference_module(m.relpath)[1]
            cur_cls, ref_cls = _classes(m.tree), _classes(ref_tree)
            for k in [c for c in ref_cls if c not in cur_cls]:
                for other in [self.modules[n_] for n_ in self._to_heal if n_ in self.modules]:
                    if other is m:
                        continue
                    ocls = _classes(other.tree)
                    oref = reference_module(other.relpath)  # None for the two data modules that have no reviewed copy
                    if k not in ocls or (oref is not None and k in _classes(oref[1])):
                        continue
                    rm = {key: v for key, v in function_table(ref_tree).items() if key.startswith(k + ".") and "#" not in key}
                    om = {key: v for key, v in function_table(other.tree).items() if key.startswith(k + ".") and "#" not in key}
                    same = set(rm) == set(om) and _non_methods(ref_cls[k]) == _non_methods(ocls[k]) and [ast.dump(b) for b in ref_cls[k].bases] == [ast.dump(b) for b in ocls[k].bases]
                    if same:
                        for key in rm:
                            try:
                                if normal_form(om[key][0], Ctx({}, {}, k, set())) != normal_form(rm[key][0], Ctx({}, {}, k, set())):
                                    same = False
                                    break
                            except Exception:
                                same = False
                                break
                    if same:
                        body = []
                        for st in m.tree.body:
                            if isinstance(st, ast.ImportFrom):
                                st.names = [a for a in st.names if (a.asname or a.name) != k]
                                if not st.names:
                                    continue
                            body.append(st)
                        m.tree.body = body + [_copy.deepcopy(ref_cls[k])]
                        ast.fix_missing_locations(m.tree)
                        self.heal_log.append(f"{m.relpath}:{k}: class moved to {other.relpath} unchanged (methods equal in normal form); also analysed at its reviewed place")
                        break
        for m in changed:
            tree = m.tree
            src = m.src
            if renames:
                tree = _copy.deepcopy(tree)
                _rename_everywhere(tree, renames)
                src = src + "\n# renamed"
            new, log = heal_module(m.relpath, src, tree)
            self.heal_log.extend(log)
            m.tree = new

    def _index_module(self, m: ModuleInfo) -> None:
        for st in self._toplevel_stmts(m.tree.body):
            if isinstance(st, ast.Import):
                for a in st.names:
                    m.imports[a.asname or a.name.split(".")[0]] = a.name if a.asname else a.name.split(".")[0]
            elif isinstance(st, ast.ImportFrom):
                base = st.module or ""
                if st.level:
                    parts = m.name.split(".")
                    base = ".".join(parts[: len(parts) - st.level] + ([st.module] if st.module else []))
                for a in st.names:
                    m.imports[a.asname or a.name] = f"{base}.{a.name}"
            elif isinstance(st, ast.Assign):
                m.assign_nodes.append(st)
                for t in st.targets:
                    if isinstance(t, ast.Name):
                        m.assigns[t.id] = st.value
            elif isinstance(st, ast.AnnAssign):
                m.assign_nodes.append(st)
                if isinstance(st.target, ast.Name) and st.value is not None:
                    m.assigns[st.target.id] = st.value
            elif isinstance(st, ast.AugAssign):
                m.assign_nodes.append(st)
            elif isinstance(st, (ast.FunctionDef, ast.AsyncFunctionDef)):
                self._index_func(m, st, f"{m.name}.{st.name}", None, None)
            elif isinstance(st, ast.ClassDef):
                self._index_class(m, st, f"{m.name}.{st.name}", None)

    def _toplevel_stmts(self, body: List[ast.stmt]) -> Iterator[ast.stmt]:
        for st in body:
            if isinstance(st, ast.If):
                # `if TYPE_CHECKING:` imports are needed for annotation resolution
                yield from self._toplevel_stmts(st.body)
                yield from self._toplevel_stmts(st.orelse)
            elif isinstance(st, ast.Try):
                yield from self._toplevel_stmts(st.body)
            else:
                yield st

    def _index_class(self, m: ModuleInfo, node: ast.ClassDef, qn: str, outer: Optional[ClassInfo]) -> None:
        ci = ClassInfo(qn, node.name, m, node, base_exprs=list(node.bases), outer=outer)
        self.classes[qn] = ci
        for st in node.body:
            if isinstance(st, (ast.FunctionDef, ast.AsyncFunctionDef)):
                fi = self._index_func(m, st, f"{qn}.{st.name}", ci, None)
                ci.methods[st.name] = fi
            elif isinstance(st, ast.ClassDef):
                self._index_class(m, st, f"{qn}.{st.name}", ci)
            elif isinstance(st, ast.Assign):
                for t in st.targets:
                    if isinstance(t, ast.Name):
                        ci.attrs[t.id] = st.value
                    elif isinstance(t, ast.Tuple):
                        for e in t.elts:
                            if isinstance(e, ast.Name):
                                ci.attrs[e.id] = st.value
            elif isinstance(st, ast.AnnAssign) and isinstance(st.target, ast.Name) and st.value is not None:
                ci.attrs[st.target.id] = st.value

    def _index_func(self, m: ModuleInfo, node: ast.AST, qn: str, cls: Optional[ClassInfo], parent: Optional[FuncInfo]) -> FuncInfo:
        decos = tuple(_dotted(d) or "" for d in getattr(node, "decorator_list", []))
        fi = FuncInfo(qn, getattr(node, "name", "<lambda>"), m, node, cls, parent, decos)
        # a property getter and its placeholder annotation share a name: keep the def
        self.funcs[qn] = fi
        for sub in _nested_defs(node):
            if isinstance(sub, (ast.FunctionDef, ast.AsyncFunctionDef)):
                self._index_func(m, sub, f"{qn}.{sub.name}", cls, fi)
            elif isinstance(sub, ast.ClassDef):
                self._index_class(m, sub, f"{qn}.{sub.name}", None)
        return fi

    def read_text(self, rel: str) -> str:
        """Text of a repository file (honours overrides)."""
        if rel in self.src_overrides:
            return self.src_overrides[rel]
        path = os.path.join(self.root, rel)
        if not os.path.exists(path):
            raise AnchorMissing(f"file {rel} not found")
        with open(path, "r", encoding="utf-8") as f:
            return f.read()

    # ---------------------------------------------------------------- lookups
    def module(self, name: str) -> ModuleInfo:
        if name not in self.modules:
            raise AnchorMissing(f"module {name} not found")
        return self.modules[name]

    def func(self, qn: str) -> FuncInfo:
        if qn in self.funcs:
            return self.funcs[qn]
        # method inherited?
        if "." in qn:
            cq, _, mn = qn.rpartition(".")
            if cq in self.classes:
                f = self.lookup_method(cq, mn)
                if f is not None:
                    return f
        raise AnchorMissing(f"function {qn} not found")

    def cls(self, qn: str) -> ClassInfo:
        if qn not in self.classes:
            raise AnchorMissing(f"class {qn} not found")
        return self.classes[qn]

    def has_func(self, qn: str) -> bool:
        return qn in self.funcs

    def mro(self, qn: str) -> List[str]:
        if qn in self._mro_cache:
            return self._mro_cache[qn]
        if qn not in self.classes:
            # builtin
            res = [qn]
            for b in BUILTIN_EXC_BASES.get(qn, []):
                for x in self.mro(b):
                    if x not in res:
                        res.append(x)
            self._mro_cache[qn] = res
            return res
        c = self.classes[qn]
        seqs = [self.mro(b) for b in c.bases if b != "?"] + [[b for b in c.bases if b != "?"]]
        res = [qn] + _c3_merge([list(s) for s in seqs])
        self._mro_cache[qn] = res
        return res

    def is_subclass(self, a: str, b: str) -> bool:
        a = _canon_exc(a)
        b = _canon_exc(b)
        return b in [_canon_exc(x) for x in self.mro(a)]

    def subclasses(self, qn: str, strict: bool = False) -> List[str]:
        out = []
        for c in self.classes:
            if c == qn and strict:
                continue
            if qn in self.mro(c):
                out.append(c)
        return out

    def lookup_method(self, cls_qn: str, name: str) -> Optional[FuncInfo]:
        for c in self.mro(cls_qn):
            ci = self.classes.get(c)
            if ci and name in ci.methods:
                return ci.methods[name]
        return None

    def lookup_class_attr(self, cls_qn: str, name: str) -> Optional[Tuple[ClassInfo, ast.expr]]:
        for c in self.mro(cls_qn):
            ci = self.classes.get(c)
            if ci and name in ci.attrs:
                return ci, ci.attrs[name]
        return None

    def overrides(self, cls_qn: str, name: str) -> List[FuncInfo]:
        """The method as seen from cls plus every override in subclasses."""
        out: List[FuncInfo] = []
        base = self.lookup_method(cls_qn, name)
        if base is not None:
            out.append(base)
        for sc in self.subclasses(cls_qn, strict=True):
            ci = self.classes[sc]
            if name in ci.methods and ci.methods[name] not in out:
                out.append(ci.methods[name])
        return out

    # ------------------------------------------------------- name resolution
    def resolve_name(self, m: ModuleInfo, name: str, _depth: int = 0) -> Optional[str]:
        """Resolve a module-level name to a dotted target."""
        if _depth > 8:
            return None
        q = f"{m.name}.{name}"
        if q in self.classes or q in self.funcs:
            return q
        if name in m.assigns:
            v = m.assigns[name]
            r = self.resolve_expr(m, v, None, _depth + 1)
            if r:
                return r
            return q
        if name in m.imports:
            return self._chase(m.imports[name], _depth + 1)
        return None

    def _chase(self, dotted: str, _depth: int = 0) -> str:
        """Follow re-exports/aliases inside the package."""
        if _depth > 8:
            return dotted
        if dotted in self.classes or dotted in self.funcs or dotted in self.modules:
            return dotted
        mod, _, attr = dotted.rpartition(".")
        if mod in self.modules:
            r = self.resolve_name(self.modules[mod], attr, _depth + 1)
            if r:
                return r
        return dotted

    def resolve_expr(self, m: ModuleInfo, e: ast.expr, cls: Optional[ClassInfo] = None, _depth: int = 0) -> Optional[str]:
        """Resolve Name / dotted Attribute / Subscript(Generic[...]) to a dotted target."""
        if isinstance(e, ast.Subscript):
            return self.resolve_expr(m, e.value, cls, _depth)
        if isinstance(e, ast.Constant) and isinstance(e.value, str):
            try:
                return self.resolve_expr(m, ast.parse(e.value, mode="eval").body, cls, _depth)
            except SyntaxError:
                return None
        if isinstance(e, ast.Name):
            if cls is not None:
                # class-local names (nested classes)
                q = f"{cls.qualname}.{e.id}"
                if q in self.classes:
                    return q
                # a sibling defined in the body of the enclosing class (ccitt: class EOFB(CCITTException) inside CCITTG4Parser)
                outer = cls.qualname.rsplit(".", 1)[0]
                if outer in self.classes and f"{outer}.{e.id}" in self.classes:
                    return f"{outer}.{e.id}"
            r = self.resolve_name(m, e.id, _depth)
            if r:
                return r
            if e.id in BUILTIN_EXC_BASES or e.id in _BUILTIN_NAMES:
                return e.id
            return None
        if isinstance(e, ast.Attribute):
            base = self.resolve_expr(m, e.value, cls, _depth)
            if base is None:
                return None
            cand = f"{base}.{e.attr}"
            if base in self.modules:
                return self._chase(cand, _depth + 1)
            if base in self.classes:
                # class attribute / nested class / method
                if cand in self.classes or cand in self.funcs:
                    return cand
                f = self.lookup_method(base, e.attr)
                if f is not None:
                    return f.qualname
                ca = self.lookup_class_attr(base, e.attr)
                if ca is not None:
                    return f"{ca[0].qualname}.{e.attr}"
                return cand
            return cand
        return None

    # --------------------------------------------------------------- helpers
    def iter_funcs(self, prefix: str = "") -> Iterator[FuncInfo]:
        for q, f in self.funcs.items():
            if q.startswith(prefix):
                yield f

    def relsite(self, m: ModuleInfo, node: ast.AST) -> str:
        return f"{m.relpath}:{getattr(node, 'lineno', 0)}"


_BUILTIN_NAMES = {
    "int", "float", "str", "bytes", "bytearray", "list", "dict", "set", "tuple", "bool", "len", "range",
    "enumerate", "zip", "map", "filter", "sorted", "reversed", "min", "max", "abs", "sum", "any", "all",
    "isinstance", "issubclass", "hasattr", "getattr", "setattr", "iter", "next", "open", "print", "repr",
    "chr", "ord", "divmod", "round", "type", "id", "hash", "super", "object", "frozenset", "format",
}


def _canon_exc(n: str) -> str:
    return "OSError" if n == "IOError" else n


def _dotted(e: ast.AST) -> Optional[str]:
    if isinstance(e, ast.Name):
        return e.id
    if isinstance(e, ast.Attribute):
        b = _dotted(e.value)
        return f"{b}.{e.attr}" if b else None
    if isinstance(e, ast.Call):
        return _dotted(e.func)
    if isinstance(e, ast.Subscript):
        return _dotted(e.value)
    return None


dotted = _dotted


def _nested_defs(fn: ast.AST) -> Iterator[ast.AST]:
    """Function/class definitions directly nested in fn (not inside deeper defs)."""
    stack = list(ast.iter_child_nodes(fn))
    while stack:
        n = stack.pop()
        if isinstance(n, (ast.FunctionDef, ast.AsyncFunctionDef, ast.ClassDef)):
            yield n
            continue
        stack.extend(ast.iter_child_nodes(n))


def _c3_merge(seqs: List[List[str]]) -> List[str]:
    res: List[str] = []
    seqs = [s for s in seqs if s]
    while seqs:
        for s in seqs:
            h = s[0]
            if not any(h in t[1:] for t in seqs):
                break
        else:
            # inconsistent hierarchy: fall back to first head
            h = seqs[0][0]
        res.append(h)
        seqs = [[x for x in s if x != h] for s in seqs]
        seqs = [s for s in seqs if s]
    return res


def walk_no_nested(node: ast.AST, include_lambda: bool = True) -> Iterator[ast.AST]:
    """ast.walk that does not descend into nested function/class definitions
    (the root itself is descended into)."""
    stack = list(reversed(list(ast.iter_child_nodes(node))))
    while stack:
        n = stack.pop()
        yield n  # pre-order, children in source order
        if isinstance(n, (ast.FunctionDef, ast.AsyncFunctionDef, ast.ClassDef)):
            continue
        if isinstance(n, ast.Lambda) and not include_lambda:
            continue
        stack.extend(reversed(list(ast.iter_child_nodes(n))))


def unparse(n: ast.AST) -> str:
    try:
        return ast.unparse(n)
    except Exception:  # pragma: no cover
        return f"<{type(n).__name__}>"

"""Seeded-variant self-test of the rules (thorough tier).

Every variant is an edit of the *source text* of one repository file (old -> new, must match
exactly once), analysed in memory through Model(overrides=...): nothing is written into /repo,
nothing is executed.  Breaking variants must make the named rule report a violation; benign
twins must leave every rule of the property silent.
"""

from __future__ import annotations

import ast
import importlib
import os
import time
from typing import Any, Dict, List, Optional, Tuple

from ..model import AnchorMissing, Model
from ..report import AnalysisError, Report

_BASE: Optional[Model] = None
_SEEDED: Dict[str, Dict[str, str]] = {}


def _one(args: Tuple[str, str, str, str, str, Optional[str]]) -> Dict[str, Any]:
    prop, vid, rel, old, new, expect = args
    base = _BASE
    assert base is not None
    if rel == "<seeded-change>":
        # old = name of the stored change; new unused; the override set was prepared by run_for
        ov = _SEEDED.get(vid)
        t0 = time.time()
        if not ov:
            return {"id": vid, "status": "stale", "why": "stored patch no longer applies"}
        try:
            import ast as _ast

            for v in ov.values():
                _ast.parse(v)
            m = Model(root=base.root, overrides=ov, reuse=base)
            rep = Report(prop, "thorough", quiet=True)
            rep.tree_changed = True
            importlib.import_module(f"sa.rules.{prop.lower()}").run(m, rep)
            rep.finish()
            fired = sorted({i.rule for i in rep.violations})
            err = None
        except (AnchorMissing, AnalysisError) as e:
            fired, err = [], f"analysis-error: {e}"
        except Exception as e:
            fired, err = [], f"crash: {type(e).__name__}: {e}"
        dt = round(time.time() - t0, 2)
        if err is not None and err.startswith("analysis-error"):
            return {"id": vid, "kind": "break", "status": "analysis-error", "expect": prop + "-R*", "err": err, "s": dt}
        return {"id": vid, "kind": "break", "status": "caught" if fired else "MISSED", "expect": prop + "-R*", "fired": fired, "detail": [], "err": err, "s": dt}
    if rel == "<benign-change>":
        ov = _SEEDED.get(vid)
        t0 = time.time()
        if not ov:
            return {"id": vid, "status": "stale", "why": "stored patch no longer applies"}
        try:
            m = Model(root=base.root, overrides=ov, reuse=base)
            rep = Report(prop, "thorough", quiet=True)
            rep.tree_changed = True
            importlib.import_module(f"sa.rules.{prop.lower()}").run(m, rep)
            rep.finish()
            fired = sorted({i.rule for i in rep.violations})
            detail = [f"{i.rule} {i.site} {i.construct[:80]}" for i in rep.violations][:4]
            err = None
        except (AnchorMissing, AnalysisError) as e:
            fired, detail, err = [], [], f"analysis-error: {e}"
        except Exception as e:
            fired, detail, err = [], [], f"crash: {type(e).__name__}: {e}"
        ok = not fired and err is None
        return {"id": vid, "kind": "twin", "status": "silent" if ok else "FALSE-ALARM", "fired": fired, "detail": detail, "err": err, "s": round(time.time() - t0, 2)}
    if rel == "<whole-repo-twin>":
        from .twins import run_twin

        t0 = time.time()
        r = run_twin(prop, base, old)
        r["s"] = round(time.time() - t0, 2)
        return r
    t0 = time.time()
    try:
        src = base.read_text(rel)
    except AnchorMissing:
        return {"id": vid, "status": "stale", "why": f"{rel} missing"}
    n = src.count(old)
    if n != 1:
        return {"id": vid, "status": "stale", "why": f"pattern occurs {n} times in {rel}"}
    new_src = src.replace(old, new)
    try:
        ast.parse(new_src)
    except SyntaxError as e:
        return {"id": vid, "status": "stale", "why": f"variant does not parse: {e}"}
    try:
        m = Model(root=base.root, overrides={rel: new_src}, reuse=base)
        rep = Report(prop, "thorough", quiet=True)
        rep.tree_changed = True
        importlib.import_module(f"sa.rules.{prop.lower()}").run(m, rep)
        rep.finish()
        fired = sorted({i.rule for i in rep.violations})
        detail = [f"{i.rule} {i.site} {i.construct[:80]}" for i in rep.violations][:4]
        status_err = None
    except (AnchorMissing, AnalysisError) as e:
        fired, detail, status_err = [], [], f"analysis-error: {e}"
    except Exception as e:  # a crash of the analysis on a variant is a failure of the checker
        fired, detail, status_err = [], [], f"crash: {type(e).__name__}: {e}"
    dt = round(time.time() - t0, 2)
    if expect is None:
        ok = not fired and status_err is None
        return {"id": vid, "kind": "twin", "status": "silent" if ok else "FALSE-ALARM", "fired": fired, "detail": detail, "err": status_err, "s": dt}
    if status_err is not None and status_err.startswith("analysis-error"):
        # a vanished anchor is reported as analysis-broken (exit 2): counts as noticed, not as a silent pass
        return {"id": vid, "kind": "break", "status": "analysis-error", "expect": expect, "err": status_err, "s": dt}
    ok = expect in fired or (expect.endswith("*") and any(f.startswith(expect[:-1]) for f in fired))
    return {"id": vid, "kind": "break", "status": "caught" if ok else "MISSED", "expect": expect, "fired": fired, "detail": detail, "err": status_err, "s": dt}


def run_for(prop: str, base: Model) -> Dict[str, Any]:
    global _BASE
    from .variants import VARIANTS

    vs = [v for v in VARIANTS if v[0] == prop]
    vs += [(prop, "twin-" + k, "<whole-repo-twin>", k, "", None) for k in ("reformat", "rename-locals", "flip-comparisons", "insert-logging", "invert-if-else")]
    # stored blind seeded changes of this property (applied in memory)
    from .seeded import seeded_overrides

    _SEEDED.clear()
    for name, ov, why in seeded_overrides(prop, base.read_text):
        vid = "seeded:" + name
        _SEEDED[vid] = ov or {}
        vs.append((prop, vid, "<seeded-change>", name, "", prop + "-R*"))
    # stored behaviour-preserving refactorings (benign/): every rule of the property must stay silent on them
    from .seeded import benign_overrides

    for name, ov in benign_overrides(prop, base.read_text):
        vid = "benign:" + name
        _SEEDED[vid] = ov or {}
        vs.append((prop, vid, "<benign-change>", name, "", None))
    _BASE = base
    t0 = time.time()
    from .equiv_cases import run as equiv_selftest

    eq = equiv_selftest()
    results: List[Dict[str, Any]] = []
    if vs:
        try:
            import multiprocessing as mp

            ctx = mp.get_context("fork")
            with ctx.Pool(min(16, len(vs), os.cpu_count() or 1)) as pool:
                results = pool.map(_one, vs, chunksize=1)
        except Exception:
            results = [_one(v) for v in vs]
    summary = {
        "variants": len(vs),
        "caught": sum(1 for r in results if r["status"] == "caught"),
        "analysis_error": sum(1 for r in results if r["status"] == "analysis-error"),
        "missed": [r["id"] for r in results if r["status"] == "MISSED"],
        "twins_silent": sum(1 for r in results if r["status"] == "silent"),
        "false_alarms": [r["id"] for r in results if r["status"] == "FALSE-ALARM"],
        "stale": [r["id"] for r in results if r["status"] == "stale"],
        "equivalence_layer_selftest": eq,
        "wall_s": round(time.time() - t0, 2),
        "results": results,
    }
    print(f"   selftest {prop}: {summary['variants']} variants, caught={summary['caught']} (+{summary['analysis_error']} analysis-error), missed={summary['missed']}, twins silent={summary['twins_silent']}, false alarms={summary['false_alarms']}, stale={summary['stale']}, {summary['wall_s']}s")
    if eq["failed"]:
        summary["false_alarms"] = summary["false_alarms"] + ["equiv:" + x for x in eq["failed"]]
        print(f"   SELFTEST-EQUIV {eq['failed']}")
    for r in results:
        if r["status"] in ("MISSED", "FALSE-ALARM"):
            print(f"   SELFTEST-{r['status']} {r['id']}: expected {r.get('expect')} fired {r.get('fired')} {r.get('err') or ''} {r.get('detail')}")
    return summary

"""Stored blind seeded changes (/verif/seeded/<name>/patch.diff) as in-memory variants of the thorough tier.

A minimal unified-diff applier: hunks are located by their context (the line numbers of a stored patch drift when /repo
receives a fix), applied to the text of the file as it is in the analysed tree, and handed to Model(overrides=...).
Nothing is written into /repo and nothing is executed.
"""

from __future__ import annotations

import os
import re
from typing import Dict, List, Optional, Tuple

VERIF = os.path.dirname(os.path.dirname(os.path.dirname(os.path.abspath(__file__))))


def parse_patch(text: str) -> Dict[str, List[Tuple[List[str], List[str]]]]:
    """file -> list of hunks (old lines, new lines), context included in both."""
    files: Dict[str, List[Tuple[List[str], List[str]]]] = {}
    cur: Optional[str] = None
    old: List[str] = []
    new: List[str] = []
    in_hunk = False

    def flush() -> None:
        nonlocal old, new
        if cur is not None and in_hunk and (old or new):
            files.setdefault(cur, []).append((old, new))
        old, new = [], []

    for line in text.splitlines():
        if line.startswith("diff --git"):
            flush()
            in_hunk = False
            cur = None
        elif line.startswith("+++ "):
            p = line[4:].strip()
            cur = p[2:] if p.startswith("b/") else p
        elif line.startswith("--- "):
            continue
        elif line.startswith("@@"):
            flush()
            in_hunk = True
        elif in_hunk:
            if line.startswith("+"):
                new.append(line[1:])
            elif line.startswith("-"):
                old.append(line[1:])
            elif line.startswith(" ") or line == "":
                old.append(line[1:])
                new.append(line[1:])
            elif line.startswith("\\"):
                continue
    flush()
    return files


def apply_hunks(src: str, hunks: List[Tuple[List[str], List[str]]]) -> Optional[str]:
    lines = src.split("\n")
    pos = 0
    for old, new in hunks:
        found = None
        for i in range(pos, len(lines) - len(old) + 1):
            if lines[i : i + len(old)] == old:
                found = i
                break
        if found is None:
            # tolerate trailing-whitespace differences
            so = [x.rstrip() for x in old]
            for i in range(0, len(lines) - len(old) + 1):
                if [x.rstrip() for x in lines[i : i + len(old)]] == so:
                    found = i
                    break
        if found is None:
            return None
        lines[found : found + len(old)] = new
        pos = found + len(new)
    return "\n".join(lines)


def seeded_overrides(prop: str, read_text) -> List[Tuple[str, Optional[Dict[str, str]], str]]:
    """[(name, {relpath: patched source} or None if the patch no longer applies, reason)] for the property's stored changes."""
    out: List[Tuple[str, Optional[Dict[str, str]], str]] = []
    d = os.path.join(VERIF, "seeded")
    if not os.path.isdir(d):
        return out
    for name in sorted(os.listdir(d)):
        if not name.startswith(prop + "-"):
            continue
        pf = os.path.join(d, name, "patch.diff")
        if not os.path.isfile(pf):
            continue
        files = parse_patch(open(pf, encoding="utf-8", errors="replace").read())
        ov: Dict[str, str] = {}
        why = ""
        for rel, hunks in files.items():
            try:
                src = read_text(rel)
            except Exception as e:  # file vanished
                ov, why = {}, f"{rel}: {e}"
                break
            res = apply_hunks(src, hunks)
            if res is None:
                ov, why = {}, f"hunk does not apply to {rel}"
                break
            ov[rel] = res
        out.append((name, ov or None, why))
    return out


def benign_overrides(prop: str, read_text) -> List[Tuple[str, Optional[Dict[str, str]]]]:
    """Stored behaviour-preserving refactorings (benign/<name>/patch.diff + meta.json) to be replayed under `prop`:
    those recorded as silent whose meta lists the property under "replay_under"."""
    import json

    out: List[Tuple[str, Optional[Dict[str, str]]]] = []
    d = os.path.join(VERIF, "benign")
    if not os.path.isdir(d):
        return out
    for name in sorted(os.listdir(d)):
        mf = os.path.join(d, name, "meta.json")
        pf = os.path.join(d, name, "patch.diff")
        if not (os.path.isfile(mf) and os.path.isfile(pf)):
            continue
        meta = json.load(open(mf))
        if meta.get("status") != "silent" or prop not in meta.get("replay_under", []):
            continue
        files = parse_patch(open(pf, encoding="utf-8", errors="replace").read())
        ov: Dict[str, str] = {}
        for rel, hunks in files.items():
            try:
                res = apply_hunks(read_text(rel), hunks)
            except Exception:
                res = None
            if res is None:
                ov = {}
                break
            ov[rel] = res
        out.append((name, ov or None))
    return out

"""Whole-repository benign twins: behaviour-preserving rewrites of every module, on which all rules must stay silent.

  reformat       - every module re-emitted by ast.unparse (comments gone, layout and line numbers changed)
  insert-logging - a debug log call as first statement of every function
  flip-comparisons - every single comparison of pure operands mirrored (a < b -> b > a)
  rename-locals  - additionally every function-local variable renamed (x -> x_r); parameters, attributes, globals untouched
"""

from __future__ import annotations

import ast
import importlib
from typing import Dict, List, Optional, Set

from ..model import Model
from ..report import Report


class _Renamer(ast.NodeTransformer):
    def __init__(self) -> None:
        self.stack: List[Set[str]] = []

    def _locals(self, fn: ast.AST) -> Set[str]:
        params = set()
        a = fn.args  # type: ignore[attr-defined]
        for x in a.posonlyargs + a.args + a.kwonlyargs:
            params.add(x.arg)
        if a.vararg:
            params.add(a.vararg.arg)
        if a.kwarg:
            params.add(a.kwarg.arg)
        stores: Set[str] = set()
        banned: Set[str] = set()
        for n in ast.walk(fn):
            if isinstance(n, (ast.Global, ast.Nonlocal)):
                banned |= set(n.names)
            if isinstance(n, ast.Name) and isinstance(n.ctx, ast.Store):
                stores.add(n.id)
            if isinstance(n, (ast.FunctionDef, ast.AsyncFunctionDef, ast.Lambda)) and n is not fn:
                # names that are parameters of a nested function stay as they are everywhere (keeps it simple and safe)
                aa = n.args
                for x in aa.posonlyargs + aa.args + aa.kwonlyargs:
                    banned.add(x.arg)
                if isinstance(n, (ast.FunctionDef, ast.AsyncFunctionDef)):
                    banned.add(n.name)
            if isinstance(n, ast.ClassDef):
                banned.add(n.name)
        return {s for s in stores if s not in params and s not in banned and not (s.startswith("__") and s.endswith("__"))}

    def visit_FunctionDef(self, node: ast.FunctionDef) -> ast.AST:
        if self.stack:
            # nested function: handled by the enclosing function's renaming
            self.generic_visit(node)
            return node
        loc = self._locals(node)
        self.stack.append(loc)
        self.generic_visit(node)
        self.stack.pop()
        return node

    visit_AsyncFunctionDef = visit_FunctionDef  # type: ignore[assignment]

    def visit_Name(self, node: ast.Name) -> ast.AST:
        if self.stack and node.id in self.stack[-1]:
            node.id = node.id + "_r"
        return node


class _FlipCompare(ast.NodeTransformer):
    """a < b -> b > a, a == b -> b == a (single-operator comparisons of side-effect-free operands)."""

    FLIP = {ast.Lt: ast.Gt, ast.Gt: ast.Lt, ast.LtE: ast.GtE, ast.GtE: ast.LtE, ast.Eq: ast.Eq, ast.NotEq: ast.NotEq}

    def visit_Compare(self, node: ast.Compare) -> ast.AST:
        self.generic_visit(node)
        if len(node.ops) == 1 and type(node.ops[0]) in self.FLIP:
            pure = all(isinstance(x, (ast.Name, ast.Attribute, ast.Constant, ast.BinOp, ast.Subscript, ast.UnaryOp)) for x in (node.left, node.comparators[0]))
            if pure:
                return ast.copy_location(ast.Compare(left=node.comparators[0], ops=[self.FLIP[type(node.ops[0])]()], comparators=[node.left]), node)
        return node


class _InsertLogging(ast.NodeTransformer):
    """A debug log call as the first statement of every function (the most common benign edit)."""

    def visit_FunctionDef(self, node: ast.FunctionDef) -> ast.AST:
        self.generic_visit(node)
        stmt = ast.parse("logging.getLogger(__name__).debug('enter %s', __name__)").body[0]
        i = 1 if node.body and isinstance(node.body[0], ast.Expr) and isinstance(node.body[0].value, ast.Constant) and isinstance(node.body[0].value.value, str) else 0
        node.body.insert(i, stmt)
        return node

    visit_AsyncFunctionDef = visit_FunctionDef  # type: ignore[assignment]


class _InvertIfElse(ast.NodeTransformer):
    """if c: A else: B  ->  if not c: B else: A   (every if with an else arm, elif chains included)."""

    def visit_If(self, node: ast.If) -> ast.AST:
        self.generic_visit(node)
        if node.orelse:
            t = node.test.operand if isinstance(node.test, ast.UnaryOp) and isinstance(node.test.op, ast.Not) else ast.UnaryOp(op=ast.Not(), operand=node.test)
            return ast.copy_location(ast.If(test=t, body=node.orelse, orelse=node.body), node)
        return node


def twin_sources(base: Model, kind: str) -> Dict[str, str]:
    out: Dict[str, str] = {}
    for m in base.modules.values():
        tree = ast.parse(m.src)
        if kind == "rename-locals":
            tree = _Renamer().visit(tree)
            ast.fix_missing_locations(tree)
        elif kind == "insert-logging":
            tree = _InsertLogging().visit(tree)
            j = 0
            while j < len(tree.body) and (isinstance(tree.body[j], ast.ImportFrom) and tree.body[j].module == "__future__" or isinstance(tree.body[j], ast.Expr) and isinstance(tree.body[j].value, ast.Constant)):
                j += 1
            tree.body.insert(j, ast.parse("import logging").body[0])
            ast.fix_missing_locations(tree)
        elif kind == "invert-if-else":
            tree = _InvertIfElse().visit(tree)
            ast.fix_missing_locations(tree)
        elif kind == "flip-comparisons":
            tree = _FlipCompare().visit(tree)
            ast.fix_missing_locations(tree)
        out[m.relpath] = ast.unparse(tree)
    return out


def run_twin(prop: str, base: Model, kind: str) -> Dict[str, object]:
    srcs = twin_sources(base, kind)
    m = Model(root=base.root, overrides=srcs)
    rep = Report(prop, "thorough", quiet=True)
    try:
        importlib.import_module(f"sa.rules.{prop.lower()}").run(m, rep)
        rep.finish()
        fired = [f"{i.rule} {i.site} {i.construct[:90]}" for i in rep.violations]
        err = None
    except Exception as e:
        fired, err = [], f"{type(e).__name__}: {e}"
    return {"id": f"twin-{kind}", "kind": "twin", "status": "silent" if not fired and err is None else "FALSE-ALARM", "fired": fired[:8], "err": err}

"""Self-test of the equivalence layer (sa/equiv.py): pairs of module sources (reviewed, current).

  expect True  - the normal forms of function `f` must be equal (a refactoring the layer is meant to see through)
  expect False - they must differ (the edit changes behaviour: the layer must never identify the two)

The False cases are the soundness guard: each one is a way a rewrite of the normal form could go wrong (moving a
statement across an effect, duplicating a fresh object, dropping a loop-carried variable, ...).
"""

from __future__ import annotations

import ast
from typing import Dict, List, Tuple

from .. import equiv

CASES: List[Tuple[str, bool, str, str]] = [
    # ------------------------------------------------------------------ must be proven equal
    ("guard-clause", True,
     "def f(s, i):\n    m = E.search(s, i)\n    if m:\n        j = m.start(0)\n        g(s[i:j])\n    else:\n        g(s[i:])\n        return len(s)\n    return j\n",
     "def f(s, i):\n    m = E.search(s, i)\n    if not m:\n        g(s[i:])\n        return len(s)\n    j = m.start(0)\n    g(s[i:j])\n    return j\n"),
    ("extract-method", True,
     "class A:\n    def f(self, objs):\n        if len(objs) % 2 != 0:\n            raise E('odd %r' % objs)\n        d = {k: v for (k, v) in chop(2, objs) if v is not None}\n        self.push(d)\n",
     "class A:\n    @staticmethod\n    def _mk(objs):\n        if len(objs) % 2:\n            raise E(f'odd {objs}')\n        d = {}\n        for k, v in chop(2, objs):\n            if v is not None:\n                d[k] = v\n        return d\n    def f(self, objs):\n        self.push(self._mk(objs))\n"
     .replace("if len(objs) % 2:", "if len(objs) % 2 != 0:")),
    ("ifexp-vs-if", True,
     "def f(s, i):\n    c = s[i:i+1]\n    self.p = q\n    if c == b'\\n':\n        return i + 1\n    return i\n",
     "def f(s, i):\n    self.p = q\n    return i + 1 if s[i:i+1] == b'\\n' else i\n"),
    ("temp-inlined", True,
     "def f(a, b):\n    t = g(a)\n    return h(t, b)\n",
     "def f(a, b):\n    return h(g(a), b)\n"),
    ("renamed-locals-and-flip", True,
     "def f(xs):\n    n = 0\n    for x in xs:\n        if x > 3:\n            n += 1\n    return n\n",
     "def f(xs):\n    count = 0\n    for item in xs:\n        if 3 < item:\n            count += 1\n    return count\n"),
    ("variable-reuse-split", True,
     "def f(name, diff):\n    t = tab.get(name)\n    if diff:\n        t = t.copy()\n        t[0] = diff\n    return t\n",
     "def f(name, diff):\n    base = tab.get(name)\n    if not diff:\n        return base\n    out = base.copy()\n    out[0] = diff\n    return out\n"),
    ("closure-moved-out", True,
     "class A:\n    def f(self, page):\n        def render(item):\n            if isinstance(item, C):\n                for ch in item:\n                    render(ch)\n            else:\n                self.w(item)\n        render(page)\n",
     "class A:\n    def _render(self, item):\n        if isinstance(item, C):\n            for ch in item:\n                self._render(ch)\n        else:\n            self.w(item)\n    def f(self, page):\n        self._render(page)\n"),
    ("loop-over-keys", True,
     "def f(self, t):\n    if 'A' in t:\n        self.r(int_value(t['A']))\n    if 'B' in t:\n        self.r(int_value(t['B']))\n",
     "def f(self, t):\n    for k in ('A', 'B'):\n        if k in t:\n            self.r(int_value(t[k]))\n"),
    ("try-return", True,
     "def f(objs, i):\n    try:\n        obj = objs[i]\n    except IndexError:\n        raise E('big')\n    return obj\n",
     "def f(objs, i):\n    try:\n        return objs[i]\n    except IndexError:\n        raise E('too big')\n"),
    ("constant-param-helper", True,
     "class A:\n    def f(self, name):\n        try:\n            self.scs = self.m[lit(name)]\n        except KeyError:\n            if S.STRICT:\n                raise E('x')\n",
     "class A:\n    def _sel(self, name, stroking):\n        try:\n            cs = self.m[lit(name)]\n        except KeyError:\n            if S.STRICT:\n                raise E('x')\n            return\n        if stroking:\n            self.scs = cs\n        else:\n            self.ncs = cs\n    def f(self, name):\n        self._sel(name, stroking=True)\n"),
    ("call-through-conditional-callee", True,
     "class A:\n    def f(self, s, a):\n        if s.v():\n            r = self.rv(a, s.m)\n        else:\n            r = self.rh(a, s.m)\n        s.m = r\n",
     "class A:\n    def f(self, s, a):\n        render = self.rv if s.v() else self.rh\n        s.m = render(a, s.m)\n"),
    ("disjoint-ranges-to-elif", True,
     "def f(n, out, it):\n    if n >= 0 and n < 128:\n        out.append(next(it))\n    if n > 128:\n        out.extend(it)\n",
     "def f(n, out, it):\n    if 0 <= n < 128:\n        out.append(next(it))\n    elif n > 128:\n        out.extend(it)\n"),
    ("mirrored-range-loops", True,
     "def f(self, a, b):\n    if b < a:\n        for x in range(b, a):\n            self.l[x] = self.c\n    elif a < b:\n        for x in range(a, b):\n            self.l[x] = self.c\n",
     "def f(self, a, b):\n    (lo, hi) = (b, a) if b < a else (a, b)\n    for i in range(lo, hi):\n        self.l[i] = self.c\n"),
    ("in-index-vs-find", True,
     "def f(self, line, n):\n    if b'endstream' in line:\n        i = line.index(b'endstream')\n        n += i\n        self.d += line[:i]\n        return n\n    n += len(line)\n    return n\n",
     "def f(self, line, n):\n    k = line.find(b'endstream')\n    if k >= 0:\n        n += k\n        self.d += line[:k]\n        return n\n    n += len(line)\n    return n\n"),
    ("unpacked-default-list-or-tuple", True,
     "def f(spec):\n    (vy, w) = resolve1(spec.get('DW2', [880, -1000]))\n    return (vy, w)\n",
     "def f(spec):\n    (vy, w) = resolve1(spec.get('DW2', (880, -1000)))\n    return (vy, w)\n"),
    ("interned-keyword-constant-or-call", True,
     "class A:\n    K_OBJ = KWD(b'obj')\n    def f(self, t):\n        if t is KWD(b'obj'):\n            return 1\n        return 0\n",
     "class A:\n    K_OBJ = KWD(b'obj')\n    def f(self, t):\n        if t is self.K_OBJ:\n            return 1\n        return 0\n"),
    ("store-then-reload-folded", True,
     "class A:\n    def f(self, d, w):\n        if w is None:\n            self.dw = num_value(d.get('MissingWidth', 0))\n        else:\n            self.dw = w\n        self.dw = resolve1(self.dw)\n",
     "class A:\n    def f(self, d, w):\n        dw = num_value(d.get('MissingWidth', 0)) if w is None else w\n        self.dw = resolve1(dw)\n"),
    # ------------------------------------------------------------------ must stay different
    ("reload-through-another-function", False,
     "class A:\n    def f(self, d):\n        self.dw = num_value(d)\n        self.dw = resolve1(self.dw)\n",
     "class A:\n    def f(self, d):\n        self.dw = num_value(d)\n        self.dw = int_value(self.dw)\n"),
    ("other-interned-keyword", False,
     "class A:\n    K_OBJ = KWD(b'obj')\n    K_END = KWD(b'endobj')\n    def f(self, t):\n        if t is KWD(b'obj'):\n            return 1\n        return 0\n",
     "class A:\n    K_OBJ = KWD(b'obj')\n    K_END = KWD(b'endobj')\n    def f(self, t):\n        if t is self.K_END:\n            return 1\n        return 0\n"),
    ("ranges-that-meet-are-not-exclusive", False,
     "def f(n, out, it):\n    if n >= 0 and n <= 128:\n        out.append(next(it))\n    if n >= 128:\n        out.extend(it)\n",
     "def f(n, out, it):\n    if 0 <= n <= 128:\n        out.append(next(it))\n    elif n >= 128:\n        out.extend(it)\n"),
    ("first-arm-rebinds-the-tested-name", False,
     "def f(n, out):\n    if n < 10:\n        n = n + 100\n        out.append(n)\n    if n > 50:\n        out.append(0)\n",
     "def f(n, out):\n    if n < 10:\n        n = n + 100\n        out.append(n)\n    elif n > 50:\n        out.append(0)\n"),
    ("one-direction-only-loop", False,
     "def f(self, a, b):\n    if b < a:\n        for x in range(b, a):\n            self.l[x] = self.c\n    elif a < b:\n        for x in range(a, b):\n            self.l[x] = self.c\n",
     "def f(self, a, b):\n    for x in range(a, b):\n        self.l[x] = self.c\n"),
    ("find-arms-swapped", False,
     "def f(self, line, n):\n    if b'endstream' in line:\n        i = line.index(b'endstream')\n        n += i\n        return n\n    n += len(line)\n    return n\n",
     "def f(self, line, n):\n    k = line.find(b'endstream')\n    if k == -1:\n        n += k\n        return n\n    n += len(line)\n    return n\n"),
    ("kept-default-list-is-not-a-tuple", False,
     "def f(spec):\n    w = spec.get('W', [880, -1000])\n    return w\n",
     "def f(spec):\n    w = spec.get('W', (880, -1000))\n    return w\n"),
    ("call-moved-across-test", False,
     "def f(self):\n    eol = False\n    while 1:\n        self.fill()\n        if eol:\n            c = self.buf[self.pos]\n            break\n        m = E.search(self.buf)\n        if m:\n            eol = True\n",
     "def f(self):\n    eol = False\n    while 1:\n        if eol:\n            c = self.buf[self.pos]\n            break\n        self.fill()\n        m = E.search(self.buf)\n        if m:\n            eol = True\n"),
    ("len-cached-across-mutation", False,
     "def f(r):\n    if len(r) == 0:\n        r.insert(0, 1)\n    for n in r:\n        if n == len(r):\n            g(n)\n",
     "def f(r):\n    k = len(r)\n    if k == 0:\n        r.insert(0, 1)\n    for n in r:\n        if n == k:\n            g(n)\n"),
    ("fresh-list-shared", False,
     "def f(a):\n    x = []\n    y = []\n    x.append(a)\n    return x, y\n",
     "def f(a):\n    x = y = []\n    x.append(a)\n    return x, y\n"),
    ("strict-vs-nonstrict", False,
     "def f(a, b):\n    return a < b\n",
     "def f(a, b):\n    return a <= b\n"),
    ("branches-swapped", False,
     "def f(c, a, b):\n    if c:\n        return a\n    return b\n",
     "def f(c, a, b):\n    if c:\n        return b\n    return a\n"),
    ("helper-with-other-constant", False,
     "def f(x):\n    return x[:3] + x[:2]\n",
     "def _cut(x, n=3):\n    return x[:n]\ndef f(x):\n    return _cut(x) + _cut(x)\n"),
    ("handler-narrowed", False,
     "def f(x):\n    try:\n        return g(x)\n    except (KeyError, ValueError):\n        return None\n",
     "def f(x):\n    try:\n        return g(x)\n    except KeyError:\n        return None\n"),
    ("statement-dropped", False,
     "def f(self, x):\n    self.a = x\n    self.b = x\n",
     "def f(self, x):\n    self.a = x\n"),
    ("temp-moved-past-store", False,
     "def f(self):\n    c = self.buf[self.pos]\n    self.pos += 1\n    return c\n",
     "def f(self):\n    self.pos += 1\n    return self.buf[self.pos]\n"),
    ("default-lost", False,
     "def f(d):\n    n = 0\n    try:\n        n = int(d['L'])\n    except KeyError:\n        pass\n    return n\n",
     "def f(d):\n    try:\n        n = int(d['L'])\n    except KeyError:\n        n = 1\n    return n\n"),
    ("loop-bound-off-by-one", False,
     "def f(a, b):\n    for i in range(a, b + 1):\n        g(i)\n",
     "def f(a, b):\n    for i in range(a, b):\n        g(i)\n"),
    ("and-vs-or", False,
     "def f(a, b):\n    if a and b:\n        g()\n",
     "def f(a, b):\n    if a or b:\n        g()\n"),
    ("unrolled-order-changed", False,
     "def f(self, t):\n    if 'A' in t:\n        self.r(t['A'])\n    if 'B' in t:\n        self.r(t['B'])\n",
     "def f(self, t):\n    for k in ('B', 'A'):\n        if k in t:\n            self.r(t[k])\n"),
    ("foreign-attribute-is-not-a-rename", False,
     "import os\nclass A:\n    def f(self, p, d):\n        r = os.path.realpath(p)\n        return r.startswith(os.path.realpath(d) + os.sep)\n",
     "import os\nclass A:\n    def f(self, p, d):\n        r = os.path.abspath(p)\n        return r.startswith(os.path.abspath(d) + os.sep)\n"),
    ("comprehension-variable-is-local-to-it", False,
     "def f(d, p):\n    (a, w) = p\n    widths = {k: w for (k, (w, _)) in d.items()}\n    return widths, w\n",
     "def f(d, p):\n    (a, w) = p\n    widths = {}\n    for k, (w, _) in d.items():\n        widths[k] = w\n    return widths, w\n"),
    ("copy-dropped", False,
     "def f(name, diff):\n    t = tab.get(name)\n    if diff:\n        t = t.copy()\n        t[0] = diff\n    return t\n",
     "def f(name, diff):\n    t = tab.get(name)\n    if diff:\n        t[0] = diff\n    return t\n"),
]


def _nf(src: str, other: str, key: str) -> str:
    tree, otree = ast.parse(src), ast.parse(other)
    ren = equiv._detect_renames_once(tree, otree)
    if ren:
        equiv._rename_everywhere(tree, ren)
    ft, oft = equiv.function_table(tree), equiv.function_table(otree)
    ct, oct_ = equiv.const_table(tree), equiv.const_table(otree)
    helpers = {k: v[0] for k, v in ft.items() if k not in oft}
    consts = {k: v for k, v in ct.items() if k not in oct_}
    dummy: Dict[str, ast.expr] = {}
    equiv._add_interned(tree, otree, consts, dummy)
    node, _, cls = ft[key]
    return equiv.normal_form(node, equiv.Ctx(helpers, consts, cls, set(ft)))


def run() -> Dict[str, object]:
    bad: List[str] = []
    for name, expect, ref, cur in CASES:
        key = "A.f" if "class A" in ref else "f"
        try:
            same = _nf(ref, cur, key) == _nf(cur, ref, key)
        except Exception as e:  # a rewrite that cannot be applied means "not proven"
            same = False
            if expect:
                bad.append(f"{name}: normal form failed ({type(e).__name__}: {e})")
                continue
        if same != expect:
            bad.append(f"{name}: expected {'equal' if expect else 'different'} normal forms")
    return {"cases": len(CASES), "must_be_equal": sum(1 for c in CASES if c[1]), "must_differ": sum(1 for c in CASES if not c[1]), "failed": bad}

"""Seeded variants: (property, id, file, old text, new text, rule expected to fire | None for a benign twin).

`old` must occur exactly once in the file on the current tree, otherwise the variant is reported
as stale and skipped (the repository may have moved on).  A trailing '*' in the rule id matches a prefix.
"""

PS = "pdfminer/psparser.py"
UT = "pdfminer/utils.py"

VARIANTS = [
    # ------------------------------------------------------------------ C20
    ("C20", "mult-swapped-index", UT, "b0 * a1 + d0 * b1,", "b0 * a1 + c0 * b1,", "C20-R1"),
    ("C20", "translate-sign", UT, "return a, b, c, d, x * a + y * c + e, x * b + y * d + f", "return a, b, c, d, x * a + y * c + e, x * b - y * d + f", "C20-R1"),
    ("C20", "apply-pt-transposed", UT, "return a * x + c * y + e, b * x + d * y + f", "return a * x + b * y + e, c * x + d * y + f", "C20-R1"),
    ("C20", "norm-adds-translation", UT, "return a * p + c * q, b * p + d * q", "return a * p + c * q + e, b * p + d * q", "C20-R1"),
    ("C20", "identity-changed", UT, "MATRIX_IDENTITY: Matrix = (1, 0, 0, 1, 0, 0)", "MATRIX_IDENTITY: Matrix = (1, 0, 0, 1, 0, 1)", "C20-R1"),
    ("C20", "rect-wrong-corner", UT, "right_top = (x1, y1)", "right_top = (x1, y0)", "C20-R2"),
    ("C20", "rect-min-drops-corner", UT, "min(left1, left2, right1, right2),", "min(left1, left2, right1),", "C20-R2"),
    ("C20", "add-skips-objs", UT, "        self._seq.append(obj)\n        self._objs.add(obj)", "        self._seq.append(obj)", "C20-R3"),
    ("C20", "find-no-dedup", UT, "                if obj in done:\n                    continue\n                done.add(obj)\n", "", "C20-R3"),
    ("C20", "iter-unfiltered", UT, "return (obj for obj in self._seq if obj in self._objs)", "return (obj for obj in self._seq)", "C20-R3"),
    ("C20", "overlap-nonstrict", UT, "if obj.x1 <= x0 or x1 <= obj.x0 or obj.y1 <= y0 or y1 <= obj.y0:", "if obj.x1 < x0 or x1 <= obj.x0 or obj.y1 <= y0 or y1 <= obj.y0:", "C20-R4"),
    ("C20", "remove-other-range", UT, "    def remove(self, obj: LTComponentT) -> None:\n        \"\"\"Displace an object.\"\"\"\n        for k in self._getrange((obj.x0, obj.y0, obj.x1, obj.y1)):", "    def remove(self, obj: LTComponentT) -> None:\n        \"\"\"Displace an object.\"\"\"\n        for k in self._getrange((obj.x0, obj.y0, obj.x0, obj.y1)):", "C20-R3"),
    ("C20", "drange-truncates-again", UT, "return range(math.floor(v0) // d, math.floor(v1 + d) // d)", "return range(int(v0) // d, int(v1 + d) // d)", "C20-R5"),
    ("C20", "twin-rename-locals", UT, "    (a1, b1, c1, d1, e1, f1) = m1\n    (a0, b0, c0, d0, e0, f0) = m0\n    \"\"\"Returns the multiplication of two matrices.\"\"\"\n    return (\n        a0 * a1 + c0 * b1,", "    (a1, b1, c1, d1, e1, f1) = m1\n    (a0, b0, c0, d0, e0, f0) = m0\n    first = b1 * c0 + a1 * a0\n    return (\n        first,", None),
    ("C20", "twin-overlap-flipped", UT, "if obj.x1 <= x0 or x1 <= obj.x0 or obj.y1 <= y0 or y1 <= obj.y0:", "if x0 >= obj.x1 or obj.x0 >= x1 or y0 >= obj.y1 or obj.y0 >= y1:", None),
    # ------------------------------------------------------------------ C14
    ("C14", "comment-returns-j", PS, "            self._curtoken = b\"%\"\n            self._parse1 = self._parse_comment\n            return j + 1", "            self._curtoken = b\"%\"\n            self._parse1 = self._parse_comment\n            return j", "C14-R1"),
    ("C14", "wclose-keeps-state", PS, "            self._add_token(KEYWORD_DICT_END)\n            i += 1\n        self._parse1 = self._parse_main\n        return i", "            self._add_token(KEYWORD_DICT_END)\n            i += 1\n            self._parse1 = self._parse_main\n        return i", "C14-R1"),
    ("C14", "scanner-with-while", PS, "    def _parse_float(self, s: bytes, i: int) -> int:\n        m = END_NUMBER.search(s, i)", "    def _parse_float(self, s: bytes, i: int) -> int:\n        while s[i : i + 1] == b\"0\":\n            i += 1\n        m = END_NUMBER.search(s, i)", "C14-R1"),
    ("C14", "return-unclassifiable", PS, "        self._add_token(token)\n        self._parse1 = self._parse_main\n        return j\n\n    def _parse_string(", "        self._add_token(token)\n        self._parse1 = self._parse_main\n        return j - 1\n\n    def _parse_string(", "C14-R1"),
    ("C14", "int-unguarded", PS, "        try:\n            self._add_token(int(self._curtoken))\n        except ValueError:\n            pass", "        self._add_token(int(self._curtoken))", "C14-R2"),
    ("C14", "assert-on-token", PS, "        self._add_token(self._curtoken)\n        self._parse1 = self._parse_main\n        return j + 1", "        assert len(self._curtoken) < 65536\n        self._add_token(self._curtoken)\n        self._parse1 = self._parse_main\n        return j + 1", "C14-R2"),
    ("C14", "octal-mask-removed", PS, "chrcode = int(self.oct, 8) & 255", "chrcode = int(self.oct, 8)", "C14-R2"),
    ("C14", "hex-accumulates-unguarded", PS, "        if HEX.match(c) and len(self.hex) < 2:", "        if len(self.hex) < 2:", "C14-R2"),
    ("C14", "literal-hex-peek", PS, "        c = s[i : i + 1]\n        if HEX.match(c) and len(self.hex) < 2:", "        c = s[i : i + 1]\n        if HEX.match(c) and len(self.hex) < 2 and HEX.match(s[i + 1 : i + 2]):", "C14-R3"),
    ("C14", "number-len-branch", PS, "        c = s[j : j + 1]\n        if c == b\".\":", "        c = s[j : j + 1]\n        if c == b\".\" and len(s) - j > 1:", "C14-R3"),
    ("C14", "multibyte-pattern-on-buffer", PS, "EOL = re.compile(rb\"[\\r\\n]\")", "EOL = re.compile(rb\"\\r\\n|[\\r\\n]\")", "C14-R3"),
    ("C14", "tokenpos-absolute-dropped", PS, "self._curtokenpos = self.bufpos + j", "self._curtokenpos = j", "C14-R4"),
    ("C14", "eof-not-latched", PS, "                self.charpos = self._parse1(b\"\\n\", 0)\n                self.eof = True", "                self.charpos = self._parse1(b\"\\n\", 0)", "C14-R5"),
    ("C14", "fillbuf-no-eof", PS, "        if not self.buf:\n            raise PSEOF(\"Unexpected EOF\")\n        self.charpos = 0\n\n    def nextline", "        self.charpos = 0\n\n    def nextline", "C14-R1"),
    ("C14", "twin-rename-j", PS, "        j = m.start(0)\n        self._curtoken += s[i:j]\n        self._parse1 = self._parse_main\n        # We ignore comments.\n        # self._tokens.append(self._curtoken)\n        return j", "        k = m.start(0)\n        self._curtoken += s[i:k]\n        self._parse1 = self._parse_main\n        return k", None),
    ("C14", "twin-reorder-assignments", PS, "            self._curtoken = b\"\"\n            self.paren = 1\n            self._parse1 = self._parse_string", "            self._parse1 = self._parse_string\n            self.paren = 1\n            self._curtoken = b\"\"", None),
    # ------------------------------------------------------------------ C01
    ("C01", "end-keyword-drops-braces", PS, "END_KEYWORD = re.compile(rb\"[#/%\\[\\]()<>{}\\x00\\t\\n\\x0c\\r ]\")", "END_KEYWORD = re.compile(rb\"[#/%\\[\\]()<>\\x00\\t\\n\\x0c\\r ]\")", "C01-R1"),
    ("C01", "end-literal-space-only", PS, "END_LITERAL = re.compile(rb\"[#/%\\[\\]()<>{}\\x00\\t\\n\\x0c\\r ]\")", "END_LITERAL = re.compile(rb\"[#/%\\[\\]()<>{} ]\")", "C01-R1"),
    ("C01", "spc-back-to-s", PS, "SPC = re.compile(rb\"[\\x00\\t\\n\\x0c\\r ]\")", "SPC = re.compile(rb\"\\s\")", "C01-R1"),
    ("C01", "dispatch-plus-not-number", PS, "elif c in b\"-+\" or c.isdigit():", "elif c in b\"-\" or c.isdigit():", "C01-R1"),
    ("C01", "esc-f-removed", PS, "    b\"f\": 12,\n", "", "C01-R2"),
    ("C01", "esc-r-wrong", PS, "    b\"r\": 13,", "    b\"r\": 10,", "C01-R2"),
    ("C01", "octal-two-digits", PS, "if OCT_STRING.match(c) and len(self.oct) < 3:", "if OCT_STRING.match(c) and len(self.oct) < 2:", "C01-R2"),
    ("C01", "unknown-escape-dropped", PS, "            # Not an escape sequence: only the \\ itself is ignored\n            self._parse1 = self._parse_string\n            return i\n", "            self._parse1 = self._parse_string\n            return i + 1\n", "C01-R*"),
    ("C01", "string1-peek", PS, "        elif c == b\"\\r\":\n            # A \\r after", "        elif c == b\"\\r\" and s[i + 1 : i + 2] != b\"x\":\n            # A \\r after", "C01-R3"),
    ("C01", "array-end-wrong-tag", PS, "                    self.push(self.end_type(\"a\"))", "                    self.push(self.end_type(\"p\"))", "C01-R5"),
    ("C01", "dict-odd-accepted", PS, "                    if len(objs) % 2 != 0:\n                        error_msg = \"Invalid dictionary construct: %r\" % objs\n                        raise PSSyntaxError(error_msg)\n", "", "C01-R5"),
    ("C01", "dict-keeps-null", PS, "                        for (k, v) in choplist(2, objs)\n                        if v is not None\n", "                        for (k, v) in choplist(2, objs)\n", "C01-R5"),
    ("C01", "ref-unguarded", "pdfminer/pdfparser.py", "            if len(self.curstack) >= 2:\n                (_, _object_id), _ = self.pop(2)\n                object_id = safe_int(_object_id)\n                if object_id is not None:\n                    obj = PDFObjRef(self.doc, object_id)\n                    self.push((pos, obj))\n\n        elif token is self.KEYWORD_STREAM:", "            if True:\n                (_, _object_id), _ = self.pop(2)\n                object_id = safe_int(_object_id)\n                if object_id is not None:\n                    obj = PDFObjRef(self.doc, object_id)\n                    self.push((pos, obj))\n\n        elif token is self.KEYWORD_STREAM:", "C01-R5"),
    ("C01", "paren-not-initialised", PS, "            self._curtoken = b\"\"\n            self.paren = 1\n            self._parse1 = self._parse_string", "            self._curtoken = b\"\"\n            self._parse1 = self._parse_string", "C01-R*"),
    ("C01", "oct-not-reset", PS, "        if c == b\"\\\\\":\n            self.oct = b\"\"\n            self._parse1 = self._parse_string_1", "        if c == b\"\\\\\":\n            self._parse1 = self._parse_string_1", "C01-R6"),
    ("C01", "literal-no-token", PS, "        self._add_token(LIT(name))\n        self._parse1 = self._parse_main\n        return j", "        self._parse1 = self._parse_main\n        return j", "C01-R6"),
    ("C01", "true-is-keyword", PS, "        if self._curtoken == b\"true\":\n            token: Union[bool, PSKeyword] = True", "        if self._curtoken == b\"True\":\n            token: Union[bool, PSKeyword] = True", "C01-R6"),
    ("C01", "wopen-to-main", PS, "        else:\n            self._parse1 = self._parse_hexstring\n        return i", "        else:\n            self._parse1 = self._parse_main\n        return i", "C01-R6"),
    ("C01", "twin-reorder-esc", PS, "    b\"b\": 8,\n    b\"t\": 9,", "    b\"t\": 9,\n    b\"b\": 8,", None),
    ("C01", "twin-class-respelled", PS, "EOL = re.compile(rb\"[\\r\\n]\")", "EOL = re.compile(rb\"[\\n\\r]\")", None),
    ("C01", "twin-dispatch-respelled", PS, "elif c in b\"-+\" or c.isdigit():", "elif c.isdigit() or c == b\"+\" or c == b\"-\":", None),
]

"""Static analysis machinery for the pdfminer.six properties (see /verif/DESIGN.md)."""
